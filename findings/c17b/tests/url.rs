//! C17 witness (fixed by dd0f968): before that commit breakpad-symbols/src/http.rs built every request URL as
//! `base_url.join(&lookup.server_rel)`; this test replays exactly that join on the paths the public lookup functions return
//! and shows the resulting URL leaving the server root. (Copy /repo/Cargo.lock next to Cargo.toml before `cargo test --offline`.)
use breakpad_symbols::{binary_lookup, breakpad_sym_lookup, extra_debuginfo_lookup, SimpleModule};
use debugid::{CodeId, DebugId};
use reqwest::Url;
use std::str::FromStr;

fn module(code_file: &str, debug_file: &str) -> SimpleModule {
    SimpleModule::from_basic_info(
        Some(debug_file.to_string()),
        Some(DebugId::from_str("abcd1234-abcd-1234-abcd-abcd12345678-a").unwrap()),
        Some(code_file.to_string()),
        Some(CodeId::from_str("5A9832E5287241C1838ED98914E9B7FF").unwrap()),
    )
}

fn check(name: &str) -> Vec<String> {
    let base = Url::parse("https://symbols.example.org/root/").unwrap();
    let m = module(name, name);
    let mut bad = vec![];
    for (what, l) in [("sym", breakpad_sym_lookup(&m)), ("extra", extra_debuginfo_lookup(&m)), ("bin", binary_lookup(&m))] {
        if let Some(l) = l {
            match base.join(&l.server_rel) {
                Ok(u) => {
                    if !u.as_str().starts_with("https://symbols.example.org/root/") {
                        bad.push(format!("{what}: {:?} -> server_rel {:?} -> {}", name, l.server_rel, u));
                    }
                }
                Err(_) => {}
            }
        }
    }
    bad
}

#[test]
fn server_urls_stay_under_the_root() {
    let mut bad = vec![];
    for n in ["http:evil.example", "%2e%2e", "%2E%2e", ".%2e", ".\t.", "C:foo.pdb", "ftp:x", "a/%2e%2e", "..\n"] {
        bad.extend(check(n));
    }
    for b in &bad { eprintln!("ESCAPE {b}"); }
    assert!(bad.is_empty());
}
