//! Side task: behaviour of the UNMODIFIED tree that already departs from property C20.
//! These tests FAIL on the unmodified worktree (they document pre-existing defects) and are
//! not part of the demonstration of the seeded change.

use minidump::Minidump;
use minidump_processor::ProcessorOptions;
use minidump_unwind::{simple_symbol_supplier, Symbolizer};
use seed_c20g_demo::{run_cli, WORKTREE};

/// `--features unstable-all` is documented (and implemented in the library's
/// `ProcessorOptions::unstable_all()`) to enable function-argument recovery, but main.rs
/// unconditionally overwrites `options.recover_function_args` with the value of the
/// `--recover-function-args` flag, so the tool's report differs from the library's report for
/// the same options.
#[tokio::test]

async fn features_unstable_all_matches_library() {
    // Symbols for testdata/test.dmp, with an argument list added to the crashing function's
    // name so that argument recovery has something to recover.
    let dir = tempfile::tempdir().unwrap();
    let rel = "test_app.pdb/5A9832E5287241C1838ED98914E9B7FF1";
    let sym = std::fs::read_to_string(format!("{WORKTREE}/testdata/symbols/{rel}/test_app.sym"))
        .unwrap()
        .replace(
            "`anonymous namespace'::CrashFunction",
            "`anonymous namespace'::CrashFunction(int first, char* second)",
        );
    std::fs::create_dir_all(dir.path().join(rel)).unwrap();
    std::fs::write(dir.path().join(rel).join("test_app.sym"), sym).unwrap();

    let dump_path = format!("{WORKTREE}/testdata/test.dmp");

    // Library, same options.
    let dump = Minidump::read_path(&dump_path).unwrap();
    let provider = Symbolizer::new(simple_symbol_supplier(vec![dir.path().to_path_buf()]));
    let state = minidump_processor::process_minidump_with_options(
        &dump,
        &provider,
        ProcessorOptions::unstable_all(),
    )
    .await
    .unwrap();
    let mut expected = Vec::new();
    state.print(&mut expected).unwrap();
    let expected = String::from_utf8(expected).unwrap();
    assert!(expected.contains("Arguments (assuming"), "library recovers arguments");

    // Tool.
    let output = run_cli([
        "--human".as_ref(),
        "--features".as_ref(),
        "unstable-all".as_ref(),
        dump_path.as_ref(),
        dir.path().as_os_str(),
    ]);
    assert_eq!(output.status.code(), Some(0));
    let actual = String::from_utf8(output.stdout).unwrap();
    assert_eq!(actual, expected, "tool output differs from the library's report");
}

/// A failing run must leave a diagnostic on standard error; with `--verbose off` every
/// diagnostic that main.rs routes through `tracing::error!` (unreadable dump, processing
/// error, rejected --pretty/--brief combinations) is swallowed and the tool exits 1 silently.
#[test]

fn failure_is_diagnosed_even_with_verbose_off() {
    let dump_path = format!("{WORKTREE}/testdata/test.dmp");
    for args in [
        vec!["--verbose", "off", "/nonexistent/missing.dmp"],
        vec!["--verbose", "off", "--json", "--brief", &dump_path],
        vec!["--verbose", "off", "--human", "--pretty", &dump_path],
    ] {
        let output = run_cli(&args);
        assert_eq!(output.status.code(), Some(1), "{args:?}");
        assert!(output.stdout.is_empty(), "{args:?}");
        assert!(
            !output.stderr.is_empty(),
            "{args:?}: exit status 1 without any diagnostic on standard error"
        );
    }
}

/// Same, with `--log-file`: the diagnostic of a failing run goes to the log file only and
/// standard error stays empty (arguably by design - "Where to write logs to" - but the
/// statement of the property asks for a diagnostic on standard error).
#[test]

fn failure_is_diagnosed_on_stderr_with_log_file() {
    let dir = tempfile::tempdir().unwrap();
    let log = dir.path().join("log.txt");
    let output = run_cli([
        "--log-file".as_ref(),
        log.as_os_str(),
        "/nonexistent/missing.dmp".as_ref(),
    ]);
    assert_eq!(output.status.code(), Some(1));
    assert!(output.stdout.is_empty());
    assert!(
        !output.stderr.is_empty(),
        "exit status 1 and nothing on standard error; log file has: {:?}",
        std::fs::read_to_string(&log).unwrap()
    );
}
