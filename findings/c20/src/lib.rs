//! Helpers shared by the demonstration tests: build the command-line tool from the
//! worktree under test and run it.

use std::path::PathBuf;
use std::process::{Command, Output};
use std::sync::OnceLock;

/// The worktree whose `minidump-stackwalk` is exercised.
pub const WORKTREE: &str = "/repo";

/// Build `minidump-stackwalk` from the worktree (once per test process) and return the
/// path of the binary.
pub fn cli_binary() -> PathBuf {
    static BIN: OnceLock<PathBuf> = OnceLock::new();
    BIN.get_or_init(|| {
        let target = std::env::var("SEED_CLI_TARGET_DIR")
            .unwrap_or_else(|_| format!("{}/target/cli", env!("CARGO_MANIFEST_DIR")));
        let status = Command::new(env!("CARGO"))
            .args(["build", "--offline", "-q", "-p", "minidump-stackwalk"])
            .arg("--manifest-path")
            .arg(format!("{WORKTREE}/Cargo.toml"))
            .env("CARGO_NET_OFFLINE", "true")
            .env("CARGO_TARGET_DIR", &target)
            .status()
            .expect("cargo build could not be started");
        assert!(status.success(), "building minidump-stackwalk failed");
        PathBuf::from(target).join("debug").join("minidump-stackwalk")
    })
    .clone()
}

/// Run the tool with the given arguments.
pub fn run_cli<I, S>(args: I) -> Output
where
    I: IntoIterator<Item = S>,
    S: AsRef<std::ffi::OsStr>,
{
    Command::new(cli_binary())
        .args(args)
        .output()
        .expect("minidump-stackwalk could not be started")
}
