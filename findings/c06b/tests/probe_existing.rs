//! Probes for behaviour of the UNMODIFIED tree (not part of the demonstration).
use breakpad_symbols::{SimpleModule, SymbolFile};
use seed_c06g_demo::MapWalker;

fn module() -> SimpleModule {
    SimpleModule {
        base_address: Some(0x4000_0000),
        size: Some(0x10000),
        ..SimpleModule::default()
    }
}

#[test]
fn probe_same_address_deltas() {
    // two delta records at the same address, file order: 8 first, then 16
    let sym = "MODULE Linux x86_64 000000000000000000000000000000000 mod\n\
               STACK CFI INIT 4000 100 .cfa: $rsp 8 + .ra: .cfa 8 - ^ $rbx: 1\n\
               STACK CFI 4010 $rbx: 8\n\
               STACK CFI 4010 $rbx: 16\n";
    let file = SymbolFile::from_bytes(sym.as_bytes()).unwrap();
    let mut w = MapWalker::new(0x4000_4010, &[("rsp", 0x1010), ("rbx", 0xb)], &["rbx"]);
    file.walk_frame(&module(), &mut w).unwrap();
    println!("same-address deltas: rbx = {:?} (file order says 16)", w.caller.get("rbx"));
}

#[test]
fn probe_dollar_in_the_middle() {
    let sym = "MODULE Linux x86_64 000000000000000000000000000000000 mod\n\
               STACK CFI INIT 4000 100 .cfa: $rsp 8 + .ra: .cfa 8 - ^ $rbx: junk$rsp\n";
    let file = SymbolFile::from_bytes(sym.as_bytes()).unwrap();
    let mut w = MapWalker::new(0x4000_4010, &[("rsp", 0x1010), ("rbx", 0xb)], &["rbx"]);
    file.walk_frame(&module(), &mut w).unwrap();
    println!("junk$rsp: rbx = {:?} (a junk token should make the rule fail -> None)", w.caller.get("rbx"));
}

mod x86 {
    use minidump::format::CONTEXT_X86;
    use minidump::system_info::{Cpu, Os};
    use minidump::*;
    use minidump_unwind::*;
    use std::collections::HashMap;
    use test_assembler::*;

    async fn unwind(symbols: &str) -> CallStack {
        let modules = MinidumpModuleList::from_modules(vec![MinidumpModule::new(
            0x40000000, 0x10000, "module1",
        )]);
        let system_info = SystemInfo {
            os: Os::Windows,
            os_version: None,
            os_build: None,
            cpu: Cpu::X86,
            cpu_info: None,
            cpu_microcode_version: None,
            cpu_count: 1,
        };
        let mut raw = CONTEXT_X86::default();
        raw.esp = 0x80000000;
        raw.eip = 0x40004002;
        raw.ebp = 0x80000100;
        raw.ebx = 0xb0b0b0b0;
        raw.esi = 0x51515151;
        raw.edi = 0xd1d1d1d1;
        let stack = Section::new();
        stack.start().set_const(0x80000000);
        let stack = stack.D32(0x40005510).append_repeated(0, 1000);
        let base = stack.start().value().unwrap();
        let size = stack.size();
        let bytes = stack.get_contents().unwrap();
        let stack_memory = &MinidumpMemory {
            desc: Default::default(),
            base_address: base,
            size,
            bytes: &bytes,
            endian: scroll::LE,
        };
        let mut syms = HashMap::new();
        syms.insert("module1".to_string(), symbols.to_string());
        let symbolizer = Symbolizer::new(string_symbol_supplier(syms));
        let context = MinidumpContext {
            raw: MinidumpRawContext::X86(raw),
            valid: MinidumpContextValidity::All,
        };
        let mut stack = CallStack::with_context(context);
        walk_stack(0, (), &mut stack, Some(UnifiedMemory::Memory(stack_memory)), &modules, &system_info, &symbolizer).await;
        stack
    }

    fn reg(s: &CallStack, reg: &str) -> Option<u32> {
        let frame = &s.frames[1];
        match &frame.context.raw {
            MinidumpRawContext::X86(ctx) => ctx.get_register(reg, &frame.context.valid),
            _ => unreachable!(),
        }
    }

    #[tokio::test]
    async fn probe_x86_value_out_of_range() {
        // $ebx rule evaluates (64-bit wrapping) to 0xffff_ffff_ffff_ffff
        let symbols = [
            "FUNC 4000 1000 10 f\n",
            "STACK CFI INIT 4000 100 .cfa: $esp 4 + .ra: .cfa 4 - ^ $ebx: 0 1 - $esi: .undef\n",
            "FUNC 5000 1000 10 g\n",
            "STACK CFI INIT 5000 1000 .cfa: $esp .ra 0\n",
        ].concat();
        let s = unwind(&symbols).await;
        println!("frames {} trust {:?}", s.frames.len(), s.frames[1].trust);
        println!("x86 out of range: ebx = {:x?} (callee ebx b0b0b0b0), esi = {:x?}", reg(&s, "ebx"), reg(&s, "esi"));
    }

    #[tokio::test]
    async fn probe_x86_failed_stack_win_then_cfi() {
        // A STACK WIN record that fails (unknown token), then STACK CFI without rules for ebp/ebx/esi/edi
        let symbols = [
            "FUNC 4000 1000 10 f\n",
            "STACK WIN 4 4000 100 0 0 0 0 0 0 1 $eip bogus =\n",
            "STACK CFI INIT 4000 100 .cfa: $esp 4 + .ra: .cfa 4 - ^\n",
            "FUNC 5000 1000 10 g\n",
            "STACK CFI INIT 5000 1000 .cfa: $esp .ra 0\n",
        ].concat();
        let s = unwind(&symbols).await;
        println!("frames {} trust {:?}", s.frames.len(), s.frames[1].trust);
        println!("win-then-cfi: ebp = {:x?} ebx = {:x?} esi = {:x?} edi = {:x?}", reg(&s, "ebp"), reg(&s, "ebx"), reg(&s, "esi"), reg(&s, "edi"));
        let symbols = [
            "FUNC 4000 1000 10 f\n",
            "STACK CFI INIT 4000 100 .cfa: $esp 4 + .ra: .cfa 4 - ^\n",
            "FUNC 5000 1000 10 g\n",
            "STACK CFI INIT 5000 1000 .cfa: $esp .ra 0\n",
        ].concat();
        let s = unwind(&symbols).await;
        println!("cfi only:     ebp = {:x?} ebx = {:x?} esi = {:x?} edi = {:x?}", reg(&s, "ebp"), reg(&s, "ebx"), reg(&s, "esi"), reg(&s, "edi"));
    }
}
