//! C04 witness: an n64 MIPS thread whose callers are found by scanning. After the first scanned
//! frame the walker must go on with the 64-bit scan (8-byte slots), not fall into the o32 code.
use minidump::format::{ContextFlagsCpu, CONTEXT_MIPS};
use minidump::system_info::{Cpu, Os};
use minidump::{
    CpuContext, MinidumpContext, MinidumpContextValidity, MinidumpMemory, MinidumpModule,
    MinidumpModuleList, MinidumpRawContext, UnifiedMemory,
};
use minidump_unwind::{string_symbol_supplier, walk_stack, CallStack, FrameTrust, Symbolizer, SystemInfo};
use std::collections::HashMap;
use test_assembler::Section;

async fn walk(stack_start: u64, ra_slots: &[u64]) -> Vec<(FrameTrust, u64, u64)> {
    // frame k keeps `ra_slots[k]` 8-byte locals below the saved return address into frame k+1
    let mut stack = Section::new();
    stack.start().set_const(stack_start);
    let mut expect = vec![(FrameTrust::Context, 0x4000_1010u64, stack_start)];
    let mut sp = stack_start;
    for (k, &n) in ra_slots.iter().enumerate() {
        for w in 0..n {
            stack = stack.D64(0x0bad_0000_0000 + 0x100 * k as u64 + w);
        }
        let ra = if k % 2 == 0 { 0x5000_0400 + 0x40 * k as u64 } else { 0x4000_2000 + 0x40 * k as u64 };
        stack = stack.D64(ra);
        sp += 8 * n + 8;
        expect.push((FrameTrust::Scan, ra, sp));
    }
    for w in 0..8 {
        stack = stack.D64(0x0bad_f000_0000 + w);
    }
    let mut raw = CONTEXT_MIPS {
        context_flags: ContextFlagsCpu::CONTEXT_MIPS64.bits() | 0x7,
        ..CONTEXT_MIPS::default()
    };
    raw.set_register("pc", 0x4000_1010);
    raw.set_register("sp", stack_start);
    let context = MinidumpContext { raw: MinidumpRawContext::Mips(raw), valid: MinidumpContextValidity::All };
    let bytes = stack.get_contents().unwrap();
    let stack_memory = MinidumpMemory { desc: Default::default(), base_address: stack_start, size: bytes.len() as u64, bytes: &bytes, endian: scroll::LE };
    let system_info = SystemInfo { os: Os::Linux, os_version: None, os_build: None, cpu: Cpu::Mips64, cpu_info: None, cpu_microcode_version: None, cpu_count: 1 };
    let modules = MinidumpModuleList::from_modules(vec![
        MinidumpModule::new(0x4000_0000, 0x10000, "module1"),
        MinidumpModule::new(0x5000_0000, 0x10000, "module2"),
    ]);
    let symbolizer = Symbolizer::new(string_symbol_supplier(HashMap::new()));
    let mut call_stack = CallStack::with_context(context);
    walk_stack(0, (), &mut call_stack, Some(UnifiedMemory::Memory(&stack_memory)), &modules, &system_info, &symbolizer).await;
    let got: Vec<_> = call_stack.frames.iter().map(|f| {
        let MinidumpRawContext::Mips(ctx) = &f.context.raw else { panic!() };
        (f.trust, ctx.get_register_always("pc"), ctx.get_register_always("sp"))
    }).collect();
    assert_eq!(got, expect, "recovered call chain differs from the generated one");
    got
}

#[tokio::test]
async fn one_scanned_caller() {
    walk(0x7fff_0000, &[3]).await;
}
#[tokio::test]
async fn three_scanned_callers_low_stack() {
    walk(0x7fff_0000, &[3, 5, 2]).await;
}
#[tokio::test]
async fn three_scanned_callers_high_stack() {
    walk(0x7f_ffff_0000, &[3, 5, 2]).await;
}
