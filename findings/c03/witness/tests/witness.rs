//! Witness tests for arithmetic / index panics in rust-minidump.
//!
//! Every test here only asserts "the library call returns" (the property under
//! test is *never panics, overflow checks included*).  Each test panics inside
//! the library on the unmodified tree and passes once the matching `fix:`
//! commit is applied.

use std::collections::HashMap;

use minidump::format::{CONTEXT_AMD64, CONTEXT_X86};
use minidump::system_info::{Cpu, Os};
use minidump::{
    Minidump, MinidumpContext, MinidumpContextValidity, MinidumpMemory, MinidumpModule,
    MinidumpModuleList, MinidumpRawContext, UnifiedMemory,
};
use minidump_common::format::ProcessorArchitecture;
use minidump_processor::ProcessState;
use minidump_synth::{
    DumpSection, Exception, Memory, SynthMinidump, SystemInfo as SynthSystemInfo, Thread,
};
use minidump_unwind::{
    simple_symbol_supplier, string_symbol_supplier, walk_stack, CallStack, Symbolizer, SystemInfo,
};
use test_assembler::*;

const PLATFORM_WINDOWS_NT: u32 = 3;
const PLATFORM_LINUX: u32 = 0x8201;

fn sysinfo(os: Os, cpu: Cpu) -> SystemInfo {
    SystemInfo {
        os,
        os_version: None,
        os_build: None,
        cpu,
        cpu_info: None,
        cpu_microcode_version: None,
        cpu_count: 1,
    }
}

/// Walk an x86 Windows stack whose only module ("module1", 0x40000000..0x40010000) has the
/// given breakpad symbol text.
async fn walk_x86_windows(sym: &str, eip: u32, esp: u32, stack_base: u64, stack: &[u8]) -> CallStack {
    let mut symbols = HashMap::new();
    symbols.insert("module1".to_string(), sym.to_string());
    let modules = MinidumpModuleList::from_modules(vec![MinidumpModule::new(
        0x4000_0000,
        0x10000,
        "module1",
    )]);
    let raw = CONTEXT_X86 {
        eip,
        esp,
        ..Default::default()
    };
    let mem = MinidumpMemory {
        desc: Default::default(),
        base_address: stack_base,
        size: stack.len() as u64,
        bytes: stack,
        endian: scroll::LE,
    };
    let context = MinidumpContext {
        raw: MinidumpRawContext::X86(raw),
        valid: MinidumpContextValidity::All,
    };
    let symbolizer = Symbolizer::new(string_symbol_supplier(symbols));
    let mut cs = CallStack::with_context(context);
    walk_stack(
        0,
        (),
        &mut cs,
        Some(UnifiedMemory::Memory(&mem)),
        &modules,
        &sysinfo(Os::Windows, Cpu::X86),
        &symbolizer,
    )
    .await;
    cs
}

async fn process(dump: SynthMinidump) -> ProcessState {
    let dump = Minidump::read(dump.finish().unwrap()).unwrap();
    minidump_processor::process_minidump(&dump, &Symbolizer::new(simple_symbol_supplier(vec![])))
        .await
        .unwrap()
}

/// Like `minidump_synth::amd64_context`, but also lets the caller choose rbp.
fn amd64_context_with_rbp(rip: u64, rsp: u64, rbp: u64) -> Section {
    Section::with_endian(Endian::Little)
        .append_repeated(0, 8 * 6) // p[1-6]_home
        .D32(0x10001f) // context_flags: CONTEXT_AMD64_ALL
        .D32(0) // mx_csr
        .append_repeated(0, 2 * 6) // cs,ds,es,fs,gs,ss
        .D32(0) // eflags
        .append_repeated(0, 8 * 6) // dr0,1,2,3,6,7
        .append_repeated(0, 8 * 4) // rax,rcx,rdx,rbx
        .D64(rsp)
        .D64(rbp)
        .append_repeated(0, 8 * 10) // rsi-r15
        .D64(rip)
        .append_repeated(0, 512) // float_save
        .append_repeated(0, 16 * 26) // vector_register
        .append_repeated(0, 8 * 6) // trailing stuff
}

/// A synthetic amd64 dump whose exception context is `context` and which has one extra memory
/// region holding `code` at `code_base`.
fn amd64_crash_dump(
    platform_id: u32,
    context: Section,
    code_base: u64,
    code: &[u8],
    stack: Memory,
) -> SynthMinidump {
    let code = Memory::with_section(
        Section::with_endian(Endian::Little).append_bytes(code),
        code_base,
    );
    let thread = Thread::new(Endian::Little, 1, &stack, &context);
    let system_info = SynthSystemInfo::new(Endian::Little)
        .set_processor_architecture(ProcessorArchitecture::PROCESSOR_ARCHITECTURE_AMD64 as u16)
        .set_platform_id(platform_id);

    let context_label = context.file_offset();
    let context_size = context.file_size();
    let dump = SynthMinidump::with_endian(Endian::Little).add(context);

    let mut ex = Exception::new(Endian::Little);
    ex.thread_id = 1;
    ex.exception_record.exception_address = 0;
    // Point the exception context at the thread context: (size, offset).
    ex.thread_context = (
        context_size.value().unwrap() as u32,
        context_label.value().unwrap() as u32,
    );

    dump.add_thread(thread)
        .add_exception(ex)
        .add_system_info(system_info)
        .add_memory(code)
        .add_memory(stack)
}

// ---------------------------------------------------------------------------------------------
// A. breakpad-symbols walker.rs `win_frame_size`: u32 sum of STACK WIN sizes overflows.
// ---------------------------------------------------------------------------------------------

/// FPO record (STACK WIN 0): saved_register_size = 0xffffffff, local_size = 1.
#[tokio::test]
async fn a_win_frame_size_overflow_fpo() {
    let sym = "MODULE windows x86 000000000000000000000000000000000 module1\n\
               STACK WIN 0 100 100 0 0 0 ffffffff 1 0 0 1\n";
    let stack = vec![0u8; 64];
    let cs = walk_x86_windows(sym, 0x4000_0150, 0x8000_0000, 0x8000_0000, &stack).await;
    assert!(!cs.frames.is_empty());
}

/// FrameData record (STACK WIN 4): same sizes, trivial program string.
#[tokio::test]
async fn a_win_frame_size_overflow_framedata() {
    let sym = "MODULE windows x86 000000000000000000000000000000000 module1\n\
               STACK WIN 4 100 100 0 0 0 ffffffff 1 0 1 $eip $esp ^ = $esp $esp 4 + =\n";
    let stack = vec![0u8; 64];
    let cs = walk_x86_windows(sym, 0x4000_0150, 0x8000_0000, 0x8000_0000, &stack).await;
    assert!(!cs.frames.is_empty());
}

// ---------------------------------------------------------------------------------------------
// B. breakpad-symbols walker.rs `walk_with_stack_win_fpo`: `... - 8` underflows.
// ---------------------------------------------------------------------------------------------

/// FPO record with all sizes zero and allocates_base_pointer = 1, callee esp = 0 (the stack
/// memory region starts at address 0): ebp_address = 0 + 0 + 0 - 8.
#[tokio::test]
async fn b_fpo_ebp_address_underflow() {
    let sym = "MODULE windows x86 000000000000000000000000000000000 module1\n\
               STACK WIN 0 100 100 0 0 0 0 0 0 0 1\n";
    let stack = vec![0u8; 64];
    let cs = walk_x86_windows(sym, 0x4000_0150, 0, 0, &stack).await;
    assert!(!cs.frames.is_empty());
}

/// Same with esp = 4 and saved_register_size = 3 (sum 7 < 8).
#[tokio::test]
async fn b_fpo_ebp_address_underflow_sum_7() {
    let sym = "MODULE windows x86 000000000000000000000000000000000 module1\n\
               STACK WIN 0 100 100 0 0 0 3 0 0 0 1\n";
    let stack = vec![0u8; 64];
    let cs = walk_x86_windows(sym, 0x4000_0150, 4, 0, &stack).await;
    assert!(!cs.frames.is_empty());
}

// ---------------------------------------------------------------------------------------------
// C. minidump-unwind amd64.rs `get_caller_by_frame_pointer`: Windows scan offsets overflow.
// ---------------------------------------------------------------------------------------------

/// Stack memory [0xffff_ffff_ffff_ff00, 0xffff_ffff_ffff_fff8) (all zero), rbp =
/// 0xffff_ffff_ffff_ffe8 (below the `u64::MAX - 16` guard).  Offset 0 is rejected (caller_bp = 0),
/// offset 16 evaluates `last_bp + 16 + 8` = 2^64.
#[tokio::test]
async fn c_amd64_frame_pointer_scan_overflow_walk_stack() {
    let base = 0xffff_ffff_ffff_ff00u64;
    let stack = vec![0u8; 0xf8];
    let raw = CONTEXT_AMD64 {
        rip: 0x1000,
        rsp: base,
        rbp: 0xffff_ffff_ffff_ffe8,
        ..Default::default()
    };
    let mem = MinidumpMemory {
        desc: Default::default(),
        base_address: base,
        size: stack.len() as u64,
        bytes: &stack,
        endian: scroll::LE,
    };
    let context = MinidumpContext {
        raw: MinidumpRawContext::Amd64(raw),
        valid: MinidumpContextValidity::All,
    };
    let modules = MinidumpModuleList::new();
    let symbolizer = Symbolizer::new(string_symbol_supplier(HashMap::new()));
    let mut cs = CallStack::with_context(context);
    walk_stack(
        0,
        (),
        &mut cs,
        Some(UnifiedMemory::Memory(&mem)),
        &modules,
        &sysinfo(Os::Windows, Cpu::X86_64),
        &symbolizer,
    )
    .await;
    assert!(!cs.frames.is_empty());
}

/// The same input as a whole Windows/amd64 minidump run through `process_minidump`.
#[tokio::test]
async fn c_amd64_frame_pointer_scan_overflow_dump() {
    let base = 0xffff_ffff_ffff_ff00u64;
    let context = amd64_context_with_rbp(0x2000, base, 0xffff_ffff_ffff_ffe8);
    let stack = Memory::with_section(
        Section::with_endian(Endian::Little).append_repeated(0, 0xf8),
        base,
    );
    // nop
    let dump = amd64_crash_dump(PLATFORM_WINDOWS_NT, context, 0x2000, &[0x90], stack);
    let state = process(dump).await;
    assert_eq!(state.threads.len(), 1);
}

// ---------------------------------------------------------------------------------------------
// D. minidump-processor op_analysis.rs: `rsp - 8` for push/call with rsp < 8.
// ---------------------------------------------------------------------------------------------

/// Crashing instruction `push rax` (0x50) with rsp = 0.
#[tokio::test]
async fn d_op_analysis_push_rsp_underflow() {
    let context = minidump_synth::amd64_context(Endian::Little, 0x2000, 0);
    let stack = Memory::with_section(Section::with_endian(Endian::Little), 0x1000);
    let dump = amd64_crash_dump(PLATFORM_WINDOWS_NT, context, 0x2000, &[0x50], stack);
    let state = process(dump).await;
    let accesses = state
        .exception_info
        .expect("missing exception info")
        .memory_access_list
        .expect("no memory accesses");
    assert_eq!(accesses.accesses.len(), 1);
    // A push with rsp = 0 writes to 0 - 8 (mod 2^64).
    assert_eq!(accesses.accesses[0].address_info.address, 0u64.wrapping_sub(8));
}

/// Crashing instruction `call rax` (0xff 0xd0) with rsp = 7.
#[tokio::test]
async fn d_op_analysis_call_rsp_underflow() {
    let context = minidump_synth::amd64_context(Endian::Little, 0x2000, 7);
    let stack = Memory::with_section(Section::with_endian(Endian::Little), 0x1000);
    let dump = amd64_crash_dump(PLATFORM_WINDOWS_NT, context, 0x2000, &[0xff, 0xd0], stack);
    let state = process(dump).await;
    assert!(state.exception_info.is_some());
}

// ---------------------------------------------------------------------------------------------
// E. minidump-processor process_state.rs: /proc/<pid>/limits line with too few fields.
// ---------------------------------------------------------------------------------------------

fn minimal_x86_dump() -> SynthMinidump {
    let context = minidump_synth::x86_context(Endian::Little, 0xabcd1234, 0x1010);
    let stack = Memory::with_section(
        Section::with_endian(Endian::Little).append_repeated(0, 0x1000),
        0x1000,
    );
    let thread = Thread::new(Endian::Little, 0x1234, &stack, &context);
    let system_info = SynthSystemInfo::new(Endian::Little);
    SynthMinidump::with_endian(Endian::Little)
        .add_thread(thread)
        .add_system_info(system_info)
        .add(context)
        .add_memory(stack)
}

/// A limits stream whose second data line has a single field.
#[tokio::test]
async fn e_linux_proc_limits_short_line() {
    let input = b"Limit                     Soft Limit           Hard Limit           Units
Max cpu time              unlimited            unlimited            seconds
Max file size
Max open files            1048576              1048576              files
";
    let state = process(minimal_x86_dump().set_linux_proc_limits(input)).await;
    let limits = state.linux_proc_limits.expect("no limits");
    // Well-formed lines are still parsed.
    assert!(limits.limits.contains_key("Max cpu time"));
    assert!(limits.limits.contains_key("Max open files"));
    assert!(!limits.limits.contains_key("Max file size"));
}

/// A limits stream whose data line has only two fields (name + soft limit).
#[tokio::test]
async fn e_linux_proc_limits_two_fields() {
    let input = b"Limit  Soft Limit  Hard Limit  Units\nMax cpu time  unlimited\n";
    let state = process(minimal_x86_dump().set_linux_proc_limits(input)).await;
    assert!(state.linux_proc_limits.is_some());
}

// ---------------------------------------------------------------------------------------------
// F. minidump-processor processor.rs `check_for_guard_pages`: `range.end + 1` overflows.
// ---------------------------------------------------------------------------------------------

/// Linux dump whose maps stream has a permission-less mapping ending at 0xffff_ffff_ffff_ffff,
/// crashing instruction `mov al, [rsp]` with rsp inside that mapping.
#[tokio::test]
async fn f_guard_pages_region_ends_at_u64_max() {
    let context = minidump_synth::amd64_context(Endian::Little, 0x2000, 0xffff_ffff_ffff_f800);
    let stack = Memory::with_section(Section::with_endian(Endian::Little), 0x1000);
    let dump = amd64_crash_dump(PLATFORM_LINUX, context, 0x2000, &[0x8a, 0x04, 0x24], stack)
        .set_linux_maps(
            b"00002000-00002fff r-xp 00000000 00:00 0 \n\
              fffffffffffff000-ffffffffffffffff ---p 00000000 00:00 0 \n",
        );
    let state = process(dump).await;
    let accesses = state
        .exception_info
        .expect("missing exception info")
        .memory_access_list
        .expect("no memory accesses");
    assert_eq!(accesses.accesses.len(), 1);
    assert_eq!(accesses.accesses[0].address_info.address, 0xffff_ffff_ffff_f800);
    // Nothing accessible is adjacent to the mapping, so it is not a guard page.
    assert!(!accesses.accesses[0].address_info.is_likely_guard_page);
}

/// Same, but the mapping that ends at 0xffff_ffff_ffff_ffff is the only (hence first) one, so the
/// `other_range.end + 1` comparison overflows instead of `range.end + 1`.
#[tokio::test]
async fn f_guard_pages_only_region_ends_at_u64_max() {
    let context = minidump_synth::amd64_context(Endian::Little, 0x2000, 0xffff_ffff_ffff_f800);
    let stack = Memory::with_section(Section::with_endian(Endian::Little), 0x1000);
    let dump = amd64_crash_dump(PLATFORM_LINUX, context, 0x2000, &[0x8a, 0x04, 0x24], stack)
        .set_linux_maps(b"fffffffffffff000-ffffffffffffffff ---p 00000000 00:00 0 \n");
    let state = process(dump).await;
    let accesses = state
        .exception_info
        .expect("missing exception info")
        .memory_access_list
        .expect("no memory accesses");
    assert!(!accesses.accesses[0].address_info.is_likely_guard_page);
}

/// Sanity check that the fix keeps the heuristic working next to the top of the address space:
/// an accessible mapping directly below the permission-less top mapping makes it a guard page.
#[tokio::test]
async fn f_guard_pages_top_region_adjacent_to_accessible() {
    let context = minidump_synth::amd64_context(Endian::Little, 0x2000, 0xffff_ffff_ffff_f800);
    let stack = Memory::with_section(Section::with_endian(Endian::Little), 0x1000);
    let dump = amd64_crash_dump(PLATFORM_LINUX, context, 0x2000, &[0x8a, 0x04, 0x24], stack)
        .set_linux_maps(
            b"ffffffffffffe000-ffffffffffffefff rw-p 00000000 00:00 0 \n\
              fffffffffffff000-ffffffffffffffff ---p 00000000 00:00 0 \n",
        );
    let state = process(dump).await;
    let accesses = state
        .exception_info
        .expect("missing exception info")
        .memory_access_list
        .expect("no memory accesses");
    assert!(accesses.accesses[0].address_info.is_likely_guard_page);
}
