// witness crate: see tests/
