//! Side task: behaviours of the UNMODIFIED tree that contradict property C11.
//! Each test asserts the behaviour the property asks for, so a test that FAILS on the
//! unmodified tree confirms a pre-existing defect.

use breakpad_symbols::{FrameSymbolizer, SimpleModule, SymbolFile};

#[derive(Default, Debug)]
struct Frame {
    instruction: u64,
    function: Option<(String, u64)>,
    source: Option<(String, u32, u64)>,
    inlines: Vec<(String, Option<String>, Option<u32>)>,
}
impl FrameSymbolizer for Frame {
    fn get_instruction(&self) -> u64 {
        self.instruction
    }
    fn set_function(&mut self, name: &str, base: u64, _p: u32) {
        self.function = Some((name.to_string(), base));
    }
    fn set_source_file(&mut self, file: &str, line: u32, base: u64) {
        self.source = Some((file.to_string(), line, base));
    }
    fn add_inline_frame(&mut self, name: &str, file: Option<&str>, line: Option<u32>) {
        self.inlines.push((name.to_string(), file.map(str::to_string), line));
    }
}

fn look(sym: &SymbolFile, base: u64, instruction: u64) -> Frame {
    let module = SimpleModule { base_address: Some(base), ..SimpleModule::default() };
    let mut f = Frame { instruction, ..Frame::default() };
    sym.fill_symbol(&module, &mut f);
    f
}

/// A zero-size INLINE range that lies inside another inlinee of the same depth hides
/// that inlinee for every address after it.
#[test]
fn zero_size_inline_range_hides_covering_inlinee() {
    let sym = SymbolFile::from_bytes(
        b"MODULE Linux x86_64 000000000000000000000000000000000 demo
FILE 1 outer.c
FILE 2 a.h
INLINE_ORIGIN 0 inl_a()
INLINE_ORIGIN 1 inl_empty()
FUNC 1000 40 0 outer()
INLINE 0 10 1 0 1000 20
INLINE 0 11 1 1 1010 0
1000 20 5 2
1020 20 6 1
",
    )
    .unwrap();
    // before the empty range: fine
    let f = look(&sym, 0, 0x100f);
    assert_eq!(f.inlines.len(), 1, "{f:?}");
    // after the empty range, still inside inl_a() [0x1000, 0x1020)
    let f = look(&sym, 0, 0x1015);
    assert_eq!(f.source, Some(("outer.c".to_string(), 10, 0x1000)), "{f:?}");
    assert_eq!(f.inlines, vec![("inl_a()".to_string(), Some("a.h".to_string()), Some(5))], "{f:?}");
}

/// A FUNC whose last byte is the last byte of the address space is dropped.
#[test]
fn func_ending_at_top_of_address_space() {
    let sym = SymbolFile::from_bytes(
        b"MODULE Linux x86_64 000000000000000000000000000000000 demo
FILE 1 top.c
FUNC ffffffffffffff00 100 0 top()
ffffffffffffff00 100 7 1
",
    )
    .unwrap();
    let f = look(&sym, 0, 0xffff_ffff_ffff_ff80);
    assert_eq!(f.function, Some(("top()".to_string(), 0xffff_ffff_ffff_ff00)), "{f:?}");
    assert_eq!(f.source, Some(("top.c".to_string(), 7, 0xffff_ffff_ffff_ff00)), "{f:?}");
}

/// An inlinee whose range ends exactly at the top of the address space is never found
/// (its FUNC ends one byte earlier so that the FUNC itself is kept).
#[test]
fn inlinee_ending_at_top_of_address_space() {
    let sym = SymbolFile::from_bytes(
        b"MODULE Linux x86_64 000000000000000000000000000000000 demo
FILE 1 top.c
FILE 2 a.h
INLINE_ORIGIN 0 inl_a()
FUNC ffffffffffffff00 ff 0 top()
INLINE 0 9 1 0 ffffffffffffff80 80
ffffffffffffff00 80 7 1
ffffffffffffff80 80 8 2
",
    )
    .unwrap();
    let f = look(&sym, 0, 0xffff_ffff_ffff_ff90);
    assert_eq!(f.function, Some(("top()".to_string(), 0xffff_ffff_ffff_ff00)), "{f:?}");
    assert_eq!(f.source, Some(("top.c".to_string(), 9, 0xffff_ffff_ffff_ff80)), "{f:?}");
    assert_eq!(f.inlines.len(), 1, "{f:?}");
}
