//! C17 witness: relative lookup paths derived from module names must stay relative and `..`-free.
use breakpad_symbols::{binary_lookup, breakpad_sym_lookup, code_info_breakpad_sym_lookup, extra_debuginfo_lookup, FileLookup, SimpleModule};
use debugid::{CodeId, DebugId};
use std::path::{Component, Path};
use std::str::FromStr;

fn module(code_file: &str, debug_file: &str) -> SimpleModule {
    SimpleModule::from_basic_info(
        Some(debug_file.to_string()),
        Some(DebugId::from_str("abcd1234-abcd-1234-abcd-abcd12345678-a").unwrap()),
        Some(code_file.to_string()),
        Some(CodeId::from_str("5A9832E5287241C1838ED98914E9B7FF").unwrap()),
    )
}

fn assert_contained(what: &str, rel: &str) {
    let p = Path::new(rel);
    assert!(!rel.is_empty(), "{what}: empty relative path");
    assert!(!rel.starts_with('/') && !rel.starts_with('\\'), "{what}: `{rel}` starts with a separator");
    for c in p.components() {
        assert!(matches!(c, Component::Normal(_)), "{what}: `{rel}` has the component {c:?}");
    }
    for part in rel.split(['/', '\\']) {
        assert!(part != ".." && part != "." && !part.is_empty(), "{what}: `{rel}` has the component `{part}`");
    }
    // joining onto a root must stay under it
    let joined = Path::new("/cache/root").join(rel);
    assert!(joined.starts_with("/cache/root"), "{what}: {joined:?} left the root");
}

fn check(l: Option<FileLookup>, what: &str) {
    if let Some(l) = l {
        assert_contained(&format!("{what}.cache_rel"), &l.cache_rel);
        assert_contained(&format!("{what}.server_rel"), &l.server_rel);
    }
}

fn all(code_file: &str, debug_file: &str) {
    let m = module(code_file, debug_file);
    check(breakpad_sym_lookup(&m), "breakpad_sym_lookup");
    check(extra_debuginfo_lookup(&m), "extra_debuginfo_lookup");
    check(binary_lookup(&m), "binary_lookup");
    if let Some(p) = code_info_breakpad_sym_lookup(&m) {
        assert_contained("code_info_breakpad_sym_lookup", &p);
    }
}

#[test]
fn dotdot_debug_file() {
    all("c:\\windows\\foo.dll", "c:\\build\\..");
}
#[test]
fn dotdot_code_file() {
    all("/usr/lib/..", "foo.pdb");
}
#[test]
fn trailing_separator() {
    all("/usr/lib/", "c:\\build\\");
}
#[test]
fn empty_debug_file() {
    all("foo.dll", "");
}
#[test]
fn dot() {
    all("/a/.", "b\\.");
}
#[test]
fn ordinary_names_still_work() {
    let m = module("c:\\windows\\foo.dll", "c:\\build\\foo.pdb");
    let l = breakpad_sym_lookup(&m).expect("lookup");
    assert_eq!(l.cache_rel, "foo.pdb/ABCD1234ABCD1234ABCDABCD12345678a/foo.sym");
    assert!(binary_lookup(&m).is_some());
    assert!(extra_debuginfo_lookup(&m).is_some());
    assert!(code_info_breakpad_sym_lookup(&m).is_some());
}

#[test]
fn drive_relative_names() {
    // fixed by 65f0aa4: `C:foo.pdb` has no separator; the drive prefix must not start the relative path
    for (code, debug) in [("C:foo.dll", "C:foo.pdb"), ("/usr/lib/d:e:libx.so", "c:\\build\\D:x.pdb")] {
        let m = module(code, debug);
        for l in [breakpad_sym_lookup(&m), extra_debuginfo_lookup(&m), binary_lookup(&m)].into_iter().flatten() {
            for rel in [&l.cache_rel, &l.server_rel] {
                let b = rel.as_bytes();
                assert!(!(b.len() >= 2 && b[1] == b':' && b[0].is_ascii_alphabetic()), "`{rel}` starts with a drive prefix");
            }
        }
        if let Some(rel) = code_info_breakpad_sym_lookup(&m) {
            let b = rel.as_bytes();
            assert!(!(b.len() >= 2 && b[1] == b':' && b[0].is_ascii_alphabetic()), "`{rel}` starts with a drive prefix");
        }
    }
}
