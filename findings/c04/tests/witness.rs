//! C04 witness: a frame found by the frame-pointer technique must record its frame pointer under the
//! spelling the rest of the code looks for, so that it is forwarded as a callee-saved register into a
//! following CFI frame and shows up in the text report.
use minidump::format::CONTEXT_ARM64;
use minidump::system_info::{Cpu, Os};
use minidump::*;
use minidump_unwind::*;
use std::collections::HashMap;

#[tokio::test]
async fn arm64_frame_pointer_is_forwarded_and_printed() {
    let mut symbols = HashMap::new();
    symbols.insert("module2".to_string(),
        "MODULE Linux arm64 000000000000000000000000000000000 module2\nSTACK CFI INIT 0 10000 .cfa: sp 16 + .ra: .cfa -8 + ^\n".to_string());
    let modules = MinidumpModuleList::from_modules(vec![
        MinidumpModule::new(0x40000000, 0x10000, "module1"),
        MinidumpModule::new(0x50000000, 0x10000, "module2"),
    ]);
    let base = 0x80000000u64;
    let mut stack = vec![0u8; 128];
    stack[0x10..0x18].copy_from_slice(&(base + 0x40).to_le_bytes());
    stack[0x18..0x20].copy_from_slice(&0x50000200u64.to_le_bytes());
    stack[0x28..0x30].copy_from_slice(&0x40000300u64.to_le_bytes());
    let mut raw = CONTEXT_ARM64::default();
    raw.pc = 0x40000150; raw.sp = base; raw.iregs[29] = base + 0x10;
    let mem = MinidumpMemory { desc: Default::default(), base_address: base, size: 128, bytes: &stack, endian: scroll::LE };
    let context = MinidumpContext { raw: MinidumpRawContext::Arm64(raw), valid: MinidumpContextValidity::All };
    let symbolizer = Symbolizer::new(string_symbol_supplier(symbols));
    let si = SystemInfo { os: Os::Linux, os_version: None, os_build: None, cpu: Cpu::Arm64, cpu_info: None, cpu_microcode_version: None, cpu_count: 1 };
    let mut cs = CallStack::with_context(context);
    walk_stack(0, (), &mut cs, Some(UnifiedMemory::Memory(&mem)), &modules, &si, &symbolizer).await;
    assert!(cs.frames.len() >= 3, "expected context + frame-pointer + cfi frames, got {}", cs.frames.len());
    assert_eq!(cs.frames[1].trust, FrameTrust::FramePointer);
    assert_eq!(cs.frames[2].trust, FrameTrust::CallFrameInfo);
    let fp1 = cs.frames[1].context.get_register("fp");
    assert_eq!(fp1, Some(base + 0x40));
    // x29/fp is callee-saved and the CFI record has no rule for it: it must be forwarded.
    assert_eq!(cs.frames[2].context.get_register("fp"), fp1, "frame pointer not forwarded into the CFI frame");
    // and the text report of frame 1 lists it
    let mut out = Vec::new();
    cs.print(&mut out).unwrap();
    let text = String::from_utf8_lossy(&out);
    let frame1 = text.split("\n 1 ").nth(1).expect("frame 1 in report");
    let frame1 = frame1.split("\n 2 ").next().unwrap();
    assert!(frame1.contains(" fp = "), "frame 1 registers do not list fp:\n{frame1}");
}
