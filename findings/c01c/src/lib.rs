//! Demonstration crate for seed C01g; see `tests/`.
