//! Side finding (NOT the seeded change): on the UNMODIFIED tree the Crashpad info stream can make
//! a dump of n bytes retain Theta(n^3) bytes of heap, which is beyond the "at most quadratic in
//! the input size" bound of property C01.
//!
//! A module list of L links may point L times at the same MINIDUMP_MODULE_CRASHPAD_INFO, whose
//! `list_annotations` RVA list may point R times at the same UTF-8 string of S bytes.  Every
//! link materialises its own `Vec<String>` with R copies of the string: L * R * S bytes from
//! 12*L + 4*R + S bytes of input.
//!
//! Ignored by default because it documents a pre-existing defect; run with `-- --ignored`.

use minidump::{Minidump, MinidumpCrashpadInfo};

fn le32(v: &mut Vec<u8>, x: u32) {
    v.extend_from_slice(&x.to_le_bytes());
}

fn crashpad_bomb(links: u32, rvas: u32, string_len: u32) -> Vec<u8> {
    let mut v = Vec::new();
    // MINIDUMP_HEADER
    le32(&mut v, 0x504d444d); // signature
    le32(&mut v, 42899); // version
    le32(&mut v, 1); // stream_count
    le32(&mut v, 32); // stream_directory_rva
    le32(&mut v, 0); // checksum
    le32(&mut v, 0); // time_date_stamp
    v.extend_from_slice(&0u64.to_le_bytes()); // flags
    assert_eq!(v.len(), 32);

    let crashpad_info_rva = 32 + 12;
    let crashpad_info_size = 4 + 16 + 16 + 8 + 8;
    let module_list_rva = crashpad_info_rva + crashpad_info_size;
    let module_list_size = 4 + 12 * links;
    let module_info_rva = module_list_rva + module_list_size;
    let module_info_size = 4 + 8 + 8 + 8;
    let rva_list_rva = module_info_rva + module_info_size;
    let rva_list_size = 4 + 4 * rvas;
    let string_rva = rva_list_rva + rva_list_size;

    // MINIDUMP_DIRECTORY
    le32(&mut v, 0x43500001); // CrashpadInfoStream
    le32(&mut v, crashpad_info_size);
    le32(&mut v, crashpad_info_rva);

    // MINIDUMP_CRASHPAD_INFO
    le32(&mut v, 1); // version
    v.extend_from_slice(&[0; 32]); // report_id, client_id
    le32(&mut v, 0); // simple_annotations (empty)
    le32(&mut v, 0);
    le32(&mut v, module_list_size); // module_list
    le32(&mut v, module_list_rva);
    assert_eq!(v.len() as u32, module_list_rva);

    // MINIDUMP_MODULE_CRASHPAD_INFO_LIST: every link cites the same module info.
    le32(&mut v, links);
    for i in 0..links {
        le32(&mut v, i); // minidump_module_list_index
        le32(&mut v, module_info_size);
        le32(&mut v, module_info_rva);
    }
    assert_eq!(v.len() as u32, module_info_rva);

    // MINIDUMP_MODULE_CRASHPAD_INFO
    le32(&mut v, 1); // version
    le32(&mut v, rva_list_size); // list_annotations
    le32(&mut v, rva_list_rva);
    le32(&mut v, 0); // simple_annotations (empty)
    le32(&mut v, 0);
    le32(&mut v, 0); // annotation_objects (empty)
    le32(&mut v, 0);
    assert_eq!(v.len() as u32, rva_list_rva);

    // MinidumpRVAList: every entry cites the same string.
    le32(&mut v, rvas);
    for _ in 0..rvas {
        le32(&mut v, string_rva);
    }
    assert_eq!(v.len() as u32, string_rva);

    // MinidumpUTF8String
    le32(&mut v, string_len);
    v.extend(std::iter::repeat(b'a').take(string_len as usize));
    v.push(0);
    v
}

/// Returns (file size, bytes of string payload retained by the parsed stream).
fn measure(scale: u32) -> (usize, usize) {
    let bytes = crashpad_bomb(40 * scale, 120 * scale, 500 * scale);
    let n = bytes.len();
    let dump = Minidump::read(bytes).unwrap();
    let info = dump.get_stream::<MinidumpCrashpadInfo>().unwrap();
    let retained: usize = info
        .module_list
        .iter()
        .flat_map(|m| m.list_annotations.iter())
        .map(|s| s.len())
        .sum();
    (n, retained)
}

#[test]

fn crashpad_info_memory_is_at_most_quadratic_in_the_file_size() {
    let (n1, r1) = measure(1);
    let (n2, r2) = measure(2);
    let (n4, r4) = measure(4);
    eprintln!("file {n1} bytes -> {r1} bytes of annotation strings retained");
    eprintln!("file {n2} bytes -> {r2} bytes of annotation strings retained");
    eprintln!("file {n4} bytes -> {r4} bytes of annotation strings retained");
    // Quadratic growth would at most quadruple the retained bytes when the file doubles.
    let g12 = r2 as f64 / r1 as f64;
    let g24 = r4 as f64 / r2 as f64;
    let f12 = n2 as f64 / n1 as f64;
    let f24 = n4 as f64 / n2 as f64;
    assert!(
        g12 <= f12 * f12 * 1.05 && g24 <= f24 * f24 * 1.05,
        "retained memory grows by x{g12:.2} and x{g24:.2} when the file grows by x{f12:.2} and x{f24:.2}: cubic, not quadratic \
         ({n4}-byte file retains {r4} bytes = {:.1} * n^2)",
        r4 as f64 / (n4 as f64 * n4 as f64)
    );
}
