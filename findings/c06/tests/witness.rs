//! C06 witness: a register whose CFI rule fails must be unknown in the caller, whatever spelling
//! the rule used for it.
use minidump::format::CONTEXT_ARM64;
use minidump::system_info::{Cpu, Os};
use minidump::*;
use minidump_unwind::*;
use std::collections::HashMap;

async fn walk(rule: &str) -> CallStack {
    let mut symbols = HashMap::new();
    symbols.insert("module1".to_string(),
        format!("MODULE Linux arm64 000000000000000000000000000000000 module1\nSTACK CFI INIT 0 10000 .cfa: sp 16 + .ra: .cfa -8 + ^ {rule}\n"));
    let modules = MinidumpModuleList::from_modules(vec![MinidumpModule::new(0x40000000, 0x10000, "module1")]);
    let base = 0x80000000u64;
    let mut stack = vec![0u8; 64];
    stack[8..16].copy_from_slice(&0x40000200u64.to_le_bytes());
    let mut raw = CONTEXT_ARM64::default();
    raw.pc = 0x40000150; raw.sp = base; raw.iregs[29] = 0x5555; raw.iregs[19] = 0x1919;
    let mem = MinidumpMemory { desc: Default::default(), base_address: base, size: 64, bytes: &stack, endian: scroll::LE };
    let context = MinidumpContext { raw: MinidumpRawContext::Arm64(raw), valid: MinidumpContextValidity::All };
    let symbolizer = Symbolizer::new(string_symbol_supplier(symbols));
    let si = SystemInfo { os: Os::Linux, os_version: None, os_build: None, cpu: Cpu::Arm64, cpu_info: None, cpu_microcode_version: None, cpu_count: 1 };
    let mut cs = CallStack::with_context(context);
    walk_stack(0, (), &mut cs, Some(UnifiedMemory::Memory(&mem)), &modules, &si, &symbolizer).await;
    cs
}

#[tokio::test]
async fn failed_rule_clears_register_spelled_x29() {
    let cs = walk("x29: .undef").await;
    let f1 = cs.frames.get(1).expect("cfi frame");
    assert_eq!(f1.trust, FrameTrust::CallFrameInfo);
    // control: an untouched callee-saved register is forwarded
    assert_eq!(f1.context.get_register("x19"), Some(0x1919));
    assert_eq!(f1.context.get_register("fp"), None, "x29's rule failed, yet the caller frame claims a frame pointer");
}

#[tokio::test]
async fn failed_rule_clears_register_spelled_fp() {
    let cs = walk("fp: .undef").await;
    let f1 = cs.frames.get(1).expect("cfi frame");
    assert_eq!(f1.context.get_register("fp"), None);
    assert_eq!(f1.context.get_register("x29"), None);
}
