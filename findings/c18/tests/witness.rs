use minidump::format::{CONTEXT_SPARC, FLOATING_SAVE_AREA_SPARC};

fn blank() -> CONTEXT_SPARC {
    CONTEXT_SPARC { context_flags: 0, flag_pad: 0, g_r: [0; 32], ccr: 0, pc: 0, npc: 0, y: 0, asi: 0, fprs: 0,
        float_save: FLOATING_SAVE_AREA_SPARC { regs: [0; 32], filler: 0, fsr: 0 } }
}
use minidump::{CpuContext, MinidumpContextValidity};
use std::collections::HashSet;

/// write by alias, read back by alias and by canonical name, validity All
#[test]
fn sparc_alias_roundtrip_all_valid() {
    let mut ctx = blank();
    assert_eq!(ctx.set_register("o6", 0x1234), Some(()));
    assert_eq!(ctx.get_register("g_r14", &MinidumpContextValidity::All), Some(0x1234));
    // the alias that set_register just accepted must be readable too
    assert_eq!(ctx.get_register("o6", &MinidumpContextValidity::All), Some(0x1234));
    assert_eq!(ctx.memoize_register("o6"), Some("g_r14"));
}

/// validity sets are honoured through aliases
#[test]
fn sparc_alias_validity_set() {
    let mut ctx = blank();
    ctx.set_register("i7", 7).unwrap();
    let mut set = HashSet::new();
    set.insert("g_r31");
    let valid = MinidumpContextValidity::Some(set);
    assert_eq!(ctx.get_register("g_r31", &valid), Some(7));
    assert_eq!(ctx.get_register("i7", &valid), Some(7));
    assert_eq!(ctx.get_register("i6", &valid), None);
    assert_eq!(ctx.get_register("nonsense", &valid), None);
    assert_eq!(ctx.get_register("nonsense", &MinidumpContextValidity::All), None);
}
