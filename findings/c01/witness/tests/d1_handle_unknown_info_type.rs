//! Defect 1: `MinidumpHandleDescriptor::read_object_info` unwraps
//! `MINIDUMP_HANDLE_OBJECT_INFORMATION_TYPE::from_u32(raw.info_type)`.
//!
//! Input: a minidump whose only stream is a HandleDataStream holding ONE
//! MINIDUMP_HANDLE_DESCRIPTOR_2 (40 bytes) whose `object_info_rva` points at a
//! 12-byte MINIDUMP_HANDLE_OBJECT_INFORMATION { next_info_rva: 0, info_type: <unknown>,
//! size_of_info: 12 }.

use minidump::{Minidump, MinidumpHandleDataStream};
use minidump_common::format as md;
use minidump_synth::{SimpleStream, SynthMinidump};
use test_assembler::*;

fn dump_with_info_type(info_type: u32) -> Vec<u8> {
    // The object-information record lives outside the stream, like strings do.
    let info = Section::with_endian(Endian::Little);
    let info_rva = info.start();
    let info = info
        .D32(0u32) // next_info_rva: end of chain
        .D32(info_type) // info_type
        .D32(12u32); // size_of_info

    let stream = SimpleStream {
        stream_type: md::MINIDUMP_STREAM_TYPE::HandleDataStream as u32,
        section: Section::with_endian(Endian::Little)
            // MINIDUMP_HANDLE_DATA_STREAM header
            .D32(16u32) // size_of_header
            .D32(40u32) // size_of_descriptor == sizeof(MINIDUMP_HANDLE_DESCRIPTOR_2)
            .D32(1u32) // number_of_descriptors
            .D32(0u32) // reserved
            // MINIDUMP_HANDLE_DESCRIPTOR_2
            .D64(0x1234u64) // handle
            .D32(0u32) // type_name_rva
            .D32(0u32) // object_name_rva
            .D32(0u32) // attributes
            .D32(0u32) // granted_access
            .D32(0u32) // handle_count
            .D32(0u32) // pointer_count
            .D32(&info_rva) // object_info_rva
            .D32(0u32), // reserved0
    };

    SynthMinidump::with_endian(Endian::Little)
        .add_stream(stream)
        .add(info)
        .finish()
        .unwrap()
}

fn check(info_type: u32) {
    let bytes = dump_with_info_type(info_type);
    let dump = Minidump::read(bytes).expect("dump header/directory is well formed");
    // Unfixed: panics inside get_stream (Option::unwrap on None).
    let stream = dump
        .get_stream::<MinidumpHandleDataStream>()
        .expect("a handle stream with an unknown object-info type must still be readable");
    let handles: Vec<_> = stream.iter().collect();
    assert_eq!(handles.len(), 1);
    assert_eq!(handles[0].raw.handle(), Some(&0x1234u64));
    // The unknown record cannot be represented, so it is not reported.
    assert!(handles[0].object_infos.is_empty());
    // And printing works.
    let mut out = Vec::new();
    stream.print(&mut out).unwrap();
}

/// First value past the enum (MiniHandleObjectInformationTypeMax == 9).
#[test]
fn unknown_info_type_10() {
    check(10);
}

#[test]
fn unknown_info_type_garbage() {
    check(0xdead_beef);
}
