//! Defect 3: `MinidumpException::print` indexes
//! `exception_record.exception_information[i]` for `i in 0..number_parameters`.
//! The array has 15 (EXCEPTION_MAXIMUM_PARAMETERS) slots, `number_parameters` is
//! an unchecked u32 read from the file.
//!
//! Input: a synth dump with an x86 SystemInfo stream and an ExceptionStream whose
//! `exception_record.number_parameters` is 16 (resp. u32::MAX).

use minidump::{Minidump, MinidumpException};
use minidump_synth::{Exception, SynthMinidump, SystemInfo};
use test_assembler::Endian;

fn print_exception_with(number_parameters: u32) -> String {
    let mut exception = Exception::new(Endian::Little);
    exception.thread_id = 0x1234;
    exception.exception_record.number_parameters = number_parameters;
    for (i, slot) in exception
        .exception_record
        .exception_information
        .iter_mut()
        .enumerate()
    {
        *slot = 0xa0 + i as u64;
    }
    let bytes = SynthMinidump::with_endian(Endian::Little)
        .add_system_info(SystemInfo::new(Endian::Little))
        .add_exception(exception)
        .finish()
        .unwrap();

    let dump = Minidump::read(bytes).unwrap();
    let exc = dump
        .get_stream::<MinidumpException>()
        .expect("exception stream parses (number_parameters is not validated on read)");
    assert_eq!(exc.raw.exception_record.number_parameters, number_parameters);

    let mut out = Vec::new();
    // Unfixed: index out of bounds: the len is 15 but the index is 15
    exc.print(&mut out, None, None).unwrap();
    String::from_utf8(out).unwrap()
}

fn check_output(out: &str, number_parameters: u32) {
    // The raw count is still reported verbatim ...
    assert!(out.contains(&format!(
        "exception_record.number_parameters         = {number_parameters}"
    )));
    // ... all 15 real slots are printed ...
    assert!(out.contains("exception_record.exception_information[ 0] = 0xa0"));
    assert!(out.contains("exception_record.exception_information[14] = 0xae"));
    // ... and nothing past the array.
    assert!(!out.contains("exception_information[15]"));
    assert!(out.contains("thread_context.data_size"));
}

#[test]
fn number_parameters_16() {
    let out = print_exception_with(16);
    check_output(&out, 16);
}

#[test]
fn number_parameters_u32_max() {
    let out = print_exception_with(u32::MAX);
    check_output(&out, u32::MAX);
}
