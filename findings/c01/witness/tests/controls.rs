//! Controls: well-formed inputs next to the witnesses. These PASS on the unmodified
//! tree and must keep passing after the fixes (the fixes must not drop behaviour).

use minidump::{Minidump, MinidumpException, MinidumpHandleDataStream};
use minidump_common::format as md;
use minidump_synth::{Exception, SimpleStream, SynthMinidump, SystemInfo};
use test_assembler::*;

fn descriptor_stream(object_info_rva: &Label) -> SimpleStream {
    SimpleStream {
        stream_type: md::MINIDUMP_STREAM_TYPE::HandleDataStream as u32,
        section: Section::with_endian(Endian::Little)
            .D32(16u32)
            .D32(40u32)
            .D32(1u32)
            .D32(0u32)
            .D64(0x1234u64)
            .D32(0u32)
            .D32(0u32)
            .D32(0u32)
            .D32(0u32)
            .D32(0u32)
            .D32(0u32)
            .D32(object_info_rva)
            .D32(0u32),
    }
}

fn info_types(bytes: Vec<u8>) -> Vec<u32> {
    let dump = Minidump::read(bytes).unwrap();
    let stream = dump.get_stream::<MinidumpHandleDataStream>().unwrap();
    let handles: Vec<_> = stream.iter().collect();
    assert_eq!(handles.len(), 1);
    handles[0]
        .object_infos
        .iter()
        .map(|i| i.raw.info_type)
        .collect()
}

/// A -> B -> C -> end, laid out in file order.
#[test]
fn forward_chain_is_fully_reported() {
    let a = Section::with_endian(Endian::Little);
    let b = Section::with_endian(Endian::Little);
    let c = Section::with_endian(Endian::Little);
    let (a_rva, b_rva, c_rva) = (a.start(), b.start(), c.start());
    let a = a.D32(&b_rva).D32(1u32).D32(12u32);
    let b = b.D32(&c_rva).D32(2u32).D32(12u32);
    let c = c.D32(0u32).D32(9u32).D32(12u32); // 9 == ...TypeMax, the last known value
    let bytes = SynthMinidump::with_endian(Endian::Little)
        .add_stream(descriptor_stream(&a_rva))
        .add(a)
        .add(b)
        .add(c)
        .finish()
        .unwrap();
    assert_eq!(info_types(bytes), vec![1, 2, 9]);
}

/// A -> B -> C -> end, but laid out C, B, A (links go backwards in the file).
/// Nothing in the format forbids this, so a cycle guard should not reject it.
#[test]
fn backward_chain_is_fully_reported() {
    let a = Section::with_endian(Endian::Little);
    let b = Section::with_endian(Endian::Little);
    let c = Section::with_endian(Endian::Little);
    let (a_rva, b_rva, c_rva) = (a.start(), b.start(), c.start());
    let a = a.D32(&b_rva).D32(1u32).D32(12u32);
    let b = b.D32(&c_rva).D32(2u32).D32(12u32);
    let c = c.D32(0u32).D32(3u32).D32(12u32);
    let bytes = SynthMinidump::with_endian(Endian::Little)
        .add_stream(descriptor_stream(&a_rva))
        .add(c)
        .add(b)
        .add(a)
        .finish()
        .unwrap();
    assert_eq!(info_types(bytes), vec![1, 2, 3]);
}

#[test]
fn exception_with_three_parameters_prints_three() {
    let mut exception = Exception::new(Endian::Little);
    exception.exception_record.number_parameters = 3;
    exception.exception_record.exception_information[2] = 0xabc;
    let bytes = SynthMinidump::with_endian(Endian::Little)
        .add_system_info(SystemInfo::new(Endian::Little))
        .add_exception(exception)
        .finish()
        .unwrap();
    let dump = Minidump::read(bytes).unwrap();
    let exc = dump.get_stream::<MinidumpException>().unwrap();
    let mut out = Vec::new();
    exc.print(&mut out, None, None).unwrap();
    let out = String::from_utf8(out).unwrap();
    assert!(out.contains("exception_record.exception_information[ 2] = 0xabc"));
    assert!(!out.contains("exception_information[ 3]"));
    assert_eq!(out.matches("exception_information[").count(), 3);
}
