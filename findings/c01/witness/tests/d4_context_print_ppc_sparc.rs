//! Defect 4: `MinidumpContext::print` has `unimplemented!()` arms for
//! `MinidumpRawContext::{Ppc, Ppc64, Sparc}`, yet `MinidumpContext::read` happily
//! produces those variants from file bytes when the SystemInfo stream says
//! PROCESSOR_ARCHITECTURE_{PPC, PPC64, SPARC} and `context_flags` carries the
//! matching CPU bit.
//!
//! Input: a synth dump with SystemInfo{processor_architecture = PPC|PPC64|SPARC},
//! a ThreadListStream with one thread whose context is a zero-filled
//! CONTEXT_{PPC,PPC64,SPARC}-sized blob with only `context_flags` (+ a few marker
//! registers) set, and an ExceptionStream citing the same context blob.
//! The whole path is file bytes -> read -> print (what `minidump_dump` does).

use minidump::{
    Minidump, MinidumpException, MinidumpRawContext, MinidumpSystemInfo, MinidumpThreadList,
};
use minidump_common::format as md;
use minidump_synth::{DumpSection, Exception, Memory, SynthMinidump, SystemInfo, Thread};
use scroll::ctx::SizeWith;
use test_assembler::*;

struct Case {
    arch: md::ProcessorArchitecture,
    context: Section,
    header: &'static str,
    /// A register line we expect in the output (name, value fragment).
    marker: (&'static str, &'static str),
}

fn ppc() -> Case {
    let size = md::CONTEXT_PPC::size_with(&scroll::LE);
    let context = Section::with_endian(Endian::Little)
        .D32(0x2000_0001u32) // context_flags: CONTEXT_PPC | base
        .D32(0x1122_3344u32) // srr0
        .D32(0u32); // srr1
    let context = context.append_repeated(0, size - 12);
    Case {
        arch: md::ProcessorArchitecture::PROCESSOR_ARCHITECTURE_PPC,
        context,
        header: "CONTEXT_PPC\n",
        marker: ("srr0", "11223344"),
    }
}

fn ppc64() -> Case {
    let size = md::CONTEXT_PPC64::size_with(&scroll::LE);
    let context = Section::with_endian(Endian::Little)
        .D64(0x0100_0001u64) // context_flags: CONTEXT_PPC64 | base
        .D64(0x1122_3344_5566_7788u64) // srr0
        .D64(0u64); // srr1
    let context = context.append_repeated(0, size - 24);
    Case {
        arch: md::ProcessorArchitecture::PROCESSOR_ARCHITECTURE_PPC64,
        context,
        header: "CONTEXT_PPC64\n",
        marker: ("srr0", "1122334455667788"),
    }
}

fn sparc() -> Case {
    let size = md::CONTEXT_SPARC::size_with(&scroll::LE);
    let context = Section::with_endian(Endian::Little)
        .D32(0x1000_0001u32) // context_flags: CONTEXT_SPARC | base
        .D32(0u32) // flag_pad
        .append_repeated(0, 32 * 8) // g_r[32]
        .D64(0u64) // ccr
        .D64(0x1122_3344_5566_7788u64); // pc
    let context = context.append_repeated(0, size - (8 + 32 * 8 + 16));
    Case {
        arch: md::ProcessorArchitecture::PROCESSOR_ARCHITECTURE_SPARC,
        context,
        header: "CONTEXT_SPARC\n",
        marker: ("pc", "1122334455667788"),
    }
}

fn run(case: Case) {
    let Case {
        arch,
        context,
        header,
        marker,
    } = case;

    let stack = Memory::with_section(
        Section::with_endian(Endian::Little).append_repeated(0, 16),
        0x1000,
    );
    let thread = Thread::new(Endian::Little, 0x1234, &stack, &context);

    // Labels for the context blob's (size, file offset).
    let ctx_size = context.file_size();
    let ctx_rva = context.file_offset();

    let dump = SynthMinidump::with_endian(Endian::Little)
        .add_system_info(SystemInfo::new(Endian::Little).set_processor_architecture(arch as u16))
        .add_thread(thread)
        .add(context)
        .add_memory(stack);

    // synth's Exception takes plain integers for its thread_context location. The
    // context was appended right after the 32-byte header (offset 0 is a constant),
    // so both labels are already resolved here.
    let mut exception = Exception::new(Endian::Little);
    exception.thread_id = 0x1234;
    exception.thread_context = (
        ctx_size.value().expect("context size known after add()") as u32,
        ctx_rva.value().expect("context rva known after add()") as u32,
    );
    let bytes = dump.add_exception(exception).finish().unwrap();

    let dump = Minidump::read(bytes).unwrap();
    let sys = dump.get_stream::<MinidumpSystemInfo>().unwrap();

    // --- thread list path -------------------------------------------------
    let threads = dump.get_stream::<MinidumpThreadList>().unwrap();
    let thread = threads.get_thread(0x1234).expect("thread present");
    // Reachability: `MinidumpContext::read` accepts the bytes and yields the variant.
    let ctx = thread
        .context(&sys, None)
        .expect("context must be readable from bytes");
    match (&ctx.raw, arch) {
        (MinidumpRawContext::Ppc(_), md::ProcessorArchitecture::PROCESSOR_ARCHITECTURE_PPC)
        | (MinidumpRawContext::Ppc64(_), md::ProcessorArchitecture::PROCESSOR_ARCHITECTURE_PPC64)
        | (MinidumpRawContext::Sparc(_), md::ProcessorArchitecture::PROCESSOR_ARCHITECTURE_SPARC) => {}
        other => panic!("unexpected context variant: {other:?}"),
    }

    let mut out = Vec::new();
    // Unfixed: panics with "not implemented".
    threads
        .print(&mut out, None, Some(&sys), None, true)
        .unwrap();
    let out = String::from_utf8(out).unwrap();
    if std::env::var_os("WIT_SHOW").is_some() {
        eprintln!("{out}");
    }
    assert!(out.contains(header), "missing {header:?} in:\n{out}");
    assert!(!out.contains("(no context)"));
    let line = out
        .lines()
        .find(|l| l.trim_start().starts_with(marker.0) && l.contains('='))
        .unwrap_or_else(|| panic!("no line for register {} in:\n{out}", marker.0));
    assert!(line.contains(marker.1), "bad register line: {line:?}");

    // --- exception path ---------------------------------------------------
    let exc = dump.get_stream::<MinidumpException>().unwrap();
    assert!(exc.context(&sys, None).is_some());
    let mut out = Vec::new();
    exc.print(&mut out, Some(&sys), None).unwrap();
    let out = String::from_utf8(out).unwrap();
    assert!(out.contains(header), "missing {header:?} in:\n{out}");
}

#[test]
fn print_ppc_context_read_from_bytes() {
    run(ppc());
}

#[test]
fn print_ppc64_context_read_from_bytes() {
    run(ppc64());
}

#[test]
fn print_sparc_context_read_from_bytes() {
    run(sparc());
}
