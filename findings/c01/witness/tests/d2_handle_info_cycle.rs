//! Defect 2: the `while object_info_rva != 0` walk in
//! `TryFromCtx for MinidumpHandleDescriptor` follows `next_info_rva` with no cycle
//! guard. A record whose `next_info_rva` points back into the chain makes the walk
//! spin forever while pushing onto a Vec.
//!
//! Detection: the parse runs on a worker thread. A counting global allocator
//! tracks the bytes held by that worker only; once the worker would hold more than
//! `SOFT_CAP` it is frozen inside the allocator (so the runaway cannot eat the
//! machine) and a flag is raised; the test thread fails on that flag or on a
//! wall-clock timeout. Each test has its own guard, so the tests are independent.

use minidump::{Minidump, MinidumpHandleDataStream};
use minidump_common::format as md;
use minidump_synth::{SimpleStream, SynthMinidump};
use std::alloc::{GlobalAlloc, Layout, System};
use std::cell::Cell;
use std::sync::atomic::{AtomicBool, AtomicUsize, Ordering};
use std::sync::mpsc;
use std::time::{Duration, Instant};
use test_assembler::*;

const SOFT_CAP: usize = 64 << 20; // 64 MiB held by the worker; the input is < 200 bytes.

struct Guard {
    live: AtomicUsize,
    hit: AtomicBool,
}

thread_local! {
    // const-initialised and without a destructor: safe to touch from the allocator.
    static GUARD: Cell<Option<&'static Guard>> = const { Cell::new(None) };
}

fn current_guard() -> Option<&'static Guard> {
    GUARD.try_with(|g| g.get()).ok().flatten()
}

struct Capped;

impl Capped {
    /// Account for `grow` more bytes on the current (guarded) thread, freezing it if
    /// that would exceed the cap.
    fn charge(grow: usize) {
        if let Some(g) = current_guard() {
            if g.live.load(Ordering::Relaxed).saturating_add(grow) > SOFT_CAP {
                g.hit.store(true, Ordering::SeqCst);
                // Freeze the runaway thread; the test thread reports the failure and
                // the process exits when the test binary is done.
                loop {
                    std::thread::sleep(Duration::from_secs(3600));
                }
            }
            g.live.fetch_add(grow, Ordering::Relaxed);
        }
    }
    fn credit(shrink: usize) {
        if let Some(g) = current_guard() {
            let _ = g
                .live
                .fetch_update(Ordering::Relaxed, Ordering::Relaxed, |v| {
                    Some(v.saturating_sub(shrink))
                });
        }
    }
}

unsafe impl GlobalAlloc for Capped {
    unsafe fn alloc(&self, l: Layout) -> *mut u8 {
        Self::charge(l.size());
        System.alloc(l)
    }
    unsafe fn dealloc(&self, p: *mut u8, l: Layout) {
        Self::credit(l.size());
        System.dealloc(p, l)
    }
    unsafe fn realloc(&self, p: *mut u8, l: Layout, new_size: usize) -> *mut u8 {
        if new_size >= l.size() {
            Self::charge(new_size - l.size());
        } else {
            Self::credit(l.size() - new_size);
        }
        System.realloc(p, l, new_size)
    }
}

#[global_allocator]
static ALLOC: Capped = Capped;

fn descriptor_stream(object_info_rva: &Label) -> SimpleStream {
    SimpleStream {
        stream_type: md::MINIDUMP_STREAM_TYPE::HandleDataStream as u32,
        section: Section::with_endian(Endian::Little)
            .D32(16u32) // size_of_header
            .D32(40u32) // size_of_descriptor == sizeof(MINIDUMP_HANDLE_DESCRIPTOR_2)
            .D32(1u32) // number_of_descriptors
            .D32(0u32) // reserved
            .D64(0x1234u64) // handle
            .D32(0u32) // type_name_rva
            .D32(0u32) // object_name_rva
            .D32(0u32) // attributes
            .D32(0u32) // granted_access
            .D32(0u32) // handle_count
            .D32(0u32) // pointer_count
            .D32(object_info_rva) // object_info_rva
            .D32(0u32), // reserved0
    }
}

/// One record: { next_info_rva: <itself>, info_type: MiniThreadInformation1, size_of_info: 12 }.
fn self_loop_dump() -> Vec<u8> {
    let info = Section::with_endian(Endian::Little);
    let info_rva = info.start();
    let info = info.D32(&info_rva).D32(1u32).D32(12u32);
    SynthMinidump::with_endian(Endian::Little)
        .add_stream(descriptor_stream(&info_rva))
        .add(info)
        .finish()
        .unwrap()
}

/// Two records A -> B -> A.
fn two_cycle_dump() -> Vec<u8> {
    let a = Section::with_endian(Endian::Little);
    let b = Section::with_endian(Endian::Little);
    let a_rva = a.start();
    let b_rva = b.start();
    let a = a.D32(&b_rva).D32(1u32).D32(12u32);
    let b = b.D32(&a_rva).D32(2u32).D32(12u32);
    SynthMinidump::with_endian(Endian::Little)
        .add_stream(descriptor_stream(&a_rva))
        .add(a)
        .add(b)
        .finish()
        .unwrap()
}

/// Returns the number of object infos attached to the single handle.
fn parse_guarded(bytes: Vec<u8>) -> usize {
    let input_len = bytes.len();
    let guard: &'static Guard = Box::leak(Box::new(Guard {
        live: AtomicUsize::new(0),
        hit: AtomicBool::new(false),
    }));
    let (tx, rx) = mpsc::channel();
    std::thread::spawn(move || {
        GUARD.with(|g| g.set(Some(guard)));
        let dump = Minidump::read(bytes).expect("dump header/directory is well formed");
        let stream = dump
            .get_stream::<MinidumpHandleDataStream>()
            .expect("handle stream must be readable");
        let handles: Vec<_> = stream.iter().collect();
        assert_eq!(handles.len(), 1);
        let _ = tx.send(handles[0].object_infos.len());
    });

    let start = Instant::now();
    loop {
        match rx.recv_timeout(Duration::from_millis(5)) {
            Ok(n) => return n,
            Err(mpsc::RecvTimeoutError::Disconnected) => panic!("worker panicked"),
            Err(mpsc::RecvTimeoutError::Timeout) => {}
        }
        if guard.hit.load(Ordering::SeqCst) {
            panic!(
                "unbounded growth: parsing a {}-byte dump tried to hold more than {} bytes \
                 after {:?} (object-info chain walk does not terminate)",
                input_len,
                SOFT_CAP,
                start.elapsed()
            );
        }
        if start.elapsed() > Duration::from_secs(20) {
            panic!("hang: handle stream parse did not finish within 20s");
        }
    }
}

#[test]
fn self_referential_next_info_rva() {
    let bytes = self_loop_dump();
    assert!(bytes.len() < 200, "input is tiny: {} bytes", bytes.len());
    let n = parse_guarded(bytes);
    // The record is reported once; the walk stops when the RVA repeats.
    assert_eq!(n, 1);
}

#[test]
fn two_record_cycle() {
    let n = parse_guarded(two_cycle_dump());
    assert_eq!(n, 2);
}
