// witness crate: see tests/
