//! C13 witnesses: the same input processed repeatedly in one process must give identical output.
//! (Every HashMap gets a fresh RandomState, so repeated runs in one process sample hash orders.)
use minidump_unwind::{simple_symbol_supplier, string_symbol_supplier, Symbolizer};
use minidump::system_info::{Cpu, Os};
use minidump::*;
use minidump_unwind::*;
use std::collections::{BTreeSet, HashMap};

fn sysinfo(os: Os, cpu: Cpu) -> SystemInfo {
    SystemInfo { os, os_version: None, os_build: None, cpu, cpu_info: None, cpu_microcode_version: None, cpu_count: 1 }
}

#[tokio::test]
async fn proc_limits_json_is_stable() {
    use minidump_synth::*;
    use test_assembler::*;
    let input = b"
Limit                     Soft Limit           Hard Limit           Units     
Max cpu time              unlimited            unlimited            seconds   
Max file size             unlimited            unlimited            bytes     
Max data size             unlimited            unlimited            bytes     
Max stack size            8388608              unlimited            bytes     
Max core file size        0                    unlimited            bytes     
Max resident set          unlimited            unlimited            bytes     
Max processes             111064               111064               processes 
Max open files            1048576              1048576              files     
";
    let context = minidump_synth::x86_context(Endian::Little, 0xabcd1234, 0x1010);
    let stack = Memory::with_section(Section::with_endian(Endian::Little).append_repeated(0, 0x1000), 0x1000);
    let thread = Thread::new(Endian::Little, 0x1234, &stack, &context);
    let system_info = minidump_synth::SystemInfo::new(Endian::Little);
    let bytes = SynthMinidump::with_endian(Endian::Little).add_thread(thread).add_system_info(system_info).add(context).add_memory(stack)
        .set_linux_proc_limits(input).finish().unwrap();
    let mut outs = BTreeSet::new();
    for _ in 0..8 {
        let dump = Minidump::read(bytes.clone()).unwrap();
        let state = minidump_processor::process_minidump(&dump, &Symbolizer::new(simple_symbol_supplier(vec![]))).await.unwrap();
        let mut out = Vec::new();
        state.print_json(&mut out, false).unwrap();
        outs.insert(out);
    }
    assert_eq!(outs.len(), 1, "8 runs on identical bytes gave {} distinct JSON reports", outs.len());
}

#[tokio::test]
async fn cfi_alias_rules_are_stable() {
    use minidump::format::CONTEXT_ARM64;
    let mut seen = BTreeSet::new();
    for _ in 0..32 {
        let mut symbols = HashMap::new();
        symbols.insert("module1".to_string(),
            "MODULE Linux arm64 000000000000000000000000000000000 module1\nSTACK CFI INIT 0 10000 .cfa: sp 16 + .ra: .cfa -8 + ^ x29: 1 fp: 2\n".to_string());
        let modules = MinidumpModuleList::from_modules(vec![MinidumpModule::new(0x40000000, 0x10000, "module1")]);
        let mut raw = CONTEXT_ARM64::default();
        raw.pc = 0x40000150; raw.sp = 0x80000000;
        let mut stack = vec![0u8; 64];
        stack[8..16].copy_from_slice(&0x40000200u64.to_le_bytes());
        let mem = MinidumpMemory { desc: Default::default(), base_address: 0x80000000, size: 64, bytes: &stack, endian: scroll::LE };
        let context = MinidumpContext { raw: MinidumpRawContext::Arm64(raw), valid: MinidumpContextValidity::All };
        let symbolizer = Symbolizer::new(string_symbol_supplier(symbols));
        let mut cs = CallStack::with_context(context);
        walk_stack(0, (), &mut cs, Some(UnifiedMemory::Memory(&mem)), &modules, &sysinfo(Os::Linux, Cpu::Arm64), &symbolizer).await;
        let f1 = cs.frames.get(1).expect("CFI frame");
        seen.insert(f1.context.get_register("x29"));
    }
    assert_eq!(seen.len(), 1, "caller x29 over 32 identical walks took the values {:?}", seen);
}

#[tokio::test]
async fn evil_json_certs_are_stable() {
    let dir = std::env::temp_dir().join(format!("wit_c13_{}", std::process::id()));
    std::fs::create_dir_all(&dir).unwrap();
    let evil = dir.join("evil.json");
    // one module listed under eight certificates
    let certs: Vec<String> = (0..8).map(|i| format!("\\\"cert{}\\\": [\\\"test_app.exe\\\"]", i)).collect();
    std::fs::write(&evil, format!("{{ \"ModuleSignatureInfo\": \"{{ {} }}\" }}", certs.join(", "))).unwrap();
    let bytes = std::fs::read("/repo/testdata/test.dmp").unwrap();
    let mut outs = BTreeSet::new();
    for _ in 0..16 {
        let dump = Minidump::read(bytes.clone()).unwrap();
        let mut options = minidump_processor::ProcessorOptions::default();
        options.evil_json = Some(&evil);
        let state = minidump_processor::process_minidump_with_options(&dump, &Symbolizer::new(simple_symbol_supplier(vec![])), options).await.unwrap();
        let mut out = Vec::new();
        state.print_json(&mut out, false).unwrap();
        let v: serde_json::Value = serde_json::from_slice(&out).unwrap();
        let subj: Vec<String> = v["modules"].as_array().unwrap().iter().map(|m| m["cert_subject"].to_string()).collect();
        outs.insert(subj.join(","));
    }
    std::fs::remove_dir_all(&dir).ok();
    assert_eq!(outs.len(), 1, "16 runs with the same evil JSON gave cert subjects {:?}", outs);
}
