//! C01 witness: a tiny dump must never make the reader request a huge allocation.
//! HandleDataStream with size_of_descriptor = 0 and number_of_descriptors = 0xffff_ffff.
use minidump::*;
use minidump_synth::*;
use std::alloc::{GlobalAlloc, Layout, System};
use std::sync::atomic::{AtomicUsize, Ordering};
use test_assembler::*;

struct Watch;
static MAX_REQ: AtomicUsize = AtomicUsize::new(0);
unsafe impl GlobalAlloc for Watch {
    unsafe fn alloc(&self, l: Layout) -> *mut u8 {
        MAX_REQ.fetch_max(l.size(), Ordering::Relaxed);
        if l.size() > (1 << 30) {
            // refuse politely instead of letting the process die; Vec::with_capacity then aborts/panics
            return std::ptr::null_mut();
        }
        System.alloc(l)
    }
    unsafe fn dealloc(&self, p: *mut u8, l: Layout) {
        System.dealloc(p, l)
    }
}
#[global_allocator]
static A: Watch = Watch;

fn dump_with_handle_header(size_of_descriptor: u32, count: u32) -> Vec<u8> {
    let stream = SimpleStream {
        stream_type: 12, // HandleDataStream
        section: Section::with_endian(test_assembler::Endian::Little)
            .D32(16) // size_of_header
            .D32(size_of_descriptor)
            .D32(count)
            .D32(0), // reserved
    };
    SynthMinidump::with_endian(test_assembler::Endian::Little).add_stream(stream).finish().unwrap()
}

#[test]
fn zero_sized_descriptors_do_not_size_an_allocation() {
    let bytes = dump_with_handle_header(0, 0xffff_ffff);
    assert!(bytes.len() < 200);
    let before = MAX_REQ.load(Ordering::Relaxed);
    let dump = Minidump::read(bytes).unwrap();
    let r = std::panic::catch_unwind(std::panic::AssertUnwindSafe(|| dump.get_stream::<MinidumpHandleDataStream>().is_ok()));
    let peak = MAX_REQ.load(Ordering::Relaxed).max(before);
    assert!(peak < (64 << 20), "a {}-byte dump made the reader request an allocation of {} bytes", 124, peak);
    assert!(matches!(r, Ok(false)), "expected a read error, got {:?}", r);
}
