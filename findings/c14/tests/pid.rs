//! C14 witness (known finding C14.7|pid-default): a Linux status stream without a usable `Pid` line
//! makes the process state report process id 0, as if the dump said so.
use minidump::Minidump;
use minidump_processor::ProcessState;
use minidump_synth::*;
use minidump_unwind::{simple_symbol_supplier, Symbolizer};
use test_assembler::*;

fn minimal_minidump() -> SynthMinidump {
    let context = minidump_synth::x86_context(Endian::Little, 0xabcd1234, 0x1010);
    let stack = Memory::with_section(Section::with_endian(Endian::Little).append_repeated(0, 0x1000), 0x1000);
    let thread = Thread::new(Endian::Little, 0x1234, &stack, &context);
    let system_info = SystemInfo::new(Endian::Little);
    SynthMinidump::with_endian(Endian::Little).add_thread(thread).add_system_info(system_info).add(context).add_memory(stack)
}

async fn read_synth_dump(dump: SynthMinidump) -> ProcessState {
    let dump = Minidump::read(dump.finish().unwrap()).unwrap();
    minidump_processor::process_minidump(&dump, &Symbolizer::new(simple_symbol_supplier(vec![]))).await.unwrap()
}

#[tokio::test]
async fn status_stream_with_pid() {
    let state = read_synth_dump(minimal_minidump().set_linux_proc_status(b"Name:\tfoo\nPid:\t3747\n")).await;
    assert_eq!(state.process_id, Some(3747));
}

#[tokio::test]
async fn status_stream_without_pid_line() {
    for input in [&b"Name:\tfoo\nPPid:\t12\n"[..], &b""[..], &b"Pid:\t4294967296\n"[..]] {
        let state = read_synth_dump(minimal_minidump().set_linux_proc_status(input)).await;
        assert_eq!(state.process_id, None, "status stream {:?} carries no process id", String::from_utf8_lossy(input));
    }
}
