// demonstration lives in tests/
