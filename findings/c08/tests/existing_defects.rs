//! Probes for behaviour of the UNMODIFIED tree (side task). All d so that
//! the demonstration proper (tests/memory_info_lookup.rs) is unaffected.
//! Run with: cargo test --offline --test existing_defects -- --ignored

use minidump::{
    Minidump, MinidumpLinuxMaps, MinidumpMemoryInfoList, MinidumpUnloadedModuleList,
};
use minidump_synth::{DumpString, MemoryInfo, SynthMinidump, UnloadedModule};
use test_assembler::Endian;

/// Two back-to-back /proc/pid/maps lines (the normal case on Linux): the end address of
/// a maps line is exclusive, the code treats it as inclusive, so the second mapping
/// "overlaps" the first at one address and is dropped from the lookup table.
#[test]

fn linux_maps_adjacent_mappings() {
    let input = b"1000-2000 r-xp 00000000 00:00 0 /a\n2000-3000 rw-p 00000000 00:00 0 /b\n";
    let dump = SynthMinidump::with_endian(Endian::Little).set_linux_maps(input);
    let dump = Minidump::read(dump.finish().unwrap()).unwrap();
    let maps = dump.get_stream::<MinidumpLinuxMaps>().unwrap();
    assert_eq!(maps.iter().count(), 2);
    let hit = maps.memory_info_at_address(0x2800);
    assert!(hit.is_some(), "second of two adjacent mappings is not found at 0x2800");
    assert_eq!(hit.unwrap().map.address.0, 0x2000);
}

/// An entry whose last byte is the last byte of the address space (base + size == 2^64)
/// does not overflow, but is dropped.
#[test]

fn memory_info_ending_at_top_of_address_space() {
    let info = MemoryInfo::new(
        Endian::Little,
        0xffff_ffff_ffff_f000,
        0xffff_ffff_ffff_f000,
        4,
        0x1000,
        0x1000,
        4,
        0x20000,
    );
    let dump = SynthMinidump::with_endian(Endian::Little).add_memory_info(info);
    let dump = Minidump::read(dump.finish().unwrap()).unwrap();
    let list = dump.get_stream::<MinidumpMemoryInfoList>().unwrap();
    assert!(
        list.memory_info_at_address(0xffff_ffff_ffff_f800).is_some(),
        "region 0xfffffffffffff000 + 0x1000 not found at 0xfffffffffffff800"
    );
}

/// One empty entry makes the whole unloaded-module table fail to build.
#[test]

fn unloaded_module_list_with_empty_entry() {
    let name = DumpString::new("a.dll", Endian::Little);
    let good = UnloadedModule::new(Endian::Little, 0x1000, 0x1000, &name, 1, 2);
    let empty = UnloadedModule::new(Endian::Little, 0x8000, 0, &name, 1, 2);
    let dump = SynthMinidump::with_endian(Endian::Little)
        .add_unloaded_module(good)
        .add_unloaded_module(empty)
        .add(name);
    let dump = Minidump::read(dump.finish().unwrap()).unwrap();
    let list = dump.get_stream::<MinidumpUnloadedModuleList>();
    assert!(list.is_ok(), "building the table failed: {:?}", list.err());
    assert_eq!(list.unwrap().modules_at_address(0x1800).count(), 1);
}
