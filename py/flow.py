"""G2 LOOP (termination shape) and G3 ALLOC (allocation-size provenance)."""
import json, os, re
from mirq import *

VERIF = os.path.dirname(os.path.dirname(os.path.abspath(__file__)))

# ------------------------------------------------------------------ G2
# std iterator types whose `next` is driven by a finite source.  A loop whose exit
# is controlled by Iterator::next on a type made *only* of these (plus closures,
# primitives and element types) terminates.
FINITE_ITER = set('''
std::slice::Iter std::slice::IterMut std::vec::IntoIter std::vec::Drain std::ops::Range std::ops::RangeInclusive
std::slice::Chunks std::slice::ChunksExact std::slice::ChunksMut std::slice::Windows std::slice::Split std::slice::RSplit
std::slice::SplitN std::str::Split std::str::RSplit std::str::SplitN std::str::RSplitN std::str::SplitWhitespace
std::str::SplitAsciiWhitespace std::str::Lines std::str::Bytes std::str::Chars std::str::CharIndices std::str::SplitTerminator
std::str::Matches std::str::MatchIndices std::str::SplitInclusive
std::collections::btree_map::Iter std::collections::btree_map::IterMut std::collections::btree_map::IntoIter
std::collections::btree_map::Keys std::collections::btree_map::Values std::collections::btree_map::Range
std::collections::btree_set::Iter std::collections::btree_set::IntoIter
std::collections::hash_map::Iter std::collections::hash_map::IterMut std::collections::hash_map::IntoIter
std::collections::hash_map::Keys std::collections::hash_map::Values std::collections::hash_map::Drain
std::collections::hash_set::Iter std::collections::hash_set::IntoIter std::collections::hash_set::Drain
std::collections::vec_deque::Iter std::collections::vec_deque::IntoIter
std::option::Iter std::option::IntoIter std::option::IterMut std::result::Iter std::result::IntoIter std::array::IntoIter
std::iter::Enumerate std::iter::Map std::iter::Filter std::iter::FilterMap std::iter::Zip std::iter::Rev std::iter::Take
std::iter::Skip std::iter::Chain std::iter::Flatten std::iter::FlatMap std::iter::Fuse std::iter::Cloned std::iter::Copied
std::iter::Peekable std::iter::TakeWhile std::iter::SkipWhile std::iter::StepBy std::iter::Inspect std::iter::MapWhile
std::iter::Once std::iter::Empty
range_map::RangeMap serde_json::map::Iter
'''.split())
INFINITE_ITER = set('std::ops::RangeFrom std::iter::Repeat std::iter::RepeatWith std::iter::FromFn std::iter::Successors std::iter::Cycle'.split())


def iter_type_finite(ty):
    """(ok, offending path) for the Self type of an Iterator::next call"""
    # adaptor stack = the outermost path and, recursively, its *first* generic argument
    # (the wrapped iterator).  Item types / closures in other positions are irrelevant.
    t = ty.strip()
    while t.startswith('&mut ') or t.startswith('&'):
        t = t[5:] if t.startswith('&mut ') else t[1:]
    if t.startswith('[') or t.startswith('std::option::Option<') or t.startswith('std::vec::Vec<') or t.startswith('std::result::Result<'):
        return True, None   # IntoIterator of a finite container (the U of a flat_map)
    m = re.match(r"([A-Za-z_][\w:]*)", t)
    if not m:
        return False, t
    head = m.group(1)
    if head in INFINITE_ITER:
        return False, head
    if head not in FINITE_ITER:
        return False, head
    rest = t[len(head):]
    if head in ('std::iter::Enumerate', 'std::iter::Map', 'std::iter::Filter', 'std::iter::FilterMap', 'std::iter::Rev',
                'std::iter::Skip', 'std::iter::Fuse', 'std::iter::Cloned', 'std::iter::Copied', 'std::iter::Peekable',
                'std::iter::TakeWhile', 'std::iter::SkipWhile', 'std::iter::StepBy', 'std::iter::Inspect', 'std::iter::MapWhile',
                'std::iter::Flatten'):
        inner = _first_generic(rest)
        if inner is None:
            return False, t
        return iter_type_finite(inner)
    if head == 'std::iter::FlatMap':
        g = _generics(rest)
        if len(g) < 2:
            return False, t
        ra = iter_type_finite(g[0])
        if not ra[0]:
            return ra
        return iter_type_finite(g[1])
    if head == 'std::iter::Take':
        return True, None   # take(n) is finite whatever it wraps
    if head in ('std::iter::Zip', 'std::iter::Chain'):
        a, b = _generics(rest)[:2] if len(_generics(rest)) >= 2 else (None, None)
        if a is None:
            return False, t
        ra, rb = iter_type_finite(a), iter_type_finite(b)
        if head == 'std::iter::Zip':
            return (True, None) if (ra[0] or rb[0]) else ra
        return ra if not ra[0] else rb
    return True, None


def _generics(rest):
    rest = rest.strip()
    if not rest.startswith('<'):
        return []
    depth = 0
    cur = ''
    out = []
    prev = ''
    for ch in rest:
        if ch == '>' and prev == '-':
            cur += ch
            prev = ch
            continue
        prev = ch
        if ch == '<':
            depth += 1
            if depth == 1:
                continue
        elif ch == '>':
            depth -= 1
            if depth == 0:
                out.append(cur.strip())
                break
        elif ch == ',' and depth == 1:
            out.append(cur.strip())
            cur = ''
            continue
        cur += ch
    return [x for x in out if x and not x.startswith("'")]


def _first_generic(rest):
    g = _generics(rest)
    return g[0] if g else None


class Loop:
    def __init__(self, fn, header, body):
        self.fn = fn
        self.header = header
        self.body = body
        self.cls = None
        self.why = ''
        self.exits = []

    @property
    def line(self):
        return self.fn.blocks[self.header]['t'].get('line', self.fn.line)


def _dead_end(fn, b):
    """the `otherwise` target of an exhaustive match: an empty block ending in `unreachable` is not a way out of a loop"""
    blk = fn.blocks[b]
    return blk['t']['k'] == 'unreachable' and not [s for s in blk['s'] if s['k'] == 'assign']


def classify_loops(fn):
    out = []
    for h, body in sorted(fn.loops().items()):
        lp = Loop(fn, h, body)
        # exits: (block, switch cond tree)
        exits = []
        nexts = []
        has_yield = False
        for b in body:
            t = fn.blocks[b]['t']
            if t['k'] == 'yield':
                has_yield = True
            if t['k'] == 'switch' and any(s not in body and not _dead_end(fn, s) for s in fn.succ[b]):
                exits.append((b, fn.operand_tree(t['x'])))
            if t['k'] == 'call':
                d = strip_generics(t.get('decl') or t.get('fn', ''))
                f = strip_generics(t.get('fn', ''))
                if d.endswith('Iterator::next') or re.search(r'::next$', f) and 'Iterator' in (t.get('decl') or f):
                    nexts.append((b, t))
        lp.exits = exits
        if has_yield and all(fn.blocks[b]['t'].get('ds') == 'Await' or True for b in ()):
            # an await polling loop: yield inside, exit on Poll::Ready
            only_await = all((fn.blocks[b]['t'].get('ds') == 'Await') for b in body if fn.blocks[b]['t']['k'] in ('yield', 'switch'))
            if only_await:
                lp.cls = 'L2'
                lp.why = '.await polling loop'
                out.append(lp)
                continue
        # L1: some exit switch is on discr(next(..)) of a finite iterator
        done = False
        for (eb, cond) in exits:
            c = cond
            if c[0] == 'discr':
                c = c[1]
            for (nb, nt) in nexts:
                ntree = fn.call_tree(nt)
                if c == ntree or contains(c, lambda x: x == ntree):
                    self_ty = (nt.get('targs') or ['?'])[0]
                    ok, bad = iter_type_finite(self_ty)
                    if ok:
                        lp.cls = 'L1'
                        lp.why = 'exit on None of Iterator::next for %s' % self_ty[:120]
                        done = True
                    else:
                        lp.why = 'iterator type not known finite: %s' % (bad,)
                    break
            if done:
                break
        if not done:
            lp.cls = 'L3'
        out.append(lp)
    return out


def loop_key(lp):
    conds = sorted(re.sub(r'\b_\d+\b', '_', show(c)) for _, c in lp.exits)
    return re.sub(r'\{(closure|coroutine)#\d+\}', r'{\1}', '%s|loop|%s' % (lp.fn.qual, ' ; '.join(conds)[:400]))


# ------------------------------------------------------------------ G3
ALLOC_API = re.compile(r'(^std::vec::Vec::(with_capacity|reserve|reserve_exact|try_reserve|try_reserve_exact|resize|resize_with)$'
                       r'|^std::string::String::(with_capacity|reserve|reserve_exact)$'
                       r'|^std::collections::(HashMap|HashSet|VecDeque|BinaryHeap)::(with_capacity|reserve|with_capacity_and_hasher)$'
                       r'|^std::vec::from_elem$|^core::slice::repeat$|^std::slice::repeat$|^core::str::repeat$|^std::str::repeat$'
                       r'|^circular::Buffer::(with_capacity|grow)$|^std::iter::repeat$|^std::iter::Iterator::take$)')


def alloc_sites(fn):
    out = []
    for b, t in fn.calls():
        n = fn.callee(t)
        d = fn.callee_decl(t)
        if not ALLOC_API.search(n) and not ALLOC_API.search(d):
            continue
        out.append((b, t, n if ALLOC_API.search(n) else d))
    return out


def entry_size_ok(fn, prog, crate, tree, site_bb=None):
    """is the per-entry size handed to ensure_count_in_bound a positive layout constant (or pinned to one)?"""
    import panics
    t = fn.expand(tree)
    while isinstance(t, tuple) and t[0] == 'cast':
        t = t[2]
    if t[0] == 'int' and t[1] > 0:
        return True, 'the constant %d' % t[1]
    if t[0] == 'call' and re.search(r'SizeWith(<.*>)?>?::size_with$|::size_with$', t[1]):
        return True, 'size_with of a fixed-layout type'
    # pinned by a dominating comparison against such a constant, or membership in a literal list of layout sizes
    if site_bb is not None:
        raw = tree
        for rel, g, s in panics.dominating_facts(fn, site_bb):
            if rel[0] == 'eq':
                for a, b in ((rel[1], rel[2]), (rel[2], rel[1])):
                    if panics.same_tree(fn, a, raw) or panics.same_tree(fn, a, t):
                        ok, why = entry_size_ok(fn, prog, crate, b, None)
                        if ok:
                            return True, 'a size equal to ' + why
            if rel[0] == 'true' and is_call(rel[1], 'contains') and len(rel[1]) == 4:
                lst = fn.expand(rel[1][2])
                needle = fn.expand(rel[1][3])
                if (panics.same_tree(fn, needle, raw) or panics.strip_casts_all(needle) == t) and all((x[0] == 'int' and x[1] > 0) for x in walk(lst) if isinstance(x, tuple) and x and x[0] == 'int'):
                    if any(isinstance(x, tuple) and x and x[0] == 'array' for x in walk(lst)):
                        return True, 'a member of a literal list of layout sizes'
    # ... or by a `matches!(size, A | B)` / `match size { A | B => .., _ => fail }`: a switch on the size itself whose edge to
    # the site carries positive constants only (bool flags threaded first)
    if site_bb is not None:
        import normal
        tf = normal.thread_flags(fn)
        try:
            fs = normal.facts(tf, site_bb)
        except Exception:
            fs = []
        for r in fs:
            if r[0] != 'switch':
                continue
            c0 = panics.strip_casts_all(tf.expand(r[1]))
            if not (panics.same_tree(fn, r[1], tree) or c0 == t or c0 == panics.strip_casts_all(fn.expand(tree))):
                continue
            v = r[2]
            vals = list(v[1:]) if isinstance(v, tuple) and v and v[0] == 'in' else [v] if isinstance(v, int) and not isinstance(v, bool) else None
            if vals and all(isinstance(x, int) and x > 0 for x in vals):
                return True, 'one of the positive constants %s (switch edge)' % vals
    return False, show(t)[:80]


def size_ok(fn, prog, crate, tree, depth=0, site_bb=None):
    """(ok, reason) for an allocation size expression tree"""
    t = fn.expand(tree)
    while isinstance(t, tuple) and t[0] == 'cast':
        t = t[2]
    if t[0] == 'int':
        return True, 'constant %d' % t[1]
    if t[0] == 'item':
        v = prog.const_int(t[1], crate)
        if v is not None:
            return True, 'constant %s = %d' % (t[1], v)
    if t[0] == 'const':
        return True, 'compile-time constant'
    if t[0] == 'len':
        return True, 'len() of an existing slice'
    if t[0] == 'call':
        nm = t[1]
        if re.search(r'(::len|::count|::capacity)$', nm):
            return True, '%s of an existing collection' % nm.split('::')[-1]
        if re.search(r'(cmp::min|::min)$', nm) and len(t) == 4:
            a = size_ok(fn, prog, crate, t[2], depth + 1, site_bb)
            b = size_ok(fn, prog, crate, t[3], depth + 1, site_bb)
            if a[0] or b[0]:
                return True, 'min(..) with a bounded side (%s)' % (a[1] if a[0] else b[1])
        if re.search(r'SizeWith<.*>>::size_with$|::size_with$', nm):
            return True, 'size_with of a fixed-layout type'
    # Ok payload of ensure_count_in_bound: (count, expected_size)
    if t[0] in ('field', 'vfield'):
        inner = t[1] if t[0] == 'field' else t[3]
        s = show(t)
        if 'ensure_count_in_bound' in s and re.match(r'^\(?(\(Continue\.0 \(trybranch \(minidump::minidump::ensure_count_in_bound|.*\.0$)', s):
            pass
    s = show(t)
    inner = None
    if re.match(r'^\(Continue\.0 \(trybranch \((minidump::minidump::ensure_count_in_bound) ', s):
        inner = t
    elif t[0] == 'field' and t[2] in ('0', '1') and show(t[1]).startswith('(Continue.0 (trybranch (minidump::minidump::ensure_count_in_bound '):
        inner = t[1]
    if inner is not None:
        # the validation only bounds the count if the per-entry size is a positive layout constant
        call = None
        for x in walk(inner):
            if isinstance(x, tuple) and x and x[0] == 'call' and x[1].endswith('ensure_count_in_bound'):
                call = x
                break
        if call is not None and len(call) >= 6:
            okz, whyz = entry_size_ok(fn, prog, crate, call[4], site_bb)
            if okz:
                return True, 'Ok payload of ensure_count_in_bound (count * %s + offset checked against the buffer length)' % whyz
            return False, 'ensure_count_in_bound is given a per-entry size that may be 0 (%s): any count passes' % whyz
        return False, 'ensure_count_in_bound call shape not recognised'
    if t[0] == 'bin' and t[1] in ('Mul', 'Add') and depth < 3:
        a = size_ok(fn, prog, crate, t[2], depth + 1)
        b = size_ok(fn, prog, crate, t[3], depth + 1)
        if a[0] and b[0]:
            return True, '%s of bounded sizes' % t[1]
    return False, show(t)
