"""Decision normalisation: one meaning, many spellings.

`a != X`, `!matches!(a, X)`, `match a { X => .., _ => .. }`, `let f = matches!(..); if f`, `if c { return }` / `if !c { .. }`
all denote the same decision but lower to different MIR: a call of PartialEq::ne and a bool switch, a discriminant switch
that assigns a bool flag which is switched on later, a discriminant switch, ...  Rules that state *which values of an
enum (or which constants) reach a place* must not depend on the spelling.  This module provides

* thread_flags(fn): a view of the function in which constant bool / integer flags are threaded (a block that assigns
  `flag = const` and jumps to a block that only switches on `flag` jumps to the switch's target instead) and goto-only
  blocks are skipped, so that the flag spellings collapse into the plain branch;
* facts(fn, b): dominating branch facts like panics.dominating_facts, including multi-valued switch edges
  (`A | B =>` arms) as ('switch', cond, ('in', v1, v2, ..));
* enum_allowed(adt, facts, is_subject): the variants of an enum that a list of facts still admits for a subject,
  whatever the spelling of each decision (PartialEq against a fieldless variant, discriminant switch edges);
* variants_reaching / values_reaching: for each variant of an enum in turn, resolve every decision on the subject and
  explore the CFG; which variants reach a block, and which definition of a (multiply assigned) local reaches it.

Nothing here executes the analysed program; constants are those rustc recorded in the MIR."""
import copy
import re
from mirq import Fn, relation, truth_of


def _bare(x):
    pl = (x.get('m') or x.get('c')) if isinstance(x, dict) else None
    return pl['l'] if pl and not pl.get('p') else None


def _const_int(rv):
    if rv.get('k') == 'use' and isinstance(rv.get('x'), dict):
        k = rv['x'].get('k')
        if isinstance(k, dict) and 'int' in k:
            return k['int']
    return None


def _retarget(t, old, new):
    if t['k'] == 'goto':
        if t['t'] == old:
            t['t'] = new
    elif t['k'] == 'switch':
        t['ts'] = [[v, new if tg == old else tg] for v, tg in t['ts']]
        if t['o'] == old:
            t['o'] = new
    else:
        for key in ('t', 'unwind', 'drop', 'resume'):
            if t.get(key) == old:
                t[key] = new


def thread_flags(fn):
    """see module doc; returns `fn` itself when nothing was threaded"""
    raw = copy.deepcopy(fn.raw)
    blocks = raw['blocks']
    trivial = ('live', 'dead', 'nop')

    def only_trivial(blk):
        return all(s.get('k') in trivial for s in blk['s'])
    # locals whose address is taken or that are assigned through a projection are not flags
    bad = set()
    defs = {}
    for b, blk in enumerate(blocks):
        for s in blk['s']:
            if s.get('k') != 'assign':
                continue
            rv = s['rv']
            if rv.get('k') == 'ref' and isinstance(rv.get('p'), dict):
                bad.add(rv['p'].get('l'))
            if s['lhs'].get('p'):
                bad.add(s['lhs']['l'])
            else:
                defs.setdefault(s['lhs']['l'], []).append(_const_int(rv))
        t = blk['t']
        if isinstance(t.get('dest'), dict):
            defs.setdefault(t['dest']['l'], []).append(None)
    flags = set(l for l, ds in defs.items() if l not in bad and l > raw.get('argc', 0) and ds and all(d is not None for d in ds))
    changed = 0
    for _ in range(6):
        step = 0
        # (1) skip goto-only blocks
        for b, blk in enumerate(blocks):
            t = blk['t']
            if t['k'] == 'goto' and only_trivial(blk) and t['t'] != b and not blk.get('cleanup'):
                tgt = t['t']
                for p, pb in enumerate(blocks):
                    if p != b and b != 0:
                        before = repr(pb['t'])
                        if pb['t']['k'] in ('goto', 'switch'):
                            _retarget(pb['t'], b, tgt)
                        if repr(pb['t']) != before:
                            step += 1
        # (2) thread constant flags: a block that ends in `goto S` where S switches on a local whose value is a constant
        # after the straight-line statements of the block and of S (constants, copies, `!`) jumps to the switch's target,
        # taking S's statements along
        def run_env(stmts, e):
            for s_ in stmts:
                if s_.get('k') != 'assign' or s_['lhs'].get('p'):
                    continue
                l_ = s_['lhs']['l']
                rv = s_['rv']
                k = _const_int(rv)
                if k is not None and l_ not in bad:
                    e[l_] = k
                    continue
                src = None
                if rv.get('k') == 'use':
                    src = (_bare(rv.get('x', {})), False)
                elif rv.get('k') in ('un', 'unary') and rv.get('op') == 'Not':
                    src = (_bare(rv.get('x', {})), True)
                if src and src[0] is not None and src[0] in e and l_ not in bad:
                    e[l_] = int(not e[src[0]]) if src[1] else e[src[0]]
                else:
                    e.pop(l_, None)
            return e
        def simple(blk):
            return not blk.get('cleanup') and all(s_.get('k') in trivial + ('assign',) for s_ in blk['s'])
        for p, pb in enumerate(blocks):
            pt = pb['t']
            if pt['k'] != 'goto' or pb.get('cleanup'):
                continue
            # follow gotos through blocks of plain assignments to a switch
            chain, cur, hops = [], pt['t'], 0
            while hops < 4 and cur != p and cur not in chain and simple(blocks[cur]) and blocks[cur]['t']['k'] == 'goto':
                chain.append(cur)
                cur = blocks[cur]['t']['t']
                hops += 1
            if cur == p or cur in chain or not simple(blocks[cur]) or blocks[cur]['t']['k'] != 'switch':
                continue
            st = blocks[cur]['t']
            l = _bare(st['x'])
            if l is None or l in bad or l <= raw.get('argc', 0):
                continue
            e = run_env(pb['s'], {})
            extra = []
            for cb in chain + [cur]:
                e = run_env(blocks[cb]['s'], e)
                extra += copy.deepcopy(blocks[cb]['s'])
            if l not in e:
                continue
            tg = [t2 for v, t2 in st['ts'] if v == e[l]]
            pb['s'] = pb['s'] + extra
            pb['t'] = {'k': 'goto', 't': tg[0] if tg else st['o'], 'line': pt.get('line'), 'threaded': True}
            step += 1
        changed += step
        if not step:
            break
    if not changed:
        return fn
    nf = Fn(fn.crate, raw)
    nf.threaded = changed
    return nf


def facts(fn, b):
    """relations that hold on entry to block b because of dominating branch edges (with multi-valued edges)"""
    out = []
    chain = fn.dom_chain(b)
    for i in range(len(chain) - 1):
        d = chain[i + 1]
        t = fn.blocks[d]['t']
        if t['k'] != 'switch':
            continue
        for s in set(fn.succ[d]):
            if not fn.dominates(s, b):
                continue
            if any(p != d and p in fn.reach and not fn.dominates(s, p) for p in fn.pred[s]):
                continue
            cond = fn.operand_tree(t['x'])
            vals = [v for v, tgt in t['ts'] if tgt == s]
            isbool = t.get('ty') == 'bool'
            allv = [v for v, _ in t['ts']]
            if s == t['o'] and not vals:
                if isbool and allv == [0]:
                    v = True
                elif isbool and allv == [1]:
                    v = False
                else:
                    v = ('not',) + tuple(allv)
            elif s != t['o'] and len(vals) == 1:
                v = bool(vals[0]) if isbool else vals[0]
            elif s != t['o'] and len(vals) > 1:
                v = ('in',) + tuple(vals)
            else:
                continue
            tr = truth_of(v)
            out.append(('switch', cond, v) if tr is None else relation(cond, tr))
    return out


def simplify(x):
    """field i of a tuple built in place is its i-th element; references are transparent"""
    x = _unref(x)
    if not isinstance(x, tuple) or not x:
        return x
    t2 = tuple([x[0]] + [simplify(y) if isinstance(y, tuple) else y for y in x[1:]])
    if t2[0] == 'field' and len(t2) == 3 and isinstance(t2[1], tuple) and t2[1] and t2[1][0] == 'tuple' and str(t2[2]).isdigit() and int(t2[2]) + 1 < len(t2[1]):
        return t2[1][int(t2[2]) + 1]
    return t2


def _unref(x):
    while isinstance(x, tuple) and x and x[0] in ('ref', 'deref', 'copy', 'move') and len(x) >= 2:
        x = x[-1]
    return x


def enum_allowed(fn, adt, fs, is_subject):
    """variants of `adt` that the facts admit for the subject"""
    byd = dict((v['discr'], v['name']) for v in adt['variants'])
    allowed = set(byd.values())
    n = 0
    for r in fs:
        if r[0] in ('eq', 'ne') and len(r) == 3:
            a, b = _unref(fn.expand(r[1])), _unref(fn.expand(r[2]))
            if is_subject(b):
                a, b = b, a
            if is_subject(a) and isinstance(b, tuple) and b[0] == 'adt' and len(b) == 2 and str(b[1]).startswith(adt['path'] + '::'):
                nm = str(b[1]).rsplit('::', 1)[1]
                allowed &= {nm} if r[0] == 'eq' else (set(byd.values()) - {nm})
                n += 1
        elif r[0] == 'switch':
            c = _unref(fn.expand(r[1]))
            if isinstance(c, tuple) and c[0] == 'discr' and is_subject(_unref(c[1])):
                v = r[2]
                if isinstance(v, tuple) and v and v[0] == 'not':
                    allowed -= set(byd.get(x) for x in v[1:])
                elif isinstance(v, tuple) and v and v[0] == 'in':
                    allowed &= set(byd.get(x) for x in v[1:])
                elif isinstance(v, int):
                    allowed &= {byd.get(v)}
                n += 1
    return allowed, n


class VariantExplorer:
    """Explore the CFG once per variant of an enum, resolving each decision on the subject for that variant and carrying
    (a) the constant value of flag locals and (b) the defining statement of the watched locals along every path."""

    def __init__(self, fn, adt, is_subject, watch=()):
        self.fn, self.adt, self.is_subject = fn, adt, is_subject
        self.watch = set(watch)
        self.resolved = set()
        fl = set(l for l in (_bare(blk['t']['x']) for blk in fn.blocks if blk['t']['k'] == 'switch') if l is not None)
        grew = True
        while grew:
            grew = False
            for blk in fn.blocks:
                for s in blk['s']:
                    if s.get('k') == 'assign' and not s['lhs'].get('p') and s['lhs']['l'] in fl:
                        sr = self._src(s['rv'])
                        if sr and sr[0] not in fl:
                            fl.add(sr[0])
                            grew = True
        self.flags = fl
        self.states = {}
        for v in adt['variants']:
            self.states[v['name']] = self._run(v)

    @staticmethod
    def _src(rv):
        if rv.get('k') == 'use':
            l = _bare(rv.get('x', {}))
            return (l, False) if l is not None else None
        if rv.get('k') in ('un', 'unary') and rv.get('op') == 'Not':
            l = _bare(rv.get('x', {}))
            return (l, True) if l is not None else None
        return None

    def decide(self, x, v):
        x = simplify(x)
        if not isinstance(x, tuple) or not x:
            return None
        if x[0] == 'discr' and self.is_subject(_unref(x[1])):
            return v['discr']
        if x[0] == 'call' and re.search(r'PartialEq(<[^>]*>)?>?::(eq|ne)$', str(x[1])) and len(x) >= 4:
            a, b = _unref(x[2]), _unref(x[3])
            if self.is_subject(b):
                a, b = b, a
            if self.is_subject(a) and isinstance(b, tuple) and b[0] == 'adt' and len(b) == 2 and str(b[1]).startswith(self.adt['path'] + '::'):
                same = str(b[1]).rsplit('::', 1)[1] == v['name']
                return int(same if str(x[1]).endswith('eq') else not same)
        if x[0] == 'un' and len(x) == 3 and x[1] == 'Not':
            r = self.decide(x[2], v)
            return None if r is None else int(not r)
        return None

    def _run(self, v):
        fn = self.fn
        seen, st = {}, [(0, frozenset())]
        while st:
            b, env = st.pop()
            if (b, env) in seen:
                continue
            blk = fn.blocks[b]
            e = dict(env)
            for i, s in enumerate(blk['s']):
                if s.get('k') != 'assign' or s['lhs'].get('p'):
                    continue
                l, rv = s['lhs']['l'], s['rv']
                if l in self.watch:
                    e[('def', l)] = (b, i)
                if l not in self.flags:
                    continue
                k = _const_int(rv)
                sr = self._src(rv)
                if k is not None:
                    e[l] = k
                elif sr and sr[0] in e:
                    e[l] = int(not e[sr[0]]) if sr[1] else e[sr[0]]
                else:
                    r = self.decide(fn.expand(fn.rvalue_tree(rv)), v) if rv.get('k') != 'use' else None
                    if r is not None:
                        e[l] = r
                    else:
                        e.pop(l, None)
            t = blk['t']
            if isinstance(t.get('dest'), dict) and not t['dest'].get('p'):
                e.pop(t['dest']['l'], None)
                if t['dest']['l'] in self.watch:
                    e[('def', t['dest']['l'])] = (b, 'term')
            seen[(b, env)] = e
            env2 = frozenset(e.items())
            succs = list(fn.succ[b])
            if t['k'] == 'switch':
                l = _bare(t['x'])
                r = e[l] if l in e else self.decide(fn.expand(fn.operand_tree(t['x'])), v)
                if r is not None:
                    self.resolved.add(b)
                    tg = [t2 for val, t2 in t['ts'] if val == r]
                    succs = tg or [t['o']]
            st.extend((s_, env2) for s_ in succs)
        return seen

    def reaching(self, targets):
        targets = set(targets)
        return set(name for name, seen in self.states.items() if any(b in targets for (b, _e) in seen))

    def defs_at(self, name, block, local):
        """the definition sites of a watched local that reach the terminator of `block` for the variant"""
        out = set()
        for (b, _e), e in self.states[name].items():
            if b == block:
                out.add(e.get(('def', local)))
        return out


def variants_reaching(fn, adt, is_subject, targets):
    ex = VariantExplorer(fn, adt, is_subject)
    return ex.reaching(targets), len(ex.resolved)


def multi_def_leaves(fn, tree, out=None):
    """locals mentioned in an (unexpanded) operand tree that have more than one definition"""
    out = set() if out is None else out
    if isinstance(tree, tuple):
        if tree and tree[0] == 'var' and len(tree) == 3 and isinstance(tree[2], int):
            if len(fn.defs.get(tree[2], [])) > 1:
                out.add(tree[2])
        for x in tree[1:]:
            multi_def_leaves(fn, x, out)
    return out


def value_at(ex, name, block, tree, depth=0):
    """the operand tree with every watched local replaced by the right-hand side of the definition that reaches `block`
    for variant `name` (None when two different definitions reach it on different paths)"""
    fn = ex.fn
    if not isinstance(tree, tuple) or depth > 6:
        return tree
    if tree and tree[0] == 'var' and len(tree) == 3 and tree[2] in ex.watch:
        ds = ex.defs_at(name, block, tree[2])
        if len(ds) != 1 or None in ds:
            return tree
        (b, i), = ds
        if i == 'term':
            return tree
        rv = fn.blocks[b]['s'][i]['rv']
        return value_at(ex, name, b, fn.expand(fn.rvalue_tree(rv)), depth + 1)
    t2 = tuple([tree[0]] + [value_at(ex, name, block, x, depth) if isinstance(x, tuple) else x for x in tree[1:]])
    if t2[0] == 'field' and len(t2) == 3 and isinstance(t2[1], tuple) and t2[1] and t2[1][0] == 'tuple' and str(t2[2]).isdigit() and int(t2[2]) + 1 < len(t2[1]):
        return t2[1][int(t2[2]) + 1]
    return t2
