"""harness: fact extraction (cached by a hash of /repo's working tree), known
findings, evidence files and the check entry point."""
import fcntl, hashlib, importlib, json, os, re, shutil, subprocess, sys, time

VERIF = os.path.dirname(os.path.dirname(os.path.abspath(__file__)))
REPO = os.environ.get('VERIF_REPO', '/repo')
CACHE = os.path.join(VERIF, '.cache')
MIRFACTS = os.path.join(VERIF, 'engines', 'mirfacts', 'target', 'release', 'mirfacts')
ASTQ = os.path.join(VERIF, 'engines', 'astq', 'target', 'release', 'astq')
MEMBERS = ['breakpad-symbols', 'minidump', 'minidump-common', 'minidump-processor',
           'minidump-stackwalk', 'minidump-synth', 'minidump-unwind']
CRATES = ['breakpad_symbols', 'minidump', 'minidump_common', 'minidump_processor',
          'minidump_stackwalk', 'minidump_synth', 'minidump_unwind']

# cargo configurations analysed.  `default` is the workspace build (feature
# unification gives every default feature); the others are cfg-gated twins.
CONFIGS = {
    'default': ['--workspace'],
    'symbols-nohttp': ['-p', 'breakpad-symbols', '--no-default-features'],
}


def repo_files(repo=REPO):
    out = []
    for root, dirs, files in os.walk(repo):
        rel = os.path.relpath(root, repo)
        parts = rel.split(os.sep)
        if parts[0] in ('target', '.git', 'testdata'):
            dirs[:] = []
            continue
        dirs[:] = sorted(d for d in dirs if d not in ('target', '.git', 'testdata', 'fuzz'))
        for f in sorted(files):
            if f.endswith(('.rs', '.toml', '.lock', '.md')):
                out.append(os.path.join(root, f))
    return out


def tree_key(repo=REPO):
    h = hashlib.sha256()
    for p in repo_files(repo):
        h.update(os.path.relpath(p, repo).encode())
        h.update(b'\0')
        with open(p, 'rb') as fh:
            h.update(hashlib.sha256(fh.read()).digest())
    for eng in (MIRFACTS, ASTQ):
        if os.path.exists(eng):
            with open(eng, 'rb') as fh:
                h.update(hashlib.sha256(fh.read()).digest())
    return h.hexdigest()[:24]


def nightly_sysroot():
    return subprocess.check_output(['rustc', '+nightly', '--print', 'sysroot'], text=True).strip()


def _prune_cache(keep):
    base = os.path.join(CACHE, 'facts')
    if not os.path.isdir(base):
        return
    ents = sorted((os.path.getmtime(os.path.join(base, d)), d) for d in os.listdir(base))
    # keep the 6 most recently used keys
    for _, d in ents[:-6]:
        if d != keep:
            shutil.rmtree(os.path.join(base, d), ignore_errors=True)


def ensure_facts(config='default', repo=REPO, log=None):
    """extract MIR facts for /repo's current working tree (cached by content hash).
    Returns the fact directory.  Fails closed when a fact file is missing."""
    if not os.path.exists(MIRFACTS):
        raise RuntimeError('engine not built: run ./setup.sh (missing %s)' % MIRFACTS)
    key = tree_key(repo)
    fdir = os.path.join(CACHE, 'facts', key, config)
    done = os.path.join(fdir, '.complete')
    if os.path.exists(done):
        try:
            os.utime(os.path.join(CACHE, 'facts', key))   # least-recently-used pruning
        except OSError:
            pass
        return fdir
    os.makedirs(CACHE, exist_ok=True)
    with open(os.path.join(CACHE, 'lock'), 'w') as lk:
        fcntl.flock(lk, fcntl.LOCK_EX)
        if os.path.exists(done):
            return fdir
        if os.path.isdir(fdir):
            shutil.rmtree(fdir)
        os.makedirs(fdir)
        tdir = os.path.join(CACHE, 'target', config)
        os.makedirs(tdir, exist_ok=True)
        # cargo's freshness cache would silently skip the wrapper: drop member fingerprints
        fp = os.path.join(tdir, 'debug', '.fingerprint')
        if os.path.isdir(fp):
            for d in os.listdir(fp):
                if any(d.startswith(m + '-') for m in MEMBERS):
                    shutil.rmtree(os.path.join(fp, d), ignore_errors=True)
        env = dict(os.environ)
        env['LD_LIBRARY_PATH'] = nightly_sysroot() + '/lib'
        env['RUSTFLAGS'] = '-Zmir-opt-level=0 -Awarnings'
        env['RUSTC_WORKSPACE_WRAPPER'] = MIRFACTS
        env['MIRFACTS_OUT'] = fdir
        env['CARGO_TARGET_DIR'] = tdir
        env['CARGO_NET_OFFLINE'] = 'true'
        env.pop('RUSTC_WRAPPER', None)
        cmd = ['cargo', '+nightly', 'check', '--offline'] + CONFIGS[config]
        t0 = time.time()
        p = subprocess.run(cmd, cwd=repo, env=env, stdout=subprocess.PIPE, stderr=subprocess.STDOUT, text=True)
        if p.returncode != 0:
            sys.stderr.write(p.stdout[-6000:])
            raise RuntimeError('fact extraction failed: cargo check exited %d (config %s)' % (p.returncode, config))
        want = CRATES if config == 'default' else []
        if config == 'symbols-nohttp':
            want = ['breakpad_symbols']
        have = os.listdir(fdir)
        for c in want:
            if not any(f.startswith(c + '.') and f.endswith('.json') for f in have):
                raise RuntimeError('fact file for crate %s missing after extraction (config %s)' % (c, config))
        with open(done, 'w') as fh:
            fh.write('%s %.1fs\n' % (' '.join(cmd), time.time() - t0))
        _prune_cache(key)
    return fdir


CLIPPY_LINTS = ['indexing_slicing', 'arithmetic_side_effects', 'unwrap_used', 'expect_used', 'panic', 'unimplemented',
                'unreachable', 'string_slice', 'iter_over_hash_type', 'await_holding_lock', 'todo']


def clippy_hits(repo=None):
    """opt-in clippy restriction lints over the workspace: an independent enumerator used to cross-check the
    completeness of the inventories (thorough tier).  Returns list of (file, line, lint)."""
    repo = repo or REPO
    key = tree_key(repo)
    out_p = os.path.join(CACHE, 'facts', key, 'clippy.json')
    if os.path.exists(out_p):
        with open(out_p) as fh:
            return [tuple(x) for x in json.load(fh)]
    tdir = os.path.join(CACHE, 'target', 'clippy')
    os.makedirs(tdir, exist_ok=True)
    fp = os.path.join(tdir, 'debug', '.fingerprint')
    if os.path.isdir(fp):
        for d in os.listdir(fp):
            if any(d.startswith(m + '-') for m in MEMBERS):
                shutil.rmtree(os.path.join(fp, d), ignore_errors=True)
    env = dict(os.environ)
    env['CARGO_TARGET_DIR'] = tdir
    env['CARGO_NET_OFFLINE'] = 'true'
    env.pop('RUSTC_WORKSPACE_WRAPPER', None)
    cmd = ['cargo', '+nightly', 'clippy', '--offline', '--workspace', '--message-format=json', '--'] + ['-Wclippy::' + l for l in CLIPPY_LINTS]
    p = subprocess.run(cmd, cwd=repo, env=env, stdout=subprocess.PIPE, stderr=subprocess.PIPE, text=True)
    hits = []
    for line in p.stdout.splitlines():
        if not line.startswith('{'):
            continue
        try:
            m = json.loads(line)
        except ValueError:
            continue
        if m.get('reason') != 'compiler-message':
            continue
        msg = m['message']
        code = (msg.get('code') or {}).get('code') or ''
        if not code.startswith('clippy::'):
            continue
        for sp in msg.get('spans', []):
            if sp.get('is_primary'):
                # the user-visible location: outermost expansion call site
                s2 = sp
                while s2.get('expansion') and s2['expansion'].get('span'):
                    s2 = s2['expansion']['span']
                hits.append((s2['file_name'], s2['line_start'], code[len('clippy::'):]))
    os.makedirs(os.path.dirname(out_p), exist_ok=True)
    with open(out_p, 'w') as fh:
        json.dump(hits, fh)
    return hits


def ensure_ast(repo=REPO):
    """source-level facts (E2) for every non-test .rs file of the workspace members"""
    if not os.path.exists(ASTQ):
        raise RuntimeError('engine not built: run ./setup.sh (missing %s)' % ASTQ)
    key = tree_key(repo)
    fdir = os.path.join(CACHE, 'facts', key)
    out = os.path.join(fdir, 'ast.json')
    if os.path.exists(out):
        return out
    os.makedirs(fdir, exist_ok=True)
    files = [p for p in repo_files(repo) if p.endswith('.rs') and '/src/' in p]
    tmp = out + '.%d' % os.getpid()
    p = subprocess.run([ASTQ, repo] + files, stdout=open(tmp, 'w'), stderr=subprocess.PIPE, text=True)
    if p.returncode != 0:
        sys.stderr.write(p.stderr[-4000:])
        raise RuntimeError('astq failed')
    os.replace(tmp, out)
    return out


# ------------------------------------------------------------------ known findings
def load_known():
    p = os.path.join(VERIF, 'known_findings.json')
    if not os.path.exists(p):
        return []
    with open(p) as fh:
        return json.load(fh)['findings']


class Result:
    def __init__(self, pid):
        self.pid = pid
        self.violations = []   # dicts: key, rule, file, line, fn, msg
        self.rules = {}        # rule id -> dict(instances, floor, discharged, note)
        self.samples = []
        self.assumptions = []
        self.extra = {}
        self.errors = []       # fail-closed conditions (missing anchors, floors)

    def violation(self, rule, key, fn=None, line=None, msg='', file=None):
        if any(v['rule'] == rule and v['key'] == key and v['msg'] == msg for v in self.violations):
            return   # the same finding reached along several explored paths
        self.violations.append({
            'rule': rule, 'key': key,
            'file': file or (fn.file if fn is not None else None),
            'line': line if line is not None else (fn.line if fn is not None else None),
            'fn': fn.qual if fn is not None else None, 'msg': msg})

    def rule(self, rid, instances, floor=None, discharged=None, note=''):
        r = self.rules.setdefault(rid, {'instances': 0, 'floor': floor, 'discharged': 0, 'note': note})
        r['instances'] += instances
        if discharged is not None:
            r['discharged'] += discharged
        if floor is not None:
            r['floor'] = floor
        if note:
            r['note'] = note

    def error(self, rid, msg):
        self.errors.append({'rule': rid, 'msg': msg})

    def sample(self, s):
        if len(self.samples) < 40:
            self.samples.append(s)

    def check_floors(self):
        for rid, r in self.rules.items():
            if r['floor'] is not None and r['instances'] < r['floor']:
                self.error(rid, 'rule %s matched %d instances, below the floor %d confirmed by hand: the anchor moved or the rule went vacuous' % (rid, r['instances'], r['floor']))


COLLECT_ONLY = False
EVIDENCE_DIR = os.environ.get('VERIF_EVIDENCE_DIR', os.path.join(VERIF, 'evidence'))


def seeded_replay(pid, kind='seeded'):
    """thorough tier: apply every seeded breaking change (kind='seeded') or every behaviour-preserving refactoring
    (kind='benign') recorded for this property to a scratch copy of /repo, re-extract facts there and re-run this
    property's quick check; report which breaking changes the check caught / on which refactorings it stayed silent.
    Never changes the verdict on /repo itself."""
    import tempfile
    out = []
    sdir = os.path.join(VERIF, kind)
    if not os.path.isdir(sdir):
        return out
    for name in sorted(os.listdir(sdir)):
        meta_p = os.path.join(sdir, name, 'meta.json')
        patch = os.path.join(sdir, name, 'patch.diff')
        if not (os.path.exists(meta_p) and os.path.exists(patch)):
            continue
        with open(meta_p) as fh:
            meta = json.load(fh)
        if meta.get('property') != pid:
            continue   # only the changes seeded against this very property (others are replayed by their own check)
        tmp = tempfile.mkdtemp(prefix='verif_seed_')
        try:
            dst = os.path.join(tmp, 'repo')
            subprocess.run(['rsync', '-a', '--exclude', 'target', '--exclude', '.git', REPO + '/', dst + '/'], check=True)
            ap = subprocess.run(['git', 'apply', '--unsafe-paths', '--directory', dst, patch], cwd=tmp, stdout=subprocess.PIPE, stderr=subprocess.STDOUT, text=True)
            if ap.returncode != 0:
                ap = subprocess.run(['patch', '-p1', '-s', '-d', dst, '-i', patch], stdout=subprocess.PIPE, stderr=subprocess.STDOUT, text=True)
            if ap.returncode != 0:
                out.append({('seed' if kind == 'seeded' else 'refactoring'): name, 'status': 'patch does not apply to the current tree (skipped)'})
                continue
            env = dict(os.environ)
            env['VERIF_REPO'] = dst
            env['VERIF_EVIDENCE_DIR'] = os.path.join(tmp, 'evidence')
            env['VERIF_TIER'] = 'quick'
            r = subprocess.run([sys.executable, os.path.join(VERIF, 'py', 'harness.py'), pid, '--tier', 'quick'], env=env, stdout=subprocess.PIPE, stderr=subprocess.STDOUT, text=True)
            fired = 'VIOLATION property=%s' % pid in r.stdout
            rules = sorted(set(re.findall(r'^  (C\d+[\w.]*) ', r.stdout, re.M)))
            if kind == 'seeded':
                out.append({'seed': name, 'status': 'caught' if fired else ('check failed to run' if r.returncode not in (0, 1) else 'MISSED'), 'rules': rules[:8]})
            else:
                out.append({'refactoring': name, 'status': 'ALARM' if fired else ('check failed to run' if r.returncode not in (0, 1) else 'silent'), 'rules': rules[:8]})
        finally:
            shutil.rmtree(tmp, ignore_errors=True)
            # the scratch tree's facts are of no further use
            _prune_cache(tree_key(REPO))
    return out


def finish(res, tier, t0, level='other', explanation='', trusted=None, distinct=None, seed=0, proof=False):
    """apply known findings, write evidence, print verdict lines, return exit code"""
    try:
        seed = int(os.environ.get('VERIF_SEED', seed) or 0)
    except ValueError:
        seed = 0
    if COLLECT_ONLY:
        # another check is consulting this one as the backing rule of a reviewed table entry
        res.extra.pop('_backings', None)
        res.check_floors()
        return res
    if res.extra.get('_backings'):
        from rules import backing
        backing.evaluate(res)
    res.check_floors()
    try:
        from rules import backing as _b
        _b.store(res.pid, _b.summarise(res))
    except Exception:
        pass
    known = [k for k in load_known() if k['property'] == res.pid and k.get('status') == 'known']
    known_keys = {k['key']: k for k in known}
    real = []
    knownhit = []
    for v in res.violations:
        if v['key'] in known_keys:
            knownhit.append((v, known_keys[v['key']]))
        else:
            real.append(v)
    # fail-closed errors are violations of the check's own preconditions
    for e in res.errors:
        real.append({'rule': e['rule'], 'key': 'precondition|' + e['rule'], 'file': None, 'line': None, 'fn': None,
                     'msg': e['msg']})
    obligations = sum(r['instances'] for r in res.rules.values())
    discharged = obligations - len(res.violations)
    cov = {
        'explanation': explanation,
        'evaluations': obligations,
        'distinct_nontrivial': distinct if distinct is not None else len(res.rules),
        'rule': 'one evaluation = one rule instance (a call site, a panic edge, a loop, a table row) found in the facts extracted from /repo on this run; non-trivial = needed an argument beyond constant folding',
        'samples': res.samples[:40] or ['(no instance sampled)'],
        'obligations': obligations,
        'discharged': max(discharged, 0),
        'rules': res.rules,
        'known_findings_hit': [k['key'] for _, k in knownhit],
        'exhaustive': True,
    }
    cov.update(res.extra)
    if tier == 'thorough' and not os.environ.get('VERIF_EVIDENCE_DIR'):
        st = seeded_replay(res.pid)
        cov['selftest_seeded_changes'] = st
        cov['selftest_summary'] = 'caught %d of %d seeded changes' % (sum(1 for x in st if x['status'] == 'caught'), sum(1 for x in st if x['status'] in ('caught', 'MISSED')))
        bt = seeded_replay(res.pid, 'benign')
        cov['selftest_benign_refactorings'] = bt
        cov['selftest_summary'] += '; silent on %d of %d behaviour-preserving refactorings' % (sum(1 for x in bt if x['status'] == 'silent'), sum(1 for x in bt if x['status'] in ('silent', 'ALARM')))
    if proof or level == 'proof':
        cov['checker_cmd'] = './check %s' % res.pid
        cov['trusted_base'] = trusted or []
    elif trusted:
        cov['trusted_base'] = trusted
    ev = {
        'property_id': res.pid, 'tier': tier, 'seed': seed, 'level': level, 'coverage': cov,
        'assumptions': res.assumptions, 'wall_s': round(time.time() - t0, 2), 'violations': len(real),
    }
    os.makedirs(EVIDENCE_DIR, exist_ok=True)
    with open(os.path.join(EVIDENCE_DIR, res.pid + '.json'), 'w') as fh:
        json.dump(ev, fh, indent=1, sort_keys=True)
        fh.write('\n')
    for v, k in knownhit:
        print('KNOWN-FINDING: property=%s %s [%s]' % (res.pid, k['what'], v['key']))
    if real:
        vp = os.path.join(EVIDENCE_DIR, res.pid + '.violations.json')
        with open(vp, 'w') as fh:
            json.dump(real, fh, indent=1)
        for v in real:
            print('  %s %s:%s in %s: %s  [key %s]' % (v['rule'], v['file'], v['line'], v['fn'], v['msg'], v['key']))
        print('VIOLATION property=%s replay=evidence/%s.violations.json' % (res.pid, res.pid))
        return 1
    print('OK property=%s rules=%d instances=%d known=%d wall=%.1fs' % (res.pid, len(res.rules), obligations, len(knownhit), time.time() - t0))
    return 0


def main(argv):
    import argparse
    ap = argparse.ArgumentParser()
    ap.add_argument('pid')
    ap.add_argument('--tier', default=os.environ.get('VERIF_TIER', 'quick'))
    ap.add_argument('--explain')
    a = ap.parse_args(argv)
    if a.explain:
        with open(a.explain) as fh:
            for v in json.load(fh):
                print(json.dumps(v, indent=1))
        return 0
    sys.path.insert(0, os.path.join(VERIF, 'py'))
    t0 = time.time()
    mod = importlib.import_module('rules.' + a.pid)
    return mod.run(a.tier, t0)


if __name__ == '__main__':
    sys.exit(main(sys.argv[1:]))
