"""G1 PANIC — panic-edge inventory with discharge rules (DESIGN.md §2 G1).

Every Assert terminator and every call to a panicking API in the functions in
scope is a *site*.  A site is discharged by one of D1..D6, by a reviewed table
entry (tables/panic_table.json), or is listed in known_findings.json;
otherwise it is a violation."""
import json, os, re
import slices
from mirq import *
from mirq import _is_ref_ty

VERIF = os.path.dirname(os.path.dirname(os.path.abspath(__file__)))

# ------------------------------------------------------------------ panicking API table
# name regex -> kind.  Matched against the generics-stripped resolved callee.
PANIC_API = [
    (r'^core::panicking::(panic|panic_fmt|panic_explicit|panic_nounwind|unreachable_display|panic_display|panic_str)$', 'panic'),
    (r'^core::panicking::assert_failed', 'panic'),
    (r'^std::rt::(begin_panic|panic_fmt|panic_display)$', 'panic'),
    (r'^std::option::Option::(unwrap|expect)$', 'unwrap'),
    (r'^std::result::Result::(unwrap|expect|unwrap_err|expect_err)$', 'unwrap'),
    (r'^<std::vec::Vec<T, A> as std::ops::Index(Mut)?<I>>::index(_mut)?$', 'index'),
    (r'^core::slice::index::index(_mut)?$', 'index'),
    (r'^core::str::traits::index(_mut)?$', 'index'),
    (r'^<std::string::String as std::ops::Index(Mut)?<I>>::index(_mut)?$', 'index'),
    (r'^std::array::index(_mut)?$', 'index'),
    (r'^<std::collections::(HashMap|BTreeMap)<.*> as std::ops::Index<.*>>::index$', 'index'),
    (r'^<std::collections::VecDeque<.*> as std::ops::Index(Mut)?<.*>>::index(_mut)?$', 'index'),
    (r'^serde_json::value::index::index(_mut)?$', 'index_json'),
    (r'^core::slice::(split_at|split_at_mut|copy_from_slice|clone_from_slice|chunks|chunks_mut|chunks_exact|chunks_exact_mut|rchunks|windows|swap|rotate_left|rotate_right|copy_within|select_nth_unstable.*|array_chunks|as_chunks)$', 'slice_api'),
    (r'^std::vec::Vec::(remove|insert|swap_remove|drain|split_off|truncate_front|extend_from_within)$', 'vec_api'),
    (r'^std::string::String::(remove|insert|insert_str|drain|split_off|truncate|replace_range)$', 'string_api'),
    (r'^core::str::(split_at|split_at_mut)$', 'string_api'),
    (r'^std::cell::RefCell::(borrow|borrow_mut)$', 'refcell'),
    (r'^<std::time::(SystemTime|Instant|Duration) as std::ops::(Add|Sub|AddAssign|SubAssign|Mul|Div).*>::', 'time_arith'),
    (r'^std::time::Duration::(from_secs_f32|from_secs_f64|mul_f32|mul_f64|div_f32|div_f64)$', 'time_arith'),
    (r'^std::char::methods::from_digit$|^core::char::from_digit$', 'from_digit'),
    (r'^std::iter::Iterator::step_by$', 'step_by'),
    (r'^core::num::(pow|abs|next_power_of_two|div_ceil|ilog|ilog2|ilog10|wrapping_div|wrapping_rem|overflowing_div|overflowing_rem|rem_euclid|div_euclid|wrapping_div_euclid|wrapping_rem_euclid|isqrt|next_multiple_of|strict_\w+)$', 'num_api'),
    (r'^range_map::Range::new$', 'range_new'),
    (r'^<.* as std::ops::(Add|Sub|Mul|Div|Rem|Neg|Shl|Shr|AddAssign|SubAssign|MulAssign|DivAssign|RemAssign|ShlAssign|ShrAssign)(<.*>)?>::\w+$', 'op_trait'),
    (r'^std::ops::(Add|Sub|Mul|Div|Rem|Neg|Shl|Shr|AddAssign|SubAssign|MulAssign|DivAssign|RemAssign|ShlAssign|ShrAssign)::\w+$', 'op_trait'),
    (r'^std::thread::LocalKey::with$', 'tls_with'),
    (r'^std::process::abort$', 'abort'),
    (r'^std::slice::(from_raw_parts|from_raw_parts_mut)$', 'unsafe'),
    (r'^tokio::runtime::Runtime::block_on$', 'block_on'),
    # procfs-core 0.17 slices the path column of a maps line at fixed byte offsets (`/SYSV` + 8 hex digits, `[stack:..]`) and
    # multiplies smaps values by 1024 unchecked: it panics on malformed lines (audit round, confirmed)
    (r'procfs_core::(FromRead>?::from_read|FromBufRead>?::from_buf_read)$', 'procfs'),
    (r'^std::iter::Iterator::(max_by_key|min_by_key)$', None),
]
PANIC_API = [(re.compile(p), k) for p, k in PANIC_API]

# std / core callees whose name suggests a panic but which are total
TOTAL_OK = re.compile(r'(unwrap_or|unwrap_or_default|unwrap_or_else|checked_|saturating_|wrapping_(add|sub|mul|neg|shl|shr|pow|abs)|overflowing_(add|sub|mul)|get|get_mut|first|last|split_first|split_last|is_power_of_two|checked_next_power_of_two)$')


def classify_callee(name):
    for rx, k in PANIC_API:
        if rx.search(name):
            return k
    return None


def anon_closures(text):
    """closure / coroutine indices shift whenever a closure is added earlier in the same function: never part of a key"""
    return re.sub(r'\{(closure|coroutine)#\d+\}', r'{\1}', text)


class Site:
    __slots__ = ('fn', 'bb', 'kind', 'trees', 'line', 'mac', 'term', 'ordinal', 'verdict', 'why')

    def __init__(self, fn, bb, kind, trees, term):
        self.fn = fn
        self.bb = bb
        self.kind = kind
        self.trees = trees
        self.term = term
        self.line = term.get('line', 0)
        self.mac = term.get('mac')
        self.ordinal = 0
        self.verdict = None
        self.why = ''

    def _trees(self):
        # compiler temporaries that could not be inlined carry a number: never part of a key
        return anon_closures(re.sub(r'\b_\d+\b', '_', ' '.join(show(t) for t in self.trees)))

    @property
    def key(self):
        return '%s|%s|%s|#%d' % (anon_closures(self.fn.qual), self.kind, self._trees(), self.ordinal)

    @property
    def ckey(self):
        """canonical table key: function, kind and a hash of the fully expanded, name-free operand trees"""
        return slices.canon_site_key(self.fn, self.kind, self.trees)

    @property
    def tkey(self):
        """table key: without ordinal (a table line covers all equal trees in the function)"""
        return '%s|%s|%s' % (anon_closures(self.fn.qual), self.kind, self._trees())


def inventory(fn):
    sites = []
    for b in sorted(fn.reach):
        t = fn.blocks[b]['t']
        if t['k'] == 'assert':
            ak = t['ak']
            if ak == 'overflow':
                kind = 'assert:overflow:' + t['op']
                trees = (fn.operand_tree(t['l']), fn.operand_tree(t['r']))
            elif ak == 'bounds':
                kind = 'assert:bounds'
                trees = (fn.operand_tree(t['idx']), fn.operand_tree(t['len']))
            elif ak in ('div_zero', 'rem_zero', 'overflow_neg'):
                kind = 'assert:' + ak
                trees = (fn.operand_tree(t['l']),)
            else:
                if ak == 'other' and ('Resumed' in t.get('what', '')):
                    continue
                kind = 'assert:' + ak
                trees = ()
            sites.append(Site(fn, b, kind, trees, t))
        elif t['k'] == 'call':
            name = fn.callee(t)
            k = classify_callee(name)
            if k is None:
                continue
            trees = tuple(fn.operand_tree(a) for a in t['args'])
            short = re.sub(r'<.*>', '', name).split('::')[-1]
            sites.append(Site(fn, b, 'call:%s:%s' % (k, short), trees, t))
    # ordinals among equal keys
    seen = {}
    for s in sites:
        k = s.tkey
        s.ordinal = seen.get(k, 0)
        seen[k] = s.ordinal + 1
    return sites


# ------------------------------------------------------------------ intervals (D2)
def ty_range(ty):
    return INT_RANGES.get(ty)


class Intervals:
    """upper/lower bounds that follow from a value's *type history* alone:
    widening casts, masks, shifts by constants, len(), constants.  Path-insensitive,
    no loop-carried reasoning (a variable with several definitions gets the union,
    a cyclic dependency gets its type range).  usize is assumed to be 64 bits."""

    def __init__(self, fn, prog, crate):
        self.fn = fn
        self.prog = prog
        self.crate = crate
        self.memo = {}

    def local(self, l, stack=()):
        if l in self.memo:
            return self.memo[l]
        fn = self.fn
        tr = ty_range(fn.local_ty(l))
        if tr is None:
            return None
        if l in stack or len(stack) > 24:
            return tr
        ds = fn.defs.get(l, [])
        if not ds or any(d['kind'] in ('arg', 'part') for d in ds) or (l in fn.mut_borrowed):
            self.memo[l] = tr
            return tr
        lo = hi = None
        for d in ds:
            if d['kind'] == 'assign':
                r = self.rvalue(d['rv'], stack + (l,))
            else:
                r = self.call(d['term'], stack + (l,))
            if r is None:
                r = tr
            lo = r[0] if lo is None else min(lo, r[0])
            hi = r[1] if hi is None else max(hi, r[1])
        r = (max(lo, tr[0]), min(hi, tr[1]))
        if r[0] > r[1]:
            r = tr
        if not stack:
            self.memo[l] = r
        return r

    def operand(self, o, stack=(), ty=None):
        if 'k' in o:
            c = o['k']
            if 'int' in c:
                return (c['int'], c['int'])
            if 'item' in c or 'static' in c:
                v = self.prog.const_int(c.get('item') or c.get('static'), self.crate)
                if v is not None:
                    return (v, v)
            return ty_range(c.get('ty', '')) or (ty_range(ty) if ty else None)
        p = o.get('c') or o.get('m')
        proj = [e for e in (p.get('p') or []) if e != '*']
        if not proj:
            if _is_ref_ty(self.fn.local_ty(p['l'])) or not (p.get('p') or []):
                r = self.local(p['l'], stack)
                if r is not None:
                    return r
                # reference to an integer: follow the single definition `&x`
                sd = self.fn.single_def(p['l'])
                if sd is not None and sd['kind'] == 'assign' and sd['rv']['k'] == 'ref':
                    return self.operand({'c': sd['rv']['p']}, stack + (p['l'],), ty)
        # loop variable of `for i in a..b`: (Some.0 (Range::next iter))
        if len(proj) == 2 and isinstance(proj[0], dict) and proj[0].get('dc') == 'Some' and isinstance(proj[1], dict) and proj[1].get('f') == 0:
            sd = self.fn.single_def(p['l'])
            if sd is not None and sd['kind'] == 'call' and re.search(r'iter::range::.*next$', strip_generics(sd['term'].get('fn', ''))):
                rg = self._range_of(sd['term']['args'][0], stack + (p['l'],))
                if rg is not None:
                    return rg

        if len(proj) == 1 and isinstance(proj[0], dict) and proj[0].get('f') == 0:
            sd = self.fn.single_def(p['l'])
            if sd is not None and sd['kind'] == 'assign' and sd['rv']['k'] == 'bin' and sd['rv']['op'].endswith('WithOverflow'):
                rv = dict(sd['rv'])
                rv['op'] = rv['op'][:-len('WithOverflow')]
                r = self.rvalue(rv, stack + (p['l'],))
                tr = ty_range(rv['ty'])
                if r is not None and tr is not None:
                    return (max(r[0], tr[0]), min(r[1], tr[1]))
                return tr
        return ty_range(ty) if ty else None

    def _range_of(self, o, stack, depth=0):
        """bounds of the items of the Range iterator that operand `o` (a &mut to it) denotes"""
        p = o.get('c') or o.get('m')
        if p is None or depth > 6:
            return None
        l = p['l']
        ds = [d for d in self.fn.defs.get(l, []) if d['kind'] != 'part']
        if len(ds) != 1:
            return None
        d = ds[0]
        if d['kind'] == 'assign':
            rv = d['rv']
            if rv['k'] in ('ref', 'rawptr'):
                return self._range_of({'c': {'l': rv['p']['l']}}, stack, depth + 1)
            if rv['k'] == 'use':
                return self._range_of(rv['x'], stack, depth + 1)
            if rv['k'] == 'agg' and rv.get('ak') == 'adt' and rv['adt'].endswith('ops::Range') and len(rv['xs']) == 2:
                a = self.operand(rv['xs'][0], stack)
                b = self.operand(rv['xs'][1], stack)
                if a and b:
                    return (a[0], max(b[1] - 1, a[0]))
            return None
        if d['kind'] == 'call':
            t = d['term']
            if strip_generics(t.get('decl') or t.get('fn', '')).endswith('IntoIterator::into_iter') and len(t['args']) == 1:
                return self._range_of(t['args'][0], stack, depth + 1)
        return None

    def rvalue(self, rv, stack):
        k = rv['k']
        if k == 'use':
            return self.operand(rv['x'], stack)
        if k == 'cast':
            if rv['ck'] != 'IntToInt':
                return ty_range(rv['to'])
            src = self.operand(rv['x'], stack, rv['from'])
            if src is None:
                src = ty_range(rv['from'])
            dst = ty_range(rv['to'])
            if src is None or dst is None:
                return dst
            if src[0] >= dst[0] and src[1] <= dst[1]:
                return src
            return dst
        if k == 'bin':
            op = rv['op']
            if op.endswith('WithOverflow') or op.endswith('Unchecked'):
                op = op.replace('WithOverflow', '').replace('Unchecked', '')
            l = self.operand(rv['l'], stack, rv.get('ty'))
            r = self.operand(rv['r'], stack, rv.get('ty') if op not in ('Shl', 'Shr') else None)
            tr = ty_range(rv.get('ty', ''))
            if op in ('Eq', 'Ne', 'Lt', 'Le', 'Gt', 'Ge'):
                return (0, 1)
            if l is None or tr is None:
                return tr
            res = None
            if op == 'Add' and r:
                res = (l[0] + r[0], l[1] + r[1])
            elif op == 'Sub' and r:
                res = (l[0] - r[1], l[1] - r[0])
            elif op == 'Mul' and r and l[0] >= 0 and r[0] >= 0:
                res = (l[0] * r[0], l[1] * r[1])
            elif op == 'BitAnd' and r and l[0] >= 0 and r[0] >= 0:
                res = (0, min(l[1], r[1]))
            elif op == 'BitOr' and r and l[0] >= 0 and r[0] >= 0:
                res = (0, (1 << max(l[1].bit_length(), r[1].bit_length())) - 1)
            elif op == 'BitXor' and r and l[0] >= 0 and r[0] >= 0:
                res = (0, (1 << max(l[1].bit_length(), r[1].bit_length())) - 1)
            elif op == 'Shr' and r and l[0] >= 0 and r[0] >= 0:
                res = (l[0] >> min(r[1], 200), l[1] >> r[0])
            elif op == 'Shl' and r and l[0] >= 0 and r[0] >= 0 and r[1] < 200:
                res = (l[0] << r[0], l[1] << r[1])
            elif op == 'Div' and r and l[0] >= 0 and r[0] > 0:
                res = (l[0] // r[1], l[1] // r[0])
            elif op == 'Rem' and r and l[0] >= 0 and r[0] > 0:
                res = (0, min(l[1], r[1] - 1))
            if res is None:
                return tr
            if res[0] < tr[0] or res[1] > tr[1]:
                # would wrap (plain ops panic in debug, wrap in release): type range
                return tr
            return res
        if k == 'un':
            if rv['op'] == 'PtrMetadata':
                return (0, 2**63 - 1)
            return ty_range(rv.get('ty', ''))
        if k == 'discr':
            return (0, 2**16)
        return None

    def call(self, t, stack):
        name = strip_generics(t.get('fn', ''))
        rty = ty_range(t.get('rty', ''))
        if 'layout' in t:
            return (t['layout'], t['layout'])
        if re.search(r'(^core::slice::len$|::len$|::count$|^core::str::len$|::capacity$)', name):
            return (0, 2**63 - 1)
        if re.search(r'::(count_ones|count_zeros|leading_zeros|trailing_zeros|leading_ones|trailing_ones)$', name):
            return (0, 128)
        if re.search(r'(^std::cmp::min$|::min$)', name) and len(t['args']) == 2:
            a = self.operand(t['args'][0], stack, t.get('rty'))
            b = self.operand(t['args'][1], stack, t.get('rty'))
            if a and b:
                return (min(a[0], b[0]), min(a[1], b[1]))
            if a or b:
                x = a or b
                return (rty[0] if rty else x[0], x[1])
        if re.search(r'convert::(From|Into)<.*>>::(from|into)$', name) and len(t['args']) == 1:
            a = self.operand(t['args'][0], stack)
            if a and rty and a[0] >= rty[0] and a[1] <= rty[1]:
                return a
        if re.search(r'^core::num::(saturating_sub|wrapping_sub)$', name):
            return rty
        return rty


# ------------------------------------------------------------------ guards (D3 / D4)
def dominating_facts(fn, b):
    """relations that hold on entry to block b because of dominating branch edges:
    list of (relation, guard block, successor)"""
    out = []
    chain = fn.dom_chain(b)
    for i in range(len(chain) - 1):
        child, d = chain[i], chain[i + 1]
        t = fn.blocks[d]['t']
        if t['k'] != 'switch':
            continue
        # which successor of d leads (exclusively) to b?
        for s in set(fn.succ[d]):
            if not fn.dominates(s, b):
                continue
            if any(p != d and not fn.dominates(s, p) for p in fn.pred[s]):
                continue
            cond = fn.operand_tree(t['x'])
            vals = [v for v, tgt in t['ts'] if tgt == s]
            isbool = t.get('ty') == 'bool'
            if s == t['o'] and not vals:
                allv = [v for v, _ in t['ts']]
                if isbool and allv == [0]:
                    v = True
                elif isbool and allv == [1]:
                    v = False
                else:
                    v = ('not',) + tuple(allv)
            elif len(vals) == 1 and s != t['o']:
                v = bool(vals[0]) if isbool else vals[0]
            else:
                continue
            tr = truth_of(v)
            if tr is None:
                out.append((('switch', cond, v), d, s))
            else:
                out.append((relation(cond, tr), d, s))
    return out


def _norm(fn, t):
    return strip_casts_widen(fn.expand(t))


def strip_casts_widen(tree):
    """drop integer casts that cannot change the value (widening, same signedness or unsigned->wider signed)"""
    while isinstance(tree, tuple) and tree and tree[0] == 'cast' and len(tree) >= 4:
        src, dst = ty_range(tree[3]), ty_range(tree[1])
        if src and dst and src[0] >= dst[0] and src[1] <= dst[1]:
            tree = tree[2]
        else:
            break
    return tree


def same_tree(fn, a, b):
    return a == b or _norm(fn, a) == _norm(fn, b)


def writes_between(fn, guard, succ, b, trees):
    """is any variable that the trees mention assigned on a path from the guard edge to block b
    that does not pass the guard again?"""
    locs = set()
    for t in trees:
        for v in leaves_vars(t):
            if v[0] == 'var' and isinstance(v[2], int):
                locs.add(v[2])
            elif v[0] == 'arg':
                locs.add(v[1])
    if not locs:
        return False
    fwd = fn.reachable_from(succ, avoid=(guard,))
    back = fn.can_reach(b, avoid=(guard,))
    mid = (fwd & back) - {b}
    for l in locs:
        for d in fn.defs.get(l, []):
            if d['kind'] == 'arg':
                continue
            if d['bb'] in mid:
                return True
        # (writes in b itself before the site are ignored only for single-def temps)
    return False


class Discharger:
    def __init__(self, prog, crate_name, table, known_keys=(), local_macros=()):
        self.local_macros = set(local_macros)
        self.third_party = set()
        self.prog = prog
        self.crate = crate_name
        self.table = table   # tkey -> entry
        self.used_table = set()
        self.stale = []
        self.known = set(known_keys)

    def run(self, fn, sites):
        iv = Intervals(fn, self.prog, self.crate)
        for s in sites:
            v = self.decide(fn, s, iv)
            s.verdict, s.why = v
        return sites

    # -------------------------------------------------------------
    def decide(self, fn, s, iv):
        t = s.term
        k = s.kind
        if k.startswith('assert:overflow:'):
            r = self.overflow(fn, s, iv)
            if r:
                return r
        elif k == 'assert:bounds':
            r = self.bounds(fn, s, iv)
            if r:
                return r
        elif k in ('assert:div_zero', 'assert:rem_zero'):
            # the assert's operand is the dividend; the divisor is in the condition `Eq(divisor, 0)`
            d = None
            dt = None
            cd = self._def_rv(fn, t['cond'])
            if cd is not None and cd['k'] == 'bin' and cd['op'] == 'Eq':
                d = iv.operand(cd['l'], ty=cd.get('ty'))
                dt = fn.operand_tree(cd['l'])
                s.trees = (dt,)
            if d and (d[0] > 0 or d[1] < 0):
                return ('D1', 'divisor is a non-zero constant / range %s' % (d,))
            for rel, g, sc in dominating_facts(fn, s.bb):
                if rel[0] == 'ne' and self._is_zero(rel[2]) and same_tree(fn, rel[1], s.trees[0]) and not writes_between(fn, g, sc, s.bb, [rel[1]]):
                    return ('D3', 'dominated by %s != 0' % show(rel[1]))
                if rel[0] == 'lt' and self._is_zero(rel[1]) and same_tree(fn, rel[2], s.trees[0]) and not writes_between(fn, g, sc, s.bb, [rel[2]]):
                    return ('D3', 'dominated by 0 < %s' % show(rel[2]))
        elif k.startswith('call:unwrap:'):
            r = self.unwrap(fn, s)
            if r:
                return r
        elif k.startswith('call:index:'):
            r = self.index_call(fn, s, iv)
            if r:
                return r
        elif k.startswith('call:panic:'):
            r = self.panic_call(fn, s)
            if r:
                return r
        r = self.idioms(fn, s, iv)
        if r:
            return r
        if is_log_term(t) and (k.startswith('call:unwrap:') or k.startswith('call:panic')):
            return ('D5', 'inside %s expansion (field-set lookup of the macro\'s own literal field list)' % s.mac)
        ch = [m.replace('$crate::', '') for m in mac_chain(t)]
        if ch:
            inner = ch[0].split('::')[-1]
            def third(m):
                last = m.split('::')[-1]
                return not (last in STD_MACROS or last in PANIC_MACROS or m.startswith('panic::') or m.startswith('fmt::') or m.startswith('format_args') or last in self.local_macros)
            pidx = [i for i, m in enumerate(ch) if m.split('::')[-1] in PANIC_MACROS or m.startswith('panic::panic_20')]
            panicky = bool(pidx)
            stdish = not third(ch[0])
            if panicky and any(third(m) for m in ch[max(pidx) + 1:]):
                # the panic!/unreachable! token itself was written inside a third-party macro definition
                tp = [m for m in ch[max(pidx) + 1:] if third(m)][0]
                self.third_party.add(tp)
                return ('M', 'panic site written inside the third-party macro %s (trusted as part of that dependency)' % tp)
            if not panicky and not stdish and inner not in self.local_macros:
                self.third_party.add(ch[0])
                return ('M', 'token text comes from the third-party macro %s (trusted as part of that dependency)' % ch[0])
        ck = s.ckey
        e = self.table.get(ck)
        if e is not None:
            self.used_table.add(ck)
            if e.get('slices') is not None:
                # the review was of particular code: the entry is void once the site's backward slice changed
                items = slices.canon_site_items(fn, self.prog.crate(self.crate), s.trees, s.kind, s.bb)
                dg, hs = slices.digest(items)
                if dg not in e['slices']:
                    new = slices.new_items(items, e.get('slice_items'))
                    self.stale.append((s, e, new))
                    return (None, 'STALE reviewed entry (%s): the code computing or guarding this site changed since review; new slice items: %s' % (e.get('why', '')[:80], ' ;; '.join(x[:160] for x in new[:4]) or '(items removed)'))
            return ('T', e.get('why', ''))
        r = self.via_callers(fn, s)
        if r:
            return r
        return (None, '')

    # -------------------------------------------------------------
    def _call_index(self):
        """callee path -> [caller Fn] for this crate, and the set of workspace functions used as function values"""
        if getattr(self, '_cidx', None) is None:
            idx = {}
            refs = set()
            c = self.prog.crate(self.crate)
            for f in c.fns:
                for b in f.reach:
                    blk = f.blocks[b]
                    t = blk['t']
                    if t['k'] == 'call' and 'fn' in t:
                        idx.setdefault(t['fn'], [])
                        if f not in idx[t['fn']]:
                            idx[t['fn']].append(f)
                    for node in list(blk['s']) + [t]:
                        for n in _json_walk(node):
                            if isinstance(n, dict) and 'fn' in n and n is not t and n.get('k') != 'call':
                                refs.add(n['fn'])
            self._cidx = (idx, refs)
        return self._cidx

    def via_callers(self, fn, s):
        """A site in a private helper that nobody reviewed is judged in the context of each of its callers: the helper is
        inlined into the caller and the copy of the site is decided there (dischargers, or the reviewed entry the caller
        has for exactly this computation - the situation after an extract-function refactoring).  Every caller must
        settle it; a helper that is public, used as a function value or called from nowhere is not handled."""
        if getattr(self, '_in_via', False) or fn.kind not in ('fn', 'method') or fn.raw.get('pub', True) or getattr(fn, 'inlined', None):
            return None
        idx, refs = self._call_index()
        if fn.path in refs:
            return None
        callers = idx.get(fn.path) or []
        if not callers or len(callers) > 6:
            return None
        import mirq
        whys = []
        self._in_via = True
        try:
            for F in callers:
                if F.path == fn.path:
                    return None
                view = mirq.inline_calls(self.prog, F, lambda g: g.path == fn.path, depth=1, crates=[self.crate])
                if view is F:
                    return None
                copies = [x for x in inventory(view) if view.blocks[x.bb].get('inl') == fn.path and x.kind == s.kind and x.line == s.line
                          and (x.bb - s.bb) >= len(F.blocks) and (x.bb - len(F.blocks) - s.bb) % len(fn.blocks) == 0]
                if not copies:
                    return None
                iv = Intervals(view, self.prog, self.crate)
                for x in copies:
                    v, why = self.decide(view, x, iv)
                    if v is None:
                        return None
                    whys.append('%s in %s' % (v, F.qual.split('::')[-1]))
        finally:
            self._in_via = False
        return ('V', 'private helper judged in the context of its %d caller(s): %s' % (len(callers), '; '.join(sorted(set(whys)))[:200]))

    def idioms(self, fn, s, iv):
        t = s.term
        k = s.kind
        if k.startswith('call:index:') and len(s.trees) == 2:
            idx = fn.expand(s.trees[1])
            if idx[0] == 'adt' and idx[1].endswith('RangeFull::RangeFull'):
                return ('D1', 'x[..] cannot fail')
        if k.startswith('call:unwrap:'):
            d = self._def_term(fn, t['args'][0])
            if d is not None:
                nm = strip_generics(d.get('decl') or d.get('fn') or '')
                targs = d.get('targs') or []
                if nm == 'std::fmt::Write::write_fmt' and targs and targs[0] == 'std::string::String':
                    return ('D7', 'fmt::Write for String never returns Err')
                if strip_generics(d.get('fn', '')) in ('std::sync::Mutex::lock', 'std::sync::RwLock::read', 'std::sync::RwLock::write'):
                    return ('D8', 'lock poisoning needs a previous panic while the guard was held; excluded by induction over the same inventory')
        return None

    def _def_rv(self, fn, o):
        p = o.get('c') or o.get('m')
        if p is None or p.get('p'):
            return None
        sd = fn.single_def(p['l'])
        if sd is None or sd['kind'] != 'assign':
            return None
        return sd['rv']

    def _def_term(self, fn, o):
        p = o.get('c') or o.get('m')
        if p is None or p.get('p'):
            return None
        sd = fn.single_def(p['l'])
        if sd is None:
            return None
        if sd['kind'] == 'call':
            return sd['term']
        if sd['kind'] == 'assign' and sd['rv']['k'] == 'use':
            return self._def_term(fn, sd['rv']['x'])
        return None

    def _is_zero(self, t):
        return t == ('int', 0)

    def _const(self, fn, tree):
        t = resolve_items(self.prog, self.crate, fn.expand(tree))
        t = _fold_ints(strip_casts_all(t))
        if t[0] == 'int':
            return t[1]
        return None

    def overflow(self, fn, s, iv):
        t = s.term
        op = t['op']
        ty = t.get('ty', '')
        tr = ty_range(ty)
        if tr is None:
            return None
        l = iv.operand(t['l'], ty=ty)
        r = iv.operand(t['r'], ty=ty if op not in ('Shl', 'Shr') else None)
        if op in ('Shl', 'Shr'):
            bits = {'u8': 8, 'i8': 8, 'u16': 16, 'i16': 16, 'u32': 32, 'i32': 32, 'u64': 64, 'i64': 64, 'usize': 64, 'isize': 64, 'u128': 128, 'i128': 128}.get(ty)
            if r and bits and 0 <= r[0] and r[1] < bits:
                return ('D1' if r[0] == r[1] else 'D2', 'shift amount in %s < %d bits' % (r, bits))
            return None
        if l and r:
            if op == 'Add':
                lo, hi = l[0] + r[0], l[1] + r[1]
            elif op == 'Sub':
                lo, hi = l[0] - r[1], l[1] - r[0]
            elif op == 'Mul':
                cands = [l[0] * r[0], l[0] * r[1], l[1] * r[0], l[1] * r[1]]
                lo, hi = min(cands), max(cands)
            else:
                lo = hi = None
            if lo is not None and lo >= tr[0] and hi <= tr[1]:
                const = l[0] == l[1] and r[0] == r[1]
                return ('D1' if const else 'D2', '%s of %s and %s fits %s' % (op, l, r, ty))
        if op == 'Add' and r and r[0] >= 0 and r[1] <= 65536 and ty in ('u64', 'usize', 'i64', 'isize', 'u128'):
            cl = self._counter_local(fn, t['l'])
            if cl is not None:
                return ('D9', 'unit-step loop counter `%s` of type %s starting at a constant: overflow needs more than 2^47 iterations' % (fn.local_name(cl) or '_%d' % cl, ty))
        # D3 guards
        a, b = s.trees
        facts = dominating_facts(fn, s.bb)
        if op == 'Sub':
            cb = self._const(fn, b)
            for rel, g, sc in facts:
                if rel[0] in ('le', 'lt') and same_tree(fn, rel[1], b) and same_tree(fn, rel[2], a):
                    if not writes_between(fn, g, sc, s.bb, [rel[1], rel[2]]):
                        return ('D3', 'dominated by %s %s %s' % (show(rel[1]), '<=' if rel[0] == 'le' else '<', show(rel[2])))
                if cb is not None and same_tree(fn, rel[2] if rel[0] in ('le', 'lt') else None, a) and rel[0] in ('le', 'lt'):
                    c2 = self._const(fn, rel[1])
                    if c2 is not None and (c2 >= cb if rel[0] == 'le' else c2 >= cb - 1) and tr[0] == 0:
                        if not writes_between(fn, g, sc, s.bb, [rel[2]]):
                            return ('D3', 'dominated by %s %s %s, subtrahend %s' % (c2, '<=' if rel[0] == 'le' else '<', show(rel[2]), cb))
                if cb == 1 and rel[0] == 'true' and is_call(rel[1], 'is_power_of_two') and len(rel[1]) == 3 and same_tree(fn, rel[1][2], a) and tr[0] == 0:
                    if not writes_between(fn, g, sc, s.bb, [a]):
                        return ('D3', 'dominated by %s.is_power_of_two(): a power of two is at least 1' % show(a))
                if cb == 1 and rel[0] == 'ne' and self._is_zero(rel[2]) and same_tree(fn, rel[1], a) and tr[0] == 0:
                    if not writes_between(fn, g, sc, s.bb, [rel[1]]):
                        return ('D3', 'dominated by %s != 0' % show(rel[1]))
                if cb == 1 and rel[0] == 'false' and is_call(rel[1], 'is_empty') and l and tr[0] == 0:
                    # x.len() - 1 under !x.is_empty()
                    an = _norm(fn, a)
                    if is_call(an, 'len') and len(an) == 3 and len(rel[1]) == 3 and same_tree(fn, an[2], rel[1][2]):
                        if not writes_between(fn, g, sc, s.bb, [an[2]]):
                            return ('D3', 'dominated by !%s.is_empty()' % show(an[2]))
        if op == 'Add':
            # a + b under  a <= MAX - b   /  a < MAX - b   (any spelling of the same trees)
            for rel, g, sc in facts:
                if rel[0] in ('le', 'lt'):
                    rhs = _norm(fn, rel[2])
                    if rhs[0] == 'bin' and rhs[1] == 'Sub':
                        lim = self._const(fn, rhs[2])
                        if lim is not None and lim <= tr[1]:
                            if (same_tree(fn, rel[1], a) and same_tree(fn, rhs[3], b)) or (same_tree(fn, rel[1], b) and same_tree(fn, rhs[3], a)):
                                if not writes_between(fn, g, sc, s.bb, [a, b]):
                                    return ('D3', 'dominated by %s <= %s - %s' % (show(rel[1]), lim, show(rhs[3])))
                            # a + k*P under a < MAX - c with c >= k*P (constants)
                            cb = self._const(fn, b)
                            cs = self._const(fn, rhs[3])
                            if cb is not None and cs is not None and cs >= cb and same_tree(fn, rel[1], a):
                                if not writes_between(fn, g, sc, s.bb, [a]):
                                    return ('D3', 'dominated by %s < %s - %s, addend %s' % (show(rel[1]), lim, cs, cb))
        if op == 'Add' and tr[0] == 0:
            # a + c under the success of `a.checked_add(c2)?` / `if let Some(..) = a.checked_add(c2)` with c2 >= c
            cb = self._const(fn, b)
            if cb is not None and cb >= 0:
                for rel, g, sc in facts:
                    if rel[0] != 'switch' or len(rel) < 3:
                        continue
                    d = rel[1]
                    if not (isinstance(d, tuple) and d[0] == 'discr'):
                        continue
                    inner = d[1]
                    want = None
                    if inner[0] == 'trybranch':
                        inner, want = inner[1], 0          # ControlFlow::Continue
                    elif is_call(inner, 'checked_add'):
                        want = 1                           # Option::Some
                    if want is None or rel[2] != want or not is_call(inner, 'checked_add') or len(inner) != 4:
                        continue
                    c2 = self._const(fn, inner[3])
                    if c2 is not None and c2 >= cb and same_tree(fn, inner[2], a):
                        if not writes_between(fn, g, sc, s.bb, [a]):
                            return ('D3', 'dominated by the success of checked_add(%s, %d), addend %d' % (show(inner[2])[:60], c2, cb))
        return None

    def _counter_local(self, fn, o):
        """operand is a local whose every definition is a small constant or itself plus a small constant"""
        p = o.get('c') or o.get('m')
        if p is None or p.get('p'):
            return None
        l = p['l']
        # follow `tmp = copy x`
        sd = fn.single_def(l)
        if fn.local_name(l) is None and sd is not None and sd['kind'] == 'assign' and sd['rv']['k'] == 'use':
            return self._counter_local(fn, sd['rv']['x'])
        ds = fn.defs.get(l, [])
        if len(ds) < 2 or l in fn.mut_borrowed:
            return None
        inc = 0
        for d in ds:
            if d['kind'] != 'assign':
                return None
            tr = fn.rvalue_tree(d['rv'])
            if tr[0] == 'int' and 0 <= tr[1] <= 65536:
                continue
            if tr[0] == 'bin' and tr[1] == 'Add' and tr[2][0] == 'var' and tr[2][2] == l and tr[3][0] == 'int' and 0 <= tr[3][1] <= 65536:
                inc += 1
                continue
            return None
        return l if inc else None

    def bounds(self, fn, s, iv):
        t = s.term
        idx = iv.operand(t['idx'], ty='usize')
        ln = iv.operand(t['len'], ty='usize')
        if idx and ln and idx[1] < ln[0]:
            return ('D1' if idx[0] == idx[1] else 'D2', 'index %s < length %s' % (idx, ln))
        i_t, l_t = s.trees
        for rel, g, sc in dominating_facts(fn, s.bb):
            if rel[0] == 'lt' and same_tree(fn, rel[1], i_t) and (same_tree(fn, rel[2], l_t) or self._len_eq(fn, rel[2], l_t, ln)):
                if not writes_between(fn, g, sc, s.bb, [rel[1]]):
                    return ('D3', 'dominated by %s < %s' % (show(rel[1]), show(rel[2])))
        return None

    def _len_eq(self, fn, bound_tree, len_tree, ln):
        c = self._const(fn, bound_tree)
        return c is not None and ln is not None and c <= ln[0]

    def unwrap(self, fn, s):
        x = s.trees[0]
        xn = _norm(fn, x)
        # write!/writeln!/fmt::Write into a String cannot fail
        for rel, g, sc in dominating_facts(fn, s.bb):
            if rel[0] in ('true', 'false') and isinstance(rel[1], tuple) and rel[1][0] == 'call' and len(rel[1]) == 3:
                nm = rel[1][1]
                if same_tree(fn, rel[1][2], x):
                    ok = (rel[0] == 'true' and re.search(r'::(is_some|is_ok)$', nm)) or (rel[0] == 'false' and re.search(r'::(is_none|is_err)$', nm))
                    if ok and not writes_between(fn, g, sc, s.bb, [x]):
                        return ('D4', 'dominated by %s%s' % ('' if rel[0] == 'true' else '!', show(rel[1])))
            if rel[0] == 'switch' and rel[1][0] == 'discr' and same_tree(fn, rel[1][1], x) and rel[2] == 1:
                if not writes_between(fn, g, sc, s.bb, [x]):
                    return ('D4', 'dominated by a match on %s being Some/Ok' % show(x))
        return None

    def index_call(self, fn, s, iv):
        # v[i] with i an integer: the callee is Index<usize>; needs i < len(v)
        t = s.term
        if len(t['args']) != 2:
            return None
        base, idx = s.trees
        it = iv.operand(t['args'][1], ty=None)
        for rel, g, sc in dominating_facts(fn, s.bb):
            if rel[0] == 'lt' and same_tree(fn, rel[1], idx):
                rhs = _norm(fn, rel[2])
                if is_call(rhs, 'len') and len(rhs) == 3 and same_tree(fn, rhs[2], base):
                    if not writes_between(fn, g, sc, s.bb, [rel[1], base]):
                        return ('D3', 'dominated by %s < %s.len()' % (show(idx), show(base)))
        return None

    def panic_call(self, fn, s):
        return None


def strip_casts_all(tree):
    while isinstance(tree, tuple) and tree and tree[0] == 'cast':
        tree = tree[2]
    return tree


def _fold_ints(t):
    """constant-fold + - * over integer literals (mathematical integers: callers compare against type ranges)"""
    if not isinstance(t, tuple) or not t or t[0] != 'bin' or t[1] not in ('Add', 'Sub', 'Mul'):
        return t
    a, b = _fold_ints(strip_casts_all(t[2])), _fold_ints(strip_casts_all(t[3]))
    if a[0] == 'int' and b[0] == 'int':
        return ('int', a[1] + b[1] if t[1] == 'Add' else a[1] - b[1] if t[1] == 'Sub' else a[1] * b[1])
    return t


def resolve_items(prog, crate_name, tree):
    if not isinstance(tree, tuple) or not tree:
        return tree
    if tree[0] == 'item':
        v = prog.const_int(tree[1], crate_name)
        if v is not None:
            return ('int', v)
        m = re.match(r'^(?:core|std)::(?:num::<impl )?([iu](?:8|16|32|64|128|size))>?::(MAX|MIN)$', tree[1])
        if m:
            r = ty_range(m.group(1))
            if r is not None:
                return ('int', r[1] if m.group(2) == 'MAX' else r[0])
        return tree
    if tree[0] in ('int', 'str', 'fnref', 'float', 'const', 'arg', 'var'):
        return tree
    return tuple([tree[0]] + [resolve_items(prog, crate_name, x) if isinstance(x, tuple) else x for x in tree[1:]])


def load_table():
    p = os.path.join(VERIF, 'py', 'tables', 'panic_table.json')
    if not os.path.exists(p):
        return {}
    with open(p) as fh:
        ents = json.load(fh)['entries']
    return {e['key']: e for e in ents}


PANIC_MACROS = set(m + '!' for m in 'panic unreachable unimplemented todo assert assert_eq assert_ne debug_assert debug_assert_eq debug_assert_ne'.split())
STD_MACROS = set(m + '!' for m in (
    'write writeln format format_args vec matches assert assert_eq assert_ne debug_assert debug_assert_eq '
    'debug_assert_ne panic unreachable unimplemented todo print println eprint eprintln concat stringify '
    'include_str include_bytes line file column cfg env option_env try dbg thread_local const_format_args '
    'module_path compile_error').split())


def local_macros(repo):
    """names of macro_rules! macros defined in the repository itself"""
    import harness
    out = set()
    for p in harness.repo_files(repo):
        if p.endswith('.rs'):
            with open(p, errors='replace') as fh:
                for m in re.finditer(r'macro_rules!\s+(\w+)', fh.read()):
                    out.add(m.group(1) + '!')
    return out


def _json_walk(node):
    if isinstance(node, dict):
        yield node
        for v in node.values():
            for x in _json_walk(v):
                yield x
    elif isinstance(node, list):
        for v in node:
            for x in _json_walk(v):
                yield x


def analyse(prog, crate_name, fns, table=None, known=()):
    """inventory + discharge for the given functions; returns list of Sites"""
    import harness
    if table is None:
        table = load_table()
    d = Discharger(prog, crate_name, table, known, local_macros(harness.REPO))
    out = []
    for f in fns:
        sites = inventory(f)
        if sites:
            d.run(f, sites)
            out.extend(sites)
    return out, d
