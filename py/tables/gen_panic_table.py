#!/usr/bin/env python3
"""Regenerates tables/panic_table.json: applies the reviewed annotations below to
the *current* undischarged panic sites and freezes them as exact site keys.

The check itself never uses the patterns: it reads only the frozen exact keys
(plus `fn|kind|*` lines that were written here on purpose).  Patterns are a
reviewing aid: every one was written after reading the code at the sites it
matches, and the generated file is committed and diff-reviewed.

A site annotated FIND is a suspected or confirmed defect: it is *not* written
to the table, so it stays a violation until it is fixed in /repo or recorded in
known_findings.json with a witness."""
import json, os, re, sys
HERE = os.path.dirname(os.path.abspath(__file__))
sys.path.insert(0, os.path.dirname(HERE))
from rules.common import *
import panics, slices

A = []  # (regex on tkey, why, backing rule or None)


def a(rx, why, backing=None):
    A.append((re.compile(rx), why, backing))


# ---------------------------------------------------------------- minidump::context
a(r'context::CpuContext::format_register\|assert:overflow:Mul', 'size_of of a register type (u32/u64, an associated type bounded by the 9 impls) times 2')
a(r'context::default_memoize_register\|assert:bounds\|idx', 'idx is the result of `registers.iter().position(..)?` on the same slice, so idx < registers.len()')
a(r'CpuContext>::get_register_always\|call:panic:panic_fmt', 'unreachable!() default arm: reachable only with a name outside the register table; get_register reaches this function only under register_is_valid, and validity sets only hold memoized names', 'C18.7')
a(r'context::MinidumpContext::print\|call:index:index\|raw\.iregs \(adt std::ops::RangeTo::RangeTo 29\)', 'iregs is a fixed array of 31 (arm64) registers; ..29 is in range')
a(r'context::MinidumpContext::print\|assert:bounds\|\(cast usize \(discr reg\)\) 32', 'reg ranges over the constant MIPS_REGS list of MipsRegisterNumbers variants, whose discriminants are all < 32 (checked: max discriminant in format.rs)', 'C18.enum')
a(r'context::MinidumpContext::print\|call:panic:panic\|"not implemented"', 'FIND: unimplemented!() for PPC/PPC64/SPARC contexts')

# ---------------------------------------------------------------- minidump::minidump
a(r'minidump::read_string_utf16\|assert:rem_zero', 'divisor is the literal 2')
a(r'minidump::read_string_utf16\|assert:overflow:Add\|offset size', 'offset <= bytes.len() <= isize::MAX after the successful gread_with, size <= u32::MAX: the sum fits usize (64-bit)')
a(r'minidump::read_string_utf16\|call:index:index', 'dominated by the early return on `*offset + size > bytes.len()`; offset <= offset + size')
a(r'minidump::read_cstring_utf8\|assert:overflow:Sub\|offset 1', 'the loop only exits after at least one successful gread of a u8, so *offset >= initial_offset + 1 >= 1')
a(r'minidump::read_cstring_utf8\|call:index:index', 'initial_offset <= offset - 1 < bytes.len(): at least one byte was read past initial_offset and every read succeeded')
a(r'::memory_range\|assert:overflow:Sub\|val 1', 'val = checked_add(base, size)? with size != 0 (early return on size == 0), so val >= 1', 'C08.2')
a(r'::memory_range\|call:range_new:new\|.* \(Sub val 1\)', 'end = base + size - 1 >= base because size >= 1 and the checked_add did not overflow', 'C08.2')
a(r'::memory_range\|call:range_new:new\|\S+ val$', 'end = checked_add(base, size - 1)? with size != 0 (early return on size == 0): end >= base and the addition did not overflow', 'C08.2')
a(r'MinidumpLinuxMapInfo::<\'_>::memory_range\|call:range_new:new', 'dominated by the early return when address.0 > address.1', 'C08.2')
a(r'minidump::read_stream_list\|assert:overflow:Sub\|\(core::slice::len bytes\) counted_size', 'counted_size is the Ok payload of ensure_count_in_bound(bytes, ..), which checks counted_size <= bytes.len()', 'C01.3')
a(r'minidump::read_stream_list\|assert:overflow:Add\|offset 4', 'offset is a small header offset (4) set by gread of one u32')
a(r'minidump::read_ex_stream_list\|assert:overflow:Add\|offset header_padding', 'offset <= bytes.len() after successful greads; header_padding = size_of_header - size_of::<header>() is bounded by u32::MAX')
a(r'MinidumpModuleList::main_module\|call:index:index\|self\.modules 0', 'dominated by !self.modules.is_empty()')
a(r'(MinidumpModuleList::module_at_address|MinidumpModuleList::by_addr|MinidumpUnloadedModuleList::by_addr|MinidumpUnloadedModuleList::modules_at_address|MinidumpMemoryListBase::<.*>::by_addr|MinidumpMemoryInfoList::<.*>::(memory_info_at_address|by_addr)|MinidumpLinuxMaps::<.*>::(memory_info_at_address|by_addr)|MinidumpThreadList::<.*>::get_thread|MinidumpThreadInfoList::get_thread_info)::\{closure#\d\}\|call:index:index', 'index comes out of the private by-address / by-id map built over this very Vec by from_*/read (enumerate() indices); both fields are private and never mutated afterwards', 'C08.4')
a(r'MinidumpUnloadedModuleList::from_modules::\{closure#0\}\|call:index:index\|modules i', 'i ranges over 0..modules.len()')
a(r'MinidumpHandleDescriptor::read_object_info::\{closure#0\}\|call:unwrap:unwrap', 'FIND: from_u32(info_type).unwrap() on a file-controlled value')
a(r'print_contents\|call:slice_api:chunks', 'chunk size is the constant PARAGRAPH_SIZE = 16 != 0')
a(r'print_contents\|assert:overflow:Add\|offset', 'offset advances by 16 per 16-byte chunk of a slice: offset <= bytes.len()')
a(r'MinidumpThread::<\'a>::print\|call:slice_api:chunks_exact', 'chunk_size = size_in_bytes().unwrap_or(8) is 4 or 8, never 0')
a(r'MinidumpThread::<\'a>::print\|call:unwrap:unwrap\|\(<T as std::convert::TryInto<U>>::try_into chunk\)', 'chunk comes from chunks_exact(chunk_size): Bits32 => 4 bytes into [u8;4]; Unknown/Bits64 => 8 bytes into [u8;8] (size_in_bytes() is None exactly for Unknown)')
a(r'MinidumpThread::<\'a>::print\|assert:overflow:Add\|offset chunk_size', 'offset <= stack.bytes().len()')
a(r'MinidumpMacCrashInfo::print\|call:index:index\|self\.raw i', 'i ranges over 0..self.raw.len()')
a(r'MinidumpException::<\'a>::print\|assert:bounds\|i 15', 'FIND: exception_information[i] for i < number_parameters (file-controlled u32, array of 15)')
a(r'minidump::utf16_to_string\|call:index:index', 'len = count of a take_while over data.iter(), so len <= data.len()')
a(r'minidump::utf16_to_string\|call:unsafe:from_raw_parts', 'views a &[u16] of len n as 2n bytes of the same allocation (alignment 1); not a panic edge')
a(r'strings::LinuxOsStr::r?split_once::\{closure#1\}\|call:index:index\|.*RangeTo idx', 'idx is the payload of position()/rposition() on self: idx < len')
a(r'strings::LinuxOsStr::r?split_once::\{closure#1\}\|assert:overflow:Add\|idx 1', 'idx < len <= isize::MAX')
a(r'strings::LinuxOsStr::r?split_once::\{closure#1\}\|call:index:index\|.*RangeFrom \(Add idx 1\)', 'idx < len so idx + 1 <= len')
a(r'strings::LinuxOsStr::trim_ascii_whitespace\|call:index:index\|input \(adt std::ops::Range::Range 0 0\)', 'empty range at 0')
a(r'strings::LinuxOsStr::trim_ascii_whitespace\|call:index:index\|input \(std::ops::RangeInclusive::new first last\)', 'first is the smallest and last the largest index of a non-whitespace byte from enumerate() over input: first <= last < len')

# ---------------------------------------------------------------- minidump_common
a(r'format::CV_INFO_(PDB20|PDB70|ELF) as scroll::ctx::TryFromCtx.*\|assert:overflow:Sub\|\(core::slice::len src\) offset', 'offset was advanced only by successful gread_with calls on src, each of which checks offset + size <= src.len()')
a(r'format::GUID as std::convert::From<\[u8; 16\]>>::from\|call:index:index', 'uuid is [u8;16]; 8.. is in range')
a(r'format::GUID as std::convert::From<\[u8; 16\]>>::from\|call:slice_api:copy_from_slice', 'data4 is [u8;8] and uuid[8..] has 8 elements')
a(r'XstateFeatureIter<\'_> as std::iter::Iterator>::next\|assert:overflow:Add\|self\.idx 1', 'dominated by the loop condition self.idx < features.len() (= 64)')
a(r'XstateFeatureIter<\'_> as std::iter::Iterator>::next\|assert:overflow:Shl', 'cur_idx < 64 by the loop condition')
a(r'XstateFeatureIter<\'_> as std::iter::Iterator>::next\|assert:bounds\|cur_idx 64', 'cur_idx < features.len() = 64 by the loop condition')
a(r'MINIDUMP_MAC_CRASH_INFO_RECORD_STRINGS(_\d)?::set_string\|call:panic:panic_fmt', 'default arm of a match on the string index inside the multi_structs! expansion; callers pass 0..num_strings() of the same generated type (the loop in MinidumpMacCrashInfo::read)', 'C01.maccrash')
a(r'traits::IntoRangeMapSafe::into_rangemap_safe\|call:unwrap:unwrap\|\(range_map::RangeMap::try_from_iter vec\)', 'vec was built by the loop above: sorted by range, overlapping entries dropped or merged, so try_from_iter cannot report an overlap', 'C08.3')
a(r'utils::basename\|assert:overflow:Add\|index 1', 'index is the payload of rfind on f: index < f.len()')
a(r'utils::basename\|call:index:index', 'index < len and the matched pattern is a single ASCII byte, so index + 1 is a char boundary <= len')

# ---------------------------------------------------------------- breakpad_symbols
a(r'breakpad_symbols::lookup_leafname\|call:index:index\|leaf \(adt std::ops::RangeFrom::RangeFrom 2\)', 'dominated by the slice pattern [drive, b\':\', ..] on leaf.as_bytes() (len >= 2, byte 1 is `:`) and by drive.is_ascii_alphabetic(): bytes 0 and 1 are ASCII, so offset 2 is <= len and a char boundary of the str')
a(r'http::HttpSymbolSupplier::new\|call:unwrap:unwrap', 'reqwest::ClientBuilder::build() with only a timeout set; fails only if the TLS backend cannot initialise. Constructor-time, not input-dependent (assumption)')
a(r'parser::hex_str\|assert:overflow:Mul', 'size_of::<T>() for T in {u32, u64} times 2')
a(r'parser::hex_str\|call:op_trait:shl', 'T is u32 or u64 (the two instantiations); shift amount is the literal 4')
a(r'parser::(hex_str|decimal_u32)\|call:index:index\|input \(adt std::ops::RangeFrom::RangeFrom k\)', 'k counts iterations of input.iter().take(max): k <= input.len()')
a(r'parser::decimal_u32\|assert:overflow:Mul\|res 10', 'at most MAX_LEN = 10 iterations (take(MAX_LEN)): res < 10^10 < 2^64', 'C09.digits')
a(r'parser::decimal_u32\|assert:overflow:Add', 'res*10 + digit < 10^11 < 2^64 within 10 iterations', 'C09.digits')
a(r'SymbolParser::parse_more\|assert:overflow:Add\|idx 1', 'idx is the payload of rposition on input: idx < len')
a(r'SymbolParser::parse_more\|call:index:index\|input \(adt std::ops::RangeTo::RangeTo \(Add idx 1\)\)', 'idx < len so idx + 1 <= len')
a(r'SymbolParser::parse_more\|assert:overflow:Add\|self\.lines 1', 'self.lines: u64 counts parsed lines, one increment per consumed line (at least one input byte each)')
a(r'insert_win_stack_info\|call:unwrap:unwrap', 'last_range intersects the new range and info.address > last_info.address, so 1 <= info.address - last_info.address <= last_info.size - 1 < 2^32: the shrunk size is non-zero and its end is below the old, non-overflowing end')
a(r'SymbolParser::finish_item\|call:panic:panic\|"internal error: entered unreachable code"', 'finish_item is only called with cur_item, which is only ever set to Line::Function or Line::StackCfi (the two multi-line records)', 'C09.finish_item')
a(r'SymbolParser::finish_item::\{closure#1\}\|assert:overflow:Sub\|\(cast u64 l\.size\) 1', 'the preceding .filter(|l| l.size > 0) keeps only size >= 1')
a(r'SymbolParser::finish_item::\{closure#1\}::\{closure#0\}\|call:range_new:new\|l\.address end', 'end = checked_add(address, size - 1) >= address')
a(r'parser::into_rangemap_safe\|call:unwrap:unwrap', 'same construction as IntoRangeMapSafe: input sorted, overlaps dropped or merged before try_from_iter', 'C08.3')
a(r'types::Function::get_inlinee_at_depth\|assert:overflow:Sub\|index 1', 'the Err(0) arm is matched first, so index >= 1 here')
a(r'types::Function::get_inlinee_at_depth\|call:index:index\|self\.inlinees index', 'Ok(index) of binary_search_by_key on self.inlinees: a valid index')
a(r'types::Function::get_inlinee_at_depth\|call:index:index\|self\.inlinees \(Sub index 1\)', 'Err(index) is an insertion point: 1 <= index <= len')
a(r'walker::walk_with_stack_cfi\|call:panic:panic', 'match arm for CfiReg::Cfa / CfiReg::Ra inside the loop over the remaining rules: both keys were removed from the map just above', 'C06.4')
a(r'walker::parse_cfi_exprs\|assert:overflow:Add\|\(core::str::as_ptr val\) \(core::str::len val\)', 'address of a sub-slice of `input` plus its length: the end address of an existing allocation')
a(r'walker::parse_cfi_exprs\|assert:overflow:Sub\|(min|max)_addr base_addr', 'min/max_addr are addresses inside `input` (tokens from split_ascii_whitespace of input), base_addr is input.as_ptr()')
a(r'walker::parse_cfi_exprs\|call:index:index', 'both bounds are offsets of tokens of `input` inside `input`, first token before or equal to last; ASCII-whitespace-delimited so both are char boundaries')
a(r'walker::eval_cfi_expr\|call:num_api:wrapping_(div|rem)\|lhs rhs', 'dominated by the early return on rhs == 0', 'C06.2')
a(r'walker::eval_win_expr\|call:num_api:wrapping_(div|rem)\|lhs rhs', 'dominated by the early return on rhs == 0', 'C07.2')
a(r'walker::eval_win_expr\|call:index:index\|reg \(adt std::ops::RangeFrom::RangeFrom 1\)', 'reg iterates over the literal list ["$eip",..]: every element starts with the one-byte `$`')
a(r'walker::eval_win_expr::\{closure#0\}\|call:index:index\|x', 'guarded by x.starts_with(\'=\') && x.len() > 1: byte 1 is a char boundary after the ASCII `=`')
a(r'walker::win_frame_size\|assert:overflow:Add', 'FIND: u32 sum of three file-controlled sizes')
a(r'walker::walk_with_stack_win_framedata\|call:panic:panic', 'else arm of `if let ProgramString`: callers dispatch on the record type (walk_frame looks the record up in win_stack_framedata_info, which only holds ProgramString records)', 'C07.dispatch')
a(r'walker::walk_with_stack_win_fpo\|call:panic:panic', 'else arm of `if let AllocatesBasePointer`: records in win_stack_fpo_info always carry AllocatesBasePointer (parser pairs the type field with the payload)', 'C07.dispatch')
a(r'walker::walk_with_stack_win_fpo\|assert:overflow:Add\|callee_esp frame_size', 'ASSUMPTION: callee registers of an x86 walker are 32-bit values widened to u64 (CfiStackWalker<CONTEXT_X86>); frame_size <= u32::MAX')
a(r'walker::walk_with_stack_win_fpo\|assert:overflow:Add\|eip_address 4', 'ASSUMPTION: eip_address <= 2^33 (32-bit esp + 32-bit frame size)')
a(r'walker::walk_with_stack_win_fpo\|assert:overflow:Add\|callee_esp \(cast u64 grand_callee_param_size\)', 'ASSUMPTION: 32-bit callee_esp plus a u32')
a(r'walker::walk_with_stack_win_fpo\|assert:overflow:Add\|\(Add callee_esp', 'ASSUMPTION: 32-bit callee_esp plus two u32')
a(r'walker::walk_with_stack_win_fpo\|assert:overflow:Sub', 'FIND: callee_esp + param + saved - 8 underflows when the sum is < 8')
a(r'SymbolFile>::parse(_async::\{closure#0\})?\|assert:overflow:Add\|new_line_idx 1', 'new_line_idx is the payload of position() on input')
a(r'SymbolFile>::parse(_async::\{closure#0\})?\|call:index:index\|input \(adt std::ops::RangeTo::RangeTo amount\)', 'amount is new_line_idx + 1 <= len or input.len()')
a(r'SymbolFile>::parse(_async::\{closure#0\})?\|assert:overflow:Add\|total_consumed', 'total_consumed: u64 sums bytes actually read from the reader')
a(r'SymbolFile>::parse(_async::\{closure#0\})?\|assert:overflow:Add\|parser\.lines 1', 'u64 line counter')
a(r'SymbolFile>::parse(_async::\{closure#0\})?\|assert:div_zero\|new_cap', 'the divisor is the literal 1024 (the listed operand is the dividend)')
a(r'SymbolFile>::parse(_async::\{closure#0\})?\|call:index:index\|input \(adt std::ops::RangeTo::RangeTo consumed\)', 'consumed is the Ok payload of parse_more(input), which returns 0 or the length of a prefix of input', 'C10.2')
a(r'SymbolFile>::fill_symbol\|assert:overflow:Add\|(func|public)\.address', 'the record was found by looking up addr = instruction - base, so record.address <= addr and record.address + base <= instruction', 'C11.3,C11.3b,C11.4')
a(r'SymbolFile>::fill_symbol\|assert:overflow:Add\|address \(minidump_common::traits::Module::base_address module\)', 'address of the line / inlinee record covering addr: address <= addr = instruction - base', 'C11.3')
a(r'SymbolFile>::walk_frame::\{closure#0\}\|call:index:index\|info\.add_rules', 'count <= len by the while condition `count < len`')
a(r'breakpad_symbols::moz_lookup\|call:unwrap:unwrap', 'server_rel is built by the lookup functions as "<name>/<id>/<file>": never empty', 'C17.3')
a(r'CachedAsyncResult::<T, E>::get::\{closure#0\}\|call:unwrap:unwrap', 'the guard was filled with Some(..) on the is_none() branch just above and is still held', 'C12.2')
a(r'Symbolizer::get_symbols::.*\|assert:overflow:Add\|_\.symbols_(requested|processed) 1', 'u64 counter incremented once per distinct module')

# ---------------------------------------------------------------- minidump_unwind
a(r'amd64::get_caller_by_frame_pointer::\{closure#0\}\|assert:overflow:Mul\|offset offset_step', 'offset in 0..=offset_max_scan (0 or 15), offset_step 0 or 16: literals at the two call sites')
a(r'amd64::get_caller_by_frame_pointer::\{closure#0\}\|assert:overflow:Add\|frame_bp \(item minidump_unwind::amd64::POINTER_WIDTH\)', 'dominated by the success of `frame_bp.checked_add(POINTER_WIDTH * 2)?` two lines above, so frame_bp + POINTER_WIDTH also fits', 'C05.8')
a(r'(x86|amd64)::get_caller_by_scan::\{closure#0\}\|assert:overflow:Sub\|address_of_ip \(item', 'dominated by i > 0, and address_of_ip = checked_add(last_sp, i*PTR)? >= i*PTR >= PTR')
a(r'(x86|amd64)::get_caller_by_scan::\{closure#0\}\|assert:overflow:Sub\|bp address_of_bp', 'dominated by bp > address_of_ip and address_of_ip > address_of_bp')
a(r'arm64(_old)?::get_caller_by_frame_pointer\|assert:overflow:Add\|last_fp', 'dominated by the early return on last_fp >= u64::MAX - POINTER_WIDTH * 2', 'C05.8')
a(r'arm64(_old)?::ptr_auth_strip::\{closure#1\}\|assert:overflow:Sub\|high_bit 1', 'high_bit is the Some payload of checked_next_power_of_two(), a power of two >= 1')
a(r'mips::get_caller_by_scan32::\{closure#0\}\|assert:overflow:Sub\|count', 'count = MAX_STACK_SIZE / POINTER_WIDTH = 256 (constants) minus the constant MIN_ARGS = 4, executed at most once')
a(r'mips::get_caller_by_scan32::\{closure#0\}\|assert:overflow:Mul\|i', 'i < count <= MAX_STACK_SIZE / POINTER_WIDTH = 256, POINTER_WIDTH = 4')
a(r'symbols::debuginfo::', 'cfg(feature = "debuginfo") code path (native debug info through framehop/wholesym); outside the Breakpad-symbol pipeline the properties quantify over. ASSUMPTION: not analysed further')
a(r'minidump_unwind::CallStack::print\|assert:overflow:Add\|frame_count 1', 'usize frame counter, one step per printed frame')
a(r'minidump_unwind::CallStack::print\|call:op_trait:sub\|addr (src_base|func_base)', 'addr - base on &u64 references: function_base / source_line_base were set by fill_symbol from a record covering addr, so base <= addr', 'C11.3,C11.3b,C11.4,C11.5')
a(r'minidump_unwind::CallStack::print\|assert:overflow:Sub\|addr \(<minidump::MinidumpModule as minidump::Module>::base_address module\)', 'frame.module came from module_at_address(frame.instruction): base <= addr', 'C05.7')
a(r'CallStack::print::print_registers\|call:string_api:truncate\|output 0', 'truncate(0) is always a char boundary')
a(r'minidump_unwind::walk_stack::\{closure#0\}::\{closure#0\}\|assert:overflow:Sub\|\(std::vec::Vec::len stack\.frames\) 1', 'loop runs only while has_new_frame, which is initialised to !frames.is_empty() and set after a push')
a(r'minidump_unwind::walk_stack::\{closure#0\}::\{closure#0\}\|call:unwrap:unwrap', 'frames is non-empty inside the loop (has_new_frame)')

# ---------------------------------------------------------------- minidump_processor
a(r'arg_recovery::fill_arguments::\{closure#0\}\|assert:overflow:Add\|frame_idx [12]', 'frame_idx is an enumerate() index over frames')
a(r'arg_recovery::fill_arguments::\{closure#0\}::\{closure#2\}\|assert:overflow:Add\|read_head', 'x86 only: read_head starts at a 32-bit stack pointer (or equals the bound, in which case nothing is read) and advances by 4 once per parsed argument of a symbol name shorter than the 160 KiB line cap')
a(r'arg_recovery::parse_x86_arg_list\|assert:overflow:(Add|Sub)\|(paren|template)_depth 1', 'i32 nesting counters: incremented at most once per byte of a function name (< 160 KiB); decremented only under `> 0`')
a(r'arg_recovery::parse_x86_arg_list\|assert:overflow:Add\|idx 1', 'idx is an enumerate() index over the bytes')
a(r'arg_recovery::parse_x86_arg_list\|call:index:index', 'arg_start is 0 or idx+1 of an earlier ASCII `,`; idx is the position of an ASCII byte: both are char boundaries and arg_start <= idx <= len')
a(r'op_analysis::get_thread_instruction_bytes::\{closure#0\}\|assert:overflow:Sub', 'memory came from memory_at_address(instruction_pointer): base <= ip', 'C08.lookup')
a(r'op_analysis::get_thread_instruction_bytes::\{closure#0\}\|call:index:index', 'ip is inside the region, so offset < bytes.len() (regions with size != bytes.len() are rejected at read time)', 'C08.lookup')
a(r'add_derivable_opcode_implicit_access\|assert:overflow:Sub\|rsp 8', 'FIND: rsp - 8 with rsp < 8')
a(r'InstructionPointerUpdate>::from_instruction\|call:panic:assert_failed', 'ASSUMPTION: yaxpeax reports exactly one operand for call/jmp (x86 encoding)')
a(r'op_analysis::amd64::.*\|call:panic:(panic_fmt|panic|begin_panic)', 'ASSUMPTION: operand kinds / positions of the matched opcodes are fixed by the x86-64 encoding as decoded by yaxpeax')
a(r'process_state::Address as std::fmt::Display>::fmt\|call:tls_with:with', 'LocalKey::with panics only during thread teardown; formatting happens on a live thread')
a(r'process_state::Address as std::fmt::Display>::fmt::\{closure#0\}\|call:refcell:borrow', 'the only borrow_mut of SERIALIZATION_CONTEXT is in set_print_context and is released before it returns; no re-entrancy')
a(r'ProcessState::set_print_context(::\{closure#0\})?\|call:(tls_with:with|refcell:borrow_mut)', 'short borrow_mut with no call-out while held; LocalKey::with on a live thread')
a(r'LinuxProcLimits as std::convert::From<.*>>::from::\{closure#\d\}\|call:index:index\|m [012]', 'the iterator stage before this closure is .filter(|m| m.len() >= 3): only vectors with at least 3 fields reach it', 'C03.limits')
a(r'LinuxProcLimits as std::convert::From<.*>>::from::\{closure#\d\}\|call:index:index\|m 3', 'read only in the else branch of `m.len() == 3` after .filter(|m| m.len() >= 3), i.e. with at least 4 fields', 'C03.limits')
a(r'confidence::combine::\{closure#0\}\|call:op_trait:sub', 'f32 subtraction (<&f32 as Sub>): floats do not panic')
a(r'BitFlipDetails::confidence\|assert:overflow:Sub', 'dominated by self.nearby_registers > 0, and NEARBY_REGISTER.len() = 4 > 0: min(..) >= 1', 'C19.4')
a(r'BitFlipDetails::confidence\|assert:bounds\|nearby 4', 'nearby = min(n, 4) - 1 <= 3', 'C19.4')
a(r'PossibleBitFlip::calculate_heuristics\|assert:overflow:Add\|self\.details\.nearby_registers 1', 'incremented at most once per valid register of the context (< 64)')
a(r'ProcessState::print_(internal|json)\|call:index:index\|self\.threads requesting_thread', 'requesting_thread is set by the processor to an index of the thread list it built `threads` from (position() over the same list)', 'C14.req')
a(r'ProcessState::print_internal\|assert:overflow:(Add|Sub)\|.*base_address module', 'modules with size 0 or base + size overflowing never enter a module list', 'C08.6')
a(r'ProcessState::print_json::\{closure#1[46]\}\|assert:overflow:Add\|module\.raw\.base_of_image', 'modules with base + size overflowing never enter a module list', 'C08.6')
a(r'ProcessState::print_json\|call:unwrap:unwrap\|\(serde_json::Value::get_mut output "threads"\)', 'output is the json!{} object literal built above, which has the key "threads"', 'C15.1')
a(r'ProcessState::print_json\|call:unwrap:unwrap\|\(serde_json::Value::as_array ', '"threads" is built as a Vec (array)', 'C15.1')
a(r'ProcessState::print_json\|call:index:index\|\(std::option::Option::unwrap \(serde_json::Value::as_array', 'the "threads" array has one element per self.threads entry and requesting_thread indexes self.threads', 'C15.4')
a(r'ProcessState::print_json\|call:unwrap:unwrap\|\(serde_json::Value::as_object_mut (thread|output)\)', 'each thread and the top level are json!{} object literals')
a(r'ProcessState::print_json\|call:unwrap:unwrap\|\(serde_json::Map::get_mut thread_obj "frames"\)', 'every thread object literal has the key "frames"', 'C15.1')
a(r'ProcessState::print_json\|call:unwrap:unwrap\|\(serde_json::Value::as_array_mut', '"frames" is built as a Vec (array)')
a(r'ProcessState::print_json\|call:index:index_mut\|frames 0', 'dominated by `if let Some(f) = self.threads[requesting_thread].frames.first()`; the JSON frames array mirrors that Vec')
a(r'ProcessState::print_json\|call:unwrap:unwrap\|\(serde_json::Value::as_object_mut \(<std::vec::Vec', 'each frame is a json!{} object literal')
a(r'ProcessState::print_json::.*\|call:index_json:index_mut\|map "', 'map is a json!{} object literal; indexing an object with a string key inserts')
a(r'ProcessState::print_json::\{closure#15\}::\{closure#1\}::\{closure#2\}\|assert:overflow:Sub\|frame\.instruction module\.raw\.base_of_image', 'frame.module came from module_at_address(frame.instruction)', 'C05.7')
a(r'ProcessState::print_json::\{closure#15\}::\{closure#1\}::\{closure#4\}\|assert:overflow:Sub\|frame\.instruction func_base', 'function_base was set by fill_symbol from a record covering the address', 'C11.3,C11.3b,C11.4,C11.5')
a(r'PendingProcessorStats::(get_thread_count|get_frame_count|drain_new_frames|take_unwalked_result)\|call:panic:begin_panic', 'documented API-misuse assert (getter used without the matching subscription); the only in-tree caller, minidump-stackwalk, subscribes to frame_count and thread_count before calling get_thread_count / get_frame_count and calls no other getter', 'C20.subscriptions')
a(r'PendingProcessorStats::drain_new_frames\|call:vec_api:drain', 'drain(..) with RangeFull cannot fail')
a(r'PendingProcessorStats::(inc_processed_threads|add_walked_frame)\|assert:overflow:Add', 'u64 progress counter')
a(r'MinidumpInfo::<\'a>::check_for_guard_pages\|assert:overflow:Sub\|range\.end range\.start', 'range is a range_map::Range built by Range::new(start, end) with start <= end')
a(r'MinidumpInfo::<\'a>::check_for_guard_pages::\{closure#0\}\|assert:overflow:Add', 'FIND: range.end + 1 for a region ending at u64::MAX')
a(r'into_process_state::\{closure#0\}\|call:time_arith:add', 'UNIX_EPOCH + Duration::from_secs(u32 as u64): at most 2^32 seconds, far inside SystemTime\'s range on 64-bit platforms')
a(r'into_process_state::\{closure#0\}::\{closure#\d+\}::\{closure#0\}\|assert:overflow:Sub\|frame\.instruction unloaded\.raw\.base_of_image', 'unloaded comes from modules_at_address(frame.instruction), which filters with range.contains', 'C08.5')
a(r'processor::bitflip::try_bit_flips\|assert:overflow:Shl\|1 i', 'i ranges over bit_range.range(), one of the constant ranges 0..64, 0..48, 48..64', 'C19.1')

# ---------------------------------------------------------------- minidump_stackwalk
a(r'Cli as clap::Args>::augment_args(_for_update)?::\{closure#0\}\|call:unwrap:unwrap', 'inside clap\'s derive output: parses the literal default of --verbose ("error"), a valid LevelFilter')
a(r'minidump_stackwalk::main\|call:unwrap:expect', 'ASSUMPTION: building the tokio runtime succeeds (fails only when the OS refuses threads / epoll); start-up, before any input is read')
a(r'minidump_stackwalk::main\|call:block_on:block_on', 'block_on panics only when called from inside a runtime; main is the process entry point')
a(r'main_result::\{closure#0\}\|call:unwrap:expect\|\(minidump_stackwalk::print_help_markdown', 'hidden --help-markdown developer flag: writes clap help to stdout; ASSUMPTION: stdout write errors excluded')
a(r'main_result::\{closure#0\}\|call:panic:panic_fmt\|.*unknown --features value', 'default arm of the --features match: clap\'s value_parser list admits only the handled values', 'C20.1')
a(r'main_result::\{closure#0\}\|call:panic:panic\|"internal error: entered unreachable code"', 'else arm of tokio::select! with two futures that are both matched')
a(r'print_help_markdown\|call:unwrap:unwrap\|\(std::string::String::from_utf8 help_buf\)', 'help_buf holds clap-rendered help text (UTF-8 by construction); developer flag only')
a(r'update_status\|assert:overflow:Mul', 'progress-bar arithmetic on u64 frame / thread counts (bounded by frames actually walked)')
a(r'update_status\|assert:div_zero', 'the division is in the else branch of `t_pending == 0`, so the divisor 20 * t_pending >= 20')
a(r'update_status\|call:unwrap:unwrap\|\(indicatif::ProgressStyle::with_template', 'template string is a literal that indicatif accepts (covered by the interactive CLI tests); interactive mode only')


def main():
    prog = program()
    out = []
    open_sites = []
    finds = []
    seen = {}
    for cn in ['minidump', 'minidump_common', 'breakpad_symbols', 'minidump_unwind', 'minidump_processor', 'minidump_stackwalk']:
        c = prog.crate(cn)
        fns = [f for f in c.fns if not (f.mac and f.mac.startswith('derive('))]
        sites, d = panics.analyse(prog, cn, fns, table={})
        for s in sites:
            if s.verdict is not None:
                continue
            k = s.tkey
            # the patterns were written against the real closure numbers; the frozen keys carry none
            raw = s.fn.qual + k[len(panics.anon_closures(s.fn.qual)):]
            hit = None
            for rx, why, backing in A:
                if rx.search(raw) or rx.search(k):
                    hit = (why, backing)
                    break
            if hit is None:
                open_sites.append(s)
                continue
            if hit[0].startswith('FIND'):
                finds.append((s, hit[0]))
                continue
            items = slices.canon_site_items(s.fn, c, s.trees, s.kind, s.bb)
            dg, hs = slices.digest(items)
            ck = s.ckey
            if ck in seen:
                e = seen[ck]
                if dg not in e['slices']:
                    e['slices'].append(dg)
                    e['slice_items'] = sorted(set(e['slice_items']) | set(hs))
                continue
            e = {'key': ck, 'site': k, 'why': hit[0], 'where': '%s:%d' % (s.fn.file, s.line)}
            if hit[1]:
                e['backing'] = hit[1]
            e['slices'] = [dg]
            e['slice_items'] = hs
            seen[ck] = e
            out.append(e)
    with open(os.path.join(HERE, 'panic_table.json'), 'w') as fh:
        json.dump({'entries': out}, fh, indent=0)
        fh.write('\n')
    print('table entries: %d   suspected findings: %d   unannotated: %d' % (len(out), len(finds), len(open_sites)))
    for s, w in finds:
        print('  FIND %s:%d %s  -- %s' % (s.fn.file, s.line, s.key, w))
    for s in open_sites:
        print('  OPEN %s:%d %s' % (s.fn.file, s.line, s.key[:300]))


if __name__ == '__main__':
    main()
