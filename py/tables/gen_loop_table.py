#!/usr/bin/env python3
"""Regenerates tables/loop_table.json (variants of hand-written loops), same scheme as
gen_panic_table.py: patterns are a reviewing aid, the check reads frozen exact keys."""
import json, os, re, sys
HERE = os.path.dirname(os.path.abspath(__file__))
sys.path.insert(0, os.path.dirname(HERE))
from rules.common import *
import flow, panics, slices

A = []
# backing rules that decide the loop's termination semantically on every run: such an entry needs no frozen slice
DECIDED_BY_MODEL = {'C09.5'}


def a(rx, variant, backing=None):
    A.append((re.compile(rx), variant, backing))


a(r'minidump::minidump::read_cstring_utf8\|loop', 'each iteration performs a gread of one u8 that advances *offset by 1 and leaves the loop (ok()?) when offset reaches bytes.len()')
a(r'MinidumpHandleDescriptor as scroll::ctx::TryFromCtx.*\|loop\|.*HashSet::insert seen_rvas object_info_rva', 'every iteration inserts a not-yet-seen u32 RVA into seen_rvas (the loop exits when insert() returns false) and needs a successful pread at that RVA, so iterations <= number of distinct readable offsets <= file length')
a(r'MinidumpHandleDescriptor as scroll::ctx::TryFromCtx.*\|loop\|\(Ne object_info_rva 0\)', 'FIND: follows next_info_rva links with no visited set or budget: a self-referential link never terminates and grows a Vec')
a(r'minidump::context::print_generic_context\|loop', 'for-loop over CpuRegisters, whose next() consumes exactly one item of a slice::Iter over REGISTERS or of a hash_set::Iter over the validity set (both finite) per call and returns None when that is exhausted')
a(r'minidump::minidump::MinidumpMiscInfo::print\|loop\|\(discr \(<minidump_common::format::XstateFeatureIter', 'for-loop over XstateFeatureIter, whose next() strictly increases self.idx on every call and returns None once idx reaches features.len() (= 64)')
a(r'XstateFeatureIter<\'_> as std::iter::Iterator>::next\|loop', 'while self.idx < features.len(): self.idx += 1 on every iteration')
a(r'breakpad_symbols::http::fetch_lookup::\{closure#0\}\|loop', 'awaits res.chunk() until the HTTP body ends (Ok(None)) or a chunk / write fails; termination is the response stream\'s (trusted: reqwest), every iteration consumes one chunk')
a(r'breakpad_symbols::lookup_leafname\|loop', 'while the leaf starts with `<letter>:`: leaf = &leaf[2..], so leaf.len() drops by 2 on every iteration and the loop is left when len < 2 at the latest')
a(r'sym_file::parser::SymbolParser::parse_more\|loop', 'every `continue` first advances `input` past at least one byte of a parsed line (nom consumed it) or clears cur_item (which can happen once per item); the loop ends when input is empty')
a(r'SymbolFile>::parse\|loop', 'lexicographic: (bytes the reader can still deliver, bytes in the buffer, tried_to_grow / in_panic_recovery flags): an iteration reads >= 1 byte, or consumes >= 1 byte, or flips one of the monotone flags, or returns. Decided on every run by the boolean abstraction C09.5 (no slice hash: the model, not a frozen body, carries the argument)', 'C09.5')
a(r'SymbolFile>::parse_async::\{closure#0\}\|loop', 'same state machine as parse (C10.3 twin rule); chunks come from the HTTP response stream. Decided on every run by the boolean abstraction C09.5', 'C09.5')
a(r'SymbolFile>::fill_symbol\|loop', 'for depth in 1..: leaves the loop as soon as get_inlinee_at_depth(depth, addr) is None; every depth that continues is witnessed by a distinct INLINE record of that depth, so iterations <= number of inlinee records + 1')
a(r'SymbolFile>::walk_frame::\{closure#0\}\|loop', 'while count < len: count += 1 on every iteration')
a(r'minidump_stackwalk::main_result::\{closure#0\}::\{closure#3\}::\{closure#0\}\|loop', 'intentionally endless UI-refresh future (`update_state`): every iteration awaits a 500 ms sleep; it is raced by tokio::select! against process_minidump_with_options and dropped when that completes (the other select arm is unreachable!())', 'C20.select')
a(r'minidump_unwind::walk_stack::\{closure#0\}::\{closure#0\}\|loop', 'one frame per iteration; between consecutive frames the stack pointer (a u64) strictly increases, with at most one equal-sp step after the context frame (C05.2), so the walk is finite. That the number of frames is also bounded by the stack size is a separate clause, checked by C03.3', 'C05.2')


def main():
    prog = program()
    out = []
    lm = panics.local_macros(harness.REPO)
    for cn in ['minidump', 'minidump_common', 'breakpad_symbols', 'minidump_unwind', 'minidump_processor', 'minidump_stackwalk']:
        for f in prog.crate(cn).fns:
            if f.mac and f.mac.startswith('derive('):
                continue
            for lp in flow.classify_loops(f):
                if lp.cls != 'L3':
                    continue
                ch = [m.replace('$crate::', '') for m in mac_chain(f.blocks[lp.header]['t'])]
                if ch and ch[0].split('::')[-1] not in panics.STD_MACROS and ch[0].split('::')[-1] not in lm:
                    continue
                k = flow.loop_key(lp)
                raw = f.qual + k[len(panics.anon_closures(f.qual)):]
                hit = None
                for rx, v, b in A:
                    if rx.search(raw) or rx.search(k):
                        hit = (v, b)
                        break
                if hit is None:
                    print('OPEN', f.file, lp.line, k[:300])
                elif hit[0].startswith('FIND'):
                    print('FIND', f.file, lp.line, k[:200])
                else:
                    e = {'key': slices.canon_loop_key(f, lp.exits), 'loop': k, 'variant': hit[0], 'where': '%s:%d' % (f.file, lp.line)}
                    if hit[1]:
                        e['backing'] = hit[1]
                    if hit[1] not in DECIDED_BY_MODEL:
                        dg, hs = slices.digest(slices.canon_loop_items(f, prog.crate(cn), sorted(lp.body)))
                        e['slices'] = [dg]
                        e['slice_items'] = hs
                    out.append(e)
    with open(os.path.join(HERE, 'loop_table.json'), 'w') as fh:
        json.dump({'entries': out}, fh, indent=0)
        fh.write('\n')
    print('loop table entries:', len(out))


if __name__ == '__main__':
    main()
