"""mirq: query layer over the JSON facts written by engines/mirfacts.

Provides, per function and lazily: CFG without unwind edges, dominators and
post-dominators, natural loops, definitions per local, and *expression trees*
(the value of an operand reconstructed by following single-definition
temporaries).  Nothing here executes code of the analysed program.
"""
import json, os, pickle, re, sys
from collections import defaultdict

INT_RANGES = {
    'u8': (0, 2**8 - 1), 'u16': (0, 2**16 - 1), 'u32': (0, 2**32 - 1), 'u64': (0, 2**64 - 1),
    'u128': (0, 2**128 - 1), 'usize': (0, 2**64 - 1),
    'i8': (-2**7, 2**7 - 1), 'i16': (-2**15, 2**15 - 1), 'i32': (-2**31, 2**31 - 1),
    'i64': (-2**63, 2**63 - 1), 'i128': (-2**127, 2**127 - 1), 'isize': (-2**63, 2**63 - 1),
    'bool': (0, 1), 'char': (0, 0x10FFFF),
}


def strip_generics(path):
    """`std::option::Option::<T>::unwrap` -> `std::option::Option::unwrap`;
    `<T as Trait>::f` forms are left alone except for nested generic args."""
    out = []
    depth = 0
    i = 0
    n = len(path)
    while i < n:
        c = path[i]
        if c == ':' and path.startswith('::<', i):
            # skip ::<...>
            j = i + 3
            d = 1
            while j < n and d > 0:
                if path[j] == '<':
                    d += 1
                elif path[j] == '>':
                    if path[j - 1] != '-':
                        d -= 1
                j += 1
            i = j
            continue
        out.append(c)
        i += 1
    return ''.join(out)


class Fn:
    def __init__(self, crate, raw):
        self.crate = crate
        self.raw = raw
        self.path = raw['path']
        self.qual = raw['path']
        self.kind = raw['kind']
        self.file = raw.get('file', '?')
        self.line = raw.get('line', 0)
        self.end = raw.get('end', 0)
        self.mac = raw.get('mac')
        self.root = raw.get('root')
        self.blocks = raw['blocks']
        self.locals = raw['locals']
        self.argc = raw.get('argc', 0)
        self._cfg = None
        self._dom = None
        self._pdom = None
        self._defs = None
        self._names = None

    # ------------------------------------------------------------- names
    @property
    def names(self):
        if self._names is None:
            nm = {}
            up = {}
            for v in self.raw.get('vars', []):
                p = v['p']
                proj = p.get('p')
                if v.get('ds'):
                    continue  # introduced by a desugaring (`?`, `for`, `.await`): a temporary
                if not proj:
                    nm.setdefault(p['l'], v['name'])
                else:
                    # captured variable of a closure / coroutine: _1.f or (*_1).f
                    fs = [e for e in proj if isinstance(e, dict) and 'f' in e]
                    if p['l'] == 1 and len(fs) == 1:
                        up.setdefault(fs[0]['f'], v['name'])
            self._names = (nm, up)
        return self._names

    def local_name(self, l):
        return self.names[0].get(l)

    def local_ty(self, l):
        return self.locals[l]['ty']

    def is_user(self, l):
        return bool(self.locals[l].get('user')) or l in self.names[0]

    # ------------------------------------------------------------- CFG
    def term(self, b):
        return self.blocks[b]['t']

    def succs_of_term(self, t, blk=None):
        k = t['k']
        if k == 'goto':
            return [t['t']]
        if k == 'switch':
            x = t['x']
            if 'k' not in x and blk is not None:
                # `_4 = const false; switchInt(move _4)` in the same block
                p = x.get('c') or x.get('m')
                if p is not None and not p.get('p'):
                    for st in reversed(blk['s']):
                        if st['k'] == 'assign' and st['lhs']['l'] == p['l'] and not st['lhs'].get('p'):
                            rv = st['rv']
                            if rv['k'] == 'use' and 'k' in rv['x'] and 'int' in rv['x']['k']:
                                x = rv['x']
                            break
            if 'k' in x and 'int' in x['k']:
                # `if false {..}` (type-hint blocks of attribute macros): only the taken edge exists
                v = x['k']['int']
                for val, tgt in t['ts']:
                    if val == v:
                        return [tgt]
                return [t['o']]
            return [x[1] for x in t['ts']] + [t['o']]
        if k in ('call', 'drop', 'assert'):
            return [t['t']] if 't' in t else []
        if k == 'yield':
            return [t['t']]
        if k == 'asm':
            return list(t.get('ts', []))
        return []

    @property
    def cfg(self):
        if self._cfg is None:
            n = len(self.blocks)
            succ = [[] for _ in range(n)]
            pred = [[] for _ in range(n)]
            for b in range(n):
                if self.blocks[b].get('cleanup'):
                    continue
                seen = set()
                for s in self.succs_of_term(self.term(b), self.blocks[b]):
                    if s in seen:
                        continue
                    seen.add(s)
                    succ[b].append(s)
                    pred[s].append(b)
            # reachable set
            reach = set()
            st = [0]
            while st:
                x = st.pop()
                if x in reach:
                    continue
                reach.add(x)
                st.extend(succ[x])
            self._cfg = (succ, pred, reach)
        return self._cfg

    @property
    def succ(self):
        return self.cfg[0]

    @property
    def pred(self):
        return self.cfg[1]

    @property
    def reach(self):
        return self.cfg[2]

    def rpo(self):
        succ = self.succ
        seen = set()
        order = []
        st = [(0, iter(succ[0]))]
        seen.add(0)
        while st:
            b, it = st[-1]
            adv = False
            for s in it:
                if s not in seen:
                    seen.add(s)
                    st.append((s, iter(succ[s])))
                    adv = True
                    break
            if not adv:
                order.append(b)
                st.pop()
        order.reverse()
        return order

    @property
    def idom(self):
        """immediate dominators (Cooper-Harvey-Kennedy)."""
        if self._dom is None:
            order = self.rpo()
            idx = {b: i for i, b in enumerate(order)}
            idom = {0: 0}
            pred = self.pred
            changed = True
            while changed:
                changed = False
                for b in order[1:]:
                    ps = [p for p in pred[b] if p in idom]
                    if not ps:
                        continue
                    new = ps[0]
                    for p in ps[1:]:
                        a, c = p, new
                        while a != c:
                            while idx[a] > idx[c]:
                                a = idom[a]
                            while idx[c] > idx[a]:
                                c = idom[c]
                        new = a
                    if idom.get(b) != new:
                        idom[b] = new
                        changed = True
            self._dom = idom
        return self._dom

    def dominates(self, a, b):
        """block a dominates block b"""
        idom = self.idom
        if b not in idom or a not in idom:
            return False
        x = b
        while True:
            if x == a:
                return True
            if x == 0:
                return False
            x = idom[x]

    def dom_chain(self, b):
        idom = self.idom
        out = []
        if b not in idom:
            return out
        x = b
        while True:
            out.append(x)
            if x == 0:
                break
            x = idom[x]
        return out

    @property
    def ipdom(self):
        """immediate post-dominators w.r.t. a virtual exit joined to every block
        without successors (return, unreachable, diverging call)."""
        if self._pdom is None:
            succ, pred, reach = self.cfg
            EXIT = -1
            rsucc = defaultdict(list)  # reversed graph: succ in reverse = preds
            rpred = defaultdict(list)
            for b in reach:
                if not succ[b]:
                    if self.blocks[b]['t']['k'] == 'unreachable':
                        continue  # never executed: not an exit
                    rsucc[EXIT].append(b)
                    rpred[b].append(EXIT)
                for s in succ[b]:
                    rsucc[s].append(b)
                    rpred[b].append(s)
            # rpo on reversed graph from EXIT
            seen = {EXIT}
            order = []
            st = [(EXIT, iter(rsucc[EXIT]))]
            while st:
                b, it = st[-1]
                adv = False
                for s in it:
                    if s not in seen:
                        seen.add(s)
                        st.append((s, iter(rsucc[s])))
                        adv = True
                        break
                if not adv:
                    order.append(b)
                    st.pop()
            order.reverse()
            idx = {b: i for i, b in enumerate(order)}
            ip = {EXIT: EXIT}
            changed = True
            while changed:
                changed = False
                for b in order[1:]:
                    ps = [p for p in rpred[b] if p in ip]
                    if not ps:
                        continue
                    new = ps[0]
                    for p in ps[1:]:
                        a, c = p, new
                        while a != c:
                            while idx[a] > idx[c]:
                                a = ip[a]
                            while idx[c] > idx[a]:
                                c = ip[c]
                        new = a
                    if ip.get(b) != new:
                        ip[b] = new
                        changed = True
            self._pdom = ip
        return self._pdom

    def postdominates(self, a, b):
        """block a post-dominates block b (every path from b to exit passes a)"""
        ip = self.ipdom
        if b not in ip:
            return False
        x = b
        while True:
            if x == a:
                return True
            if x == -1:
                return False
            x = ip[x]

    def reachable_from(self, start, avoid=()):
        succ = self.succ
        seen = set()
        st = [start] if not isinstance(start, (list, set, tuple)) else list(start)
        av = set(avoid)
        while st:
            x = st.pop()
            if x in seen or x in av:
                continue
            seen.add(x)
            st.extend(succ[x])
        return seen

    def can_reach(self, target, avoid=()):
        pred = self.pred
        seen = set()
        st = [target]
        av = set(avoid)
        while st:
            x = st.pop()
            if x in seen or x in av:
                continue
            seen.add(x)
            st.extend(pred[x])
        return seen

    def back_edges(self):
        out = []
        for b in self.reach:
            for s in self.succ[b]:
                if self.dominates(s, b):
                    out.append((b, s))
        return out

    def loops(self):
        """natural loops: header -> set of blocks"""
        loops = {}
        for (b, h) in self.back_edges():
            body = loops.setdefault(h, {h})
            st = [b]
            while st:
                x = st.pop()
                if x in body:
                    continue
                body.add(x)
                st.extend(self.pred[x])
        return loops

    # ------------------------------------------------------------- defs
    @property
    def defs(self):
        """local -> list of definition records.
        record = dict(bb, idx ('t' for terminator), kind: 'assign'|'call'|'yield'|'part'|'arg',
                      rv / term)"""
        if self._defs is None:
            d = defaultdict(list)
            mutb = set()
            for l in range(1, self.argc + 1):
                d[l].append({'bb': -1, 'idx': 0, 'kind': 'arg'})
            for b in sorted(self.reach):
                blk = self.blocks[b]
                for i, s in enumerate(blk['s']):
                    if s['k'] == 'assign':
                        lhs = s['lhs']
                        if lhs.get('p'):
                            d[lhs['l']].append({'bb': b, 'idx': i, 'kind': 'part', 'st': s})
                        else:
                            d[lhs['l']].append({'bb': b, 'idx': i, 'kind': 'assign', 'rv': s['rv'], 'st': s})
                        rv = s['rv']
                        if rv['k'] == 'ref' and rv.get('mut') and not _has_deref(rv['p']):
                            mutb.add(rv['p']['l'])
                        if rv['k'] == 'rawptr' and not _has_deref(rv['p']):
                            mutb.add(rv['p']['l'])
                    elif s['k'] == 'setdiscr':
                        d[s['lhs']['l']].append({'bb': b, 'idx': i, 'kind': 'part', 'st': s})
                t = blk['t']
                if t['k'] == 'call':
                    dest = t['dest']
                    if dest.get('p'):
                        d[dest['l']].append({'bb': b, 'idx': 't', 'kind': 'part', 'term': t})
                    else:
                        d[dest['l']].append({'bb': b, 'idx': 't', 'kind': 'call', 'term': t})
            self._defs = (d, mutb)
        return self._defs[0]

    @property
    def mut_borrowed(self):
        self.defs
        return self._defs[1]

    def single_def(self, l):
        ds = self.defs.get(l, [])
        if len(ds) == 1 and ds[0]['kind'] in ('assign', 'call'):
            return ds[0]
        return None

    # ------------------------------------------------------------- expression trees
    def place_tree(self, p, depth=0, inline_user=False, seen=None):
        l = p['l']
        proj = p.get('p') or []
        base = self.local_tree(l, depth, inline_user, seen)
        for e in proj:
            if e == '*':
                continue  # references are transparent
            if e in ('opaque', 'unbind'):
                continue
            if 'f' in e:
                nm = e.get('n')
                if nm is None:
                    # upvar of closure?
                    if base == ('var', '_1', 1) or base == ('arg', 1):
                        up = self.names[1].get(e['f'])
                        if up is not None:
                            base = ('var', up, 'up%d' % e['f'])
                            continue
                    nm = str(e['f'])
                if base[0] == 'bin' and base[1].endswith('WithOverflow'):
                    # (_t = a +? b).0 is the arithmetic result, .1 the overflow flag
                    base = ('bin', base[1][:-len('WithOverflow')], base[2], base[3]) if nm == '0' else ('overflowed', base)
                elif base[0] == 'as':
                    # (field (as Variant x) 0) -> (Variant.0 x)
                    base = ('vfield', base[1], nm, base[2])
                else:
                    base = ('field', base, nm)
            elif 'i' in e:
                base = ('index', base, self.local_tree(e['i'], depth + 1, inline_user, seen))
            elif 'ci' in e:
                base = ('index', base, ('int', -e['ci'] - 1 if e.get('fe') else e['ci']))
            elif 'sub' in e:
                base = ('subslice', base, e['sub'][0], e['sub'][1], bool(e.get('fe')))
            elif 'dc' in e:
                base = ('as', e['dc'], base)
        return base

    def local_tree(self, l, depth=0, inline_user=False, seen=None):
        if seen is None:
            seen = frozenset()
        name = self.local_name(l)
        user = name is not None
        if user and not inline_user:
            return ('var', name, l)
        if depth > 14 or l in seen:
            return ('var', name or '_%d' % l, l)
        sd = self.single_def(l)
        if sd is None or l in self.mut_borrowed and not _is_ref_ty(self.local_ty(l)):
            if l <= self.argc and l > 0:
                return ('var', name, l) if name else ('arg', l)
            return ('var', name or '_%d' % l, l)
        seen = seen | {l}
        if sd['kind'] == 'assign':
            return self.rvalue_tree(sd['rv'], depth + 1, inline_user, seen)
        t = sd['term']
        return self.call_tree(t, depth + 1, inline_user, seen)

    def call_tree(self, t, depth=0, inline_user=False, seen=None):
        if 'fn' in t:
            name = strip_generics(t['fn'])
            if 'layout' in t:
                return ('int', t['layout'])
        else:
            name = 'fnptr'
        args = tuple(self.operand_tree(a, depth + 1, inline_user, seen) for a in t['args'])
        # `?` : Try::branch(x) — normalised to (try x)
        if name.endswith('::branch') and 'Try' in t.get('decl', t.get('fn', '')):
            return ('trybranch',) + args
        return ('call', name) + args

    def operand_tree(self, o, depth=0, inline_user=False, seen=None):
        if 'k' in o:
            c = o['k']
            if 'int' in c:
                return ('int', c['int'])
            if 'str' in c:
                return ('str', c['str'])
            if 'fn' in c:
                return ('fnref', strip_generics(c['fn']))
            if 'item' in c:
                return ('item', c['item'])
            if 'static' in c:
                return ('item', c['static'])
            if 'float' in c:
                return ('float', c['float'])
            if 'bytes' in c:
                return ('bytes', tuple(c['bytes']))
            return ('const', c.get('ty', '?'))
        p = o.get('c') or o.get('m')
        return self.place_tree(p, depth, inline_user, seen)

    def rvalue_tree(self, rv, depth=0, inline_user=False, seen=None):
        k = rv['k']
        if k == 'use':
            return self.operand_tree(rv['x'], depth, inline_user, seen)
        if k in ('ref', 'rawptr'):
            return self.place_tree(rv['p'], depth, inline_user, seen)
        if k == 'cast':
            ck = rv['ck']
            x = self.operand_tree(rv['x'], depth, inline_user, seen)
            if ck.startswith('Coerce') or ck in ('PtrToPtr', 'Transmute') and False:
                return x
            if ck == 'IntToInt' or ck.startswith('Float') or ck == 'IntToFloat':
                return ('cast', rv['to'], x, rv['from'])
            return x
        if k == 'bin':
            op = rv['op']
            l = self.operand_tree(rv['l'], depth, inline_user, seen)
            r = self.operand_tree(rv['r'], depth, inline_user, seen)
            return ('bin', op, l, r)
        if k == 'un':
            x = self.operand_tree(rv['x'], depth, inline_user, seen)
            if rv['op'] == 'PtrMetadata':
                return ('len', x)
            return ('un', rv['op'], x)
        if k == 'discr':
            return ('discr', self.place_tree(rv['p'], depth, inline_user, seen))
        if k == 'agg':
            xs = tuple(self.operand_tree(x, depth + 1, inline_user, seen) for x in rv['xs'])
            ak = rv['ak']
            if ak == 'adt':
                return ('adt', rv['adt'] + '::' + rv['variant']) + xs
            if ak in ('closure', 'coroutine', 'coroutine_closure'):
                return (ak, rv['def']) + xs
            return (ak,) + xs
        if k == 'repeat':
            return ('repeat', self.operand_tree(rv['x'], depth, inline_user, seen), rv.get('n'))
        if k == 'tls':
            return ('tls', rv['item'])
        return ('rv', k)

    def expand(self, tree, depth=0):
        """inline single-definition user variables (recursively) into a tree"""
        if not isinstance(tree, tuple) or not tree:
            return tree
        if tree[0] == 'var' and isinstance(tree[2], int) and depth < 10:
            l = tree[2]
            sd = self.single_def(l)
            if sd is not None and not (l in self.mut_borrowed and not _is_ref_ty(self.local_ty(l))):
                if sd['kind'] == 'assign':
                    t2 = self.rvalue_tree(sd['rv'])
                else:
                    t2 = self.call_tree(sd['term'])
                return self.expand(t2, depth + 1)
            return tree
        if tree[0] in ('int', 'str', 'item', 'fnref', 'float', 'const', 'arg', 'var'):
            return tree
        return tuple([tree[0]] + [self.expand(x, depth) if isinstance(x, tuple) else x for x in tree[1:]])

    # convenience -------------------------------------------------
    def calls(self):
        """yield (bb, term) for every call terminator in reachable non-cleanup blocks"""
        for b in sorted(self.reach):
            t = self.blocks[b]['t']
            if t['k'] == 'call':
                yield b, t

    def callee(self, t):
        """qualified, generics-stripped callee name"""
        if 'fn' not in t:
            return 'fnptr'
        return strip_generics(t['fn'])

    def callee_decl(self, t):
        d = t.get('decl')
        if d is None:
            return self.callee(t)
        return strip_generics(d)


def _has_deref(p):
    return any(e == '*' for e in (p.get('p') or []))


def _is_ref_ty(ty):
    return ty.startswith('&')


def show(tree):
    """canonical S-expression of a tree"""
    if isinstance(tree, tuple):
        if not tree:
            return '()'
        h = tree[0]
        if h == 'int':
            return str(tree[1])
        if h == 'str':
            return json.dumps(tree[1])
        if h == 'var':
            return str(tree[1])
        if h == 'arg':
            return '_%d' % tree[1]
        if h == 'field':
            return show(tree[1]) + '.' + str(tree[2])
        if h == 'vfield':
            return '(%s.%s %s)' % (tree[1], tree[2], show(tree[3]))
        if h == 'bin':
            return '(%s %s %s)' % (tree[1], show(tree[2]), show(tree[3]))
        if h == 'call':
            return '(' + ' '.join([short_fn(tree[1])] + [show(x) for x in tree[2:]]) + ')'
        if h == 'cast':
            return '(cast %s %s)' % (tree[1], show(tree[2]))
        return '(' + ' '.join(show(x) for x in tree) + ')'
    return str(tree)


def short_fn(name):
    return name


def walk(tree):
    """pre-order iteration over all sub-trees"""
    yield tree
    if isinstance(tree, tuple):
        for x in tree[1:]:
            if isinstance(x, tuple):
                yield from walk(x)


def leaves_vars(tree):
    out = set()
    for t in walk(tree):
        if isinstance(t, tuple) and t and t[0] in ('var', 'arg'):
            out.add(t)
    return out


class Crate:
    def __init__(self, raw):
        self.raw = raw
        self.name = raw['crate']
        self.kind = raw['kind']
        self.fns = [Fn(self.name, f) for f in raw['fns']]
        self.by_path = {}
        for f in self.fns:
            self.by_path.setdefault(f.path, f)
        self.adts = {a['path']: a for a in raw['adts']}
        self.impls = raw['impls']
        self.consts = {c['path']: c for c in raw['consts']}
        for st in raw.get('statics', []):
            self.consts.setdefault(st['path'], st)

    def fn(self, path):
        return self.by_path.get(path) or self.by_path.get(self.name + '::' + path)

    def find(self, pattern):
        r = re.compile(pattern)
        return [f for f in self.fns if r.search(f.path)]


class Program:
    """all fact files of one configuration"""

    def __init__(self, factdir):
        self.dir = factdir
        self.crates = {}

    def crate(self, name):
        if name not in self.crates:
            cands = [f for f in os.listdir(self.dir) if f.startswith(name + '.') and f.endswith('.json')]
            if not cands:
                raise FileNotFoundError('no fact file for crate %s in %s' % (name, self.dir))
            p = os.path.join(self.dir, cands[0])
            pk = p[:-5] + '.pickle'
            raw = None
            if os.path.exists(pk) and os.path.getmtime(pk) >= os.path.getmtime(p):
                try:
                    with open(pk, 'rb') as fh:
                        raw = pickle.load(fh)
                except Exception:
                    raw = None
            if raw is None:
                with open(p) as fh:
                    raw = json.load(fh)
                try:
                    tmp = pk + '.%d' % os.getpid()
                    with open(tmp, 'wb') as fh:
                        pickle.dump(raw, fh, protocol=pickle.HIGHEST_PROTOCOL)
                    os.replace(tmp, pk)
                except Exception:
                    pass
            self.crates[name] = Crate(raw)
        return self.crates[name]

    def all_fns(self, crates):
        for c in crates:
            for f in self.crate(c).fns:
                yield f

    def const_int(self, item_path, crate_hint=None):
        """value of an integer const item referenced as {'item': path}"""
        names = [crate_hint] if crate_hint else []
        names += list(self.crates.keys())
        for n in names:
            if n is None:
                continue
            c = self.crate(n)
            if item_path in c.consts:
                return c.consts[item_path].get('int')
        return None


WORKSPACE_CRATES = ['breakpad_symbols', 'minidump', 'minidump_common', 'minidump_processor',
                    'minidump_stackwalk', 'minidump_synth', 'minidump_unwind']


# ------------------------------------------------------------------ CLI for exploration
def _fmt_op(fn, o):
    return show(fn.operand_tree(o))


def dump_fn(fn, out=sys.stdout):
    out.write('fn %s  [%s] %s:%d-%d\n' % (fn.qual, fn.kind, fn.file, fn.line, fn.end))
    for b in sorted(fn.reach):
        blk = fn.blocks[b]
        out.write('  bb%d:\n' % b)
        for s in blk['s']:
            if s['k'] == 'assign':
                lhs = s['lhs']
                nm = fn.local_name(lhs['l'])
                if nm is None and lhs['l'] != 0 and not lhs.get('p') and fn.single_def(lhs['l']) is not None:
                    continue  # temp inlined elsewhere
                out.write('    %s = %s   @%d %s\n' % (show(fn.place_tree(lhs)), show(fn.rvalue_tree(s['rv'])), s.get('line', 0), s.get('mac') or ''))
        t = blk['t']
        k = t['k']
        if k == 'call':
            d = t['dest']
            ds = fn.local_name(d['l']) or '_%d' % d['l']
            out.write('    %s%s = %s -> bb%s   @%d %s\n' % (ds, '.<proj>' if d.get('p') else '', show(fn.call_tree(t)), t.get('t'), t.get('line', 0), t.get('mac') or t.get('ds') or ''))
        elif k == 'switch':
            out.write('    switch %s : %s else bb%d   @%d\n' % (_fmt_op(fn, t['x']), t['ts'], t['o'], t.get('line', 0)))
        elif k == 'assert':
            out.write('    assert[%s] %s -> bb%d  @%d %s\n' % (t['ak'], ' '.join('%s=%s' % (kk, _fmt_op(fn, t[kk])) for kk in ('l', 'r', 'len', 'idx') if kk in t) + (' op=' + t['op'] if 'op' in t else ''), t['t'], t.get('line', 0), t.get('mac') or ''))
        elif k == 'drop':
            out.write('    drop %s -> bb%d\n' % (show(fn.place_tree(t['p'])), t['t']))
        elif k == 'yield':
            out.write('    yield -> bb%d\n' % t['t'])
        else:
            out.write('    %s %s\n' % (k, t.get('t', '')))


if __name__ == '__main__':
    factdir, crate, pat = sys.argv[1], sys.argv[2], sys.argv[3]
    prog = Program(factdir)
    for f in prog.crate(crate).find(pat):
        dump_fn(f)


# ------------------------------------------------------------------ path-sensitive exploration
LOG_MACROS = ('trace!', 'debug!', 'info!', 'warn!', 'error!', 'event!', 'span!', 'log!',
              'trace_span!', 'debug_span!', 'info_span!', 'warn_span!', 'error_span!')


def mac_chain(t):
    m = t.get('macs')
    if m:
        return m.split('>')
    m = t.get('mac')
    return [m] if m else []


def is_log_term(t):
    """the statement / terminator comes out of a tracing / log macro expansion (directly or
    through a local macro that expands to one)"""
    for m in mac_chain(t):
        if m.split('::')[-1] in LOG_MACROS:
            return True
    return False


def subst(tree, env):
    """replace ('var', n) leaves by env[n] when present"""
    if not isinstance(tree, tuple) or not tree:
        return tree
    if tree[0] == 'var' and tree[2] in env:
        return env[tree[2]]
    if tree[0] in ('int', 'str', 'item', 'fnref', 'float', 'const', 'arg'):
        return tree
    return tuple([tree[0]] + [subst(x, env) if isinstance(x, tuple) else x for x in tree[1:]])


def fold_const(t):
    """constant-fold boolean negation / comparisons of integer literals"""
    if not isinstance(t, tuple) or not t:
        return t
    if t[0] == 'un' and t[1] == 'Not':
        x = fold_const(t[2])
        if x[0] == 'int' and x[1] in (0, 1):
            return ('int', 1 - x[1])
        return ('un', 'Not', x)
    if t[0] == 'bin' and t[1] in ('Eq', 'Ne') and t[2][0] == 'int' and t[3][0] == 'int':
        return ('int', int((t[2][1] == t[3][1]) == (t[1] == 'Eq')))
    return t


class PathExplorer:
    """Path-sensitive forward exploration of one function's CFG.

    A state is (block, facts, env): `facts` is the set of branch decisions taken
    so far ((condition tree, value) pairs, value = the switch value or
    ('not', v1, v2, ..) for the otherwise edge) and `env` maps each *tracked*
    user variable (several definitions, mentioned in a kept condition) to the
    tree of its latest definition on this path.  States are merged when equal.
    Branches inside logging macros and `.await` polling are not recorded, so
    diamonds made by them re-converge.  No values are computed and no solver
    is involved: conditions are compared structurally."""

    def __init__(self, fn, keep=None, max_states=60000, track=None):
        self.fn = fn
        self.keep = keep
        self.max_states = max_states
        self.states = defaultdict(set)   # block -> set of (facts, env)
        self.truncated = False
        self.track_all = track == 'all'
        self.track = set() if self.track_all else set(track or [])
        self._find_tracked()

    def _find_tracked(self):
        fn = self.fn
        multi = set()
        for l, ds in fn.defs.items():
            nm = fn.local_name(l)
            if nm is not None and nm.startswith('_'):
                continue
            if nm is None and fn.local_ty(l) != 'bool':
                continue  # unnamed: only the bool temporaries of `matches!` / `&&` / `||`
            real = [d for d in ds if d['kind'] in ('assign', 'call')]
            if len(real) > 1:
                multi.add(l)
        used = set()
        for b in fn.reach:
            t = fn.blocks[b]['t']
            if t['k'] == 'switch' and not is_log_term(t):
                tr = fn.operand_tree(t['x'])
                for v in leaves_vars(tr):
                    if v[0] == 'var':
                        used.add(v[2])
        self.tracked = (multi & used) | (self.track & multi)
        if self.track_all:
            # reaching definitions for every named local and every local with several definitions: the tree of a
            # definition is taken with the definitions that reach *it* substituted in (no values are computed)
            allv = set()
            for l, ds in fn.defs.items():
                real = [d for d in ds if d['kind'] in ('assign', 'call')]
                if not real:
                    continue
                if fn.local_name(l) is not None or len(real) > 1:
                    allv.add(l)
            self.tracked = allv

    def run(self, start=0):
        fn = self.fn
        init = (frozenset(), frozenset())
        work = [(start, init)]
        self.states[start].add(init)
        n = 0
        while work:
            b, st = work.pop()
            n += 1
            if n > self.max_states:
                self.truncated = True
                break
            for (s, st2) in self.step(b, st):
                if st2 not in self.states[s]:
                    self.states[s].add(st2)
                    work.append((s, st2))
        return self

    def env_at_term(self, b, env):
        """states are recorded at block entry: the definitions reaching the block's terminator"""
        fn = self.fn
        envd = dict(env)
        for s in fn.blocks[b]['s']:
            if s['k'] == 'assign' and not s['lhs'].get('p'):
                nm = s['lhs']['l']
                if nm in self.tracked and not (self.track_all and is_log_term(s)):
                    envd[nm] = subst(fn.rvalue_tree(s['rv']), envd)
        return envd

    def step(self, b, st):
        fn = self.fn
        facts, env = st
        envd = dict(env)
        blk = fn.blocks[b]
        changed = False
        for s in blk['s']:
            if s['k'] == 'assign' and not s['lhs'].get('p'):
                nm = s['lhs']['l']
                if nm in self.tracked and not (self.track_all and is_log_term(s)):
                    envd[nm] = subst(fn.rvalue_tree(s['rv']), envd)
                    changed = True
        t = blk['t']
        k = t['k']
        if k == 'call' and not t['dest'].get('p'):
            nm = t['dest']['l']
            if nm in self.tracked and not (self.track_all and is_log_term(t)):
                envd[nm] = subst(fn.call_tree(t), envd)
                changed = True
        env2 = frozenset(envd.items()) if changed else env
        if k == 'switch':
            record = not is_log_term(t) and t.get('ds') != 'Await'
            cond = None
            if record:
                cond = fold_const(subst(fn.operand_tree(t['x']), envd))
                if self.keep is not None and cond[0] != 'int' and not self.keep(cond):
                    record = False
            out = []
            vals = [v for v, _ in t['ts']]
            isbool = t.get('ty') == 'bool'

            def enc(v):
                return bool(v) if isbool else v

            def known(c):
                # value already decided for this condition on this path (int or bool), else None
                for f in facts:
                    if f[0] == c and not isinstance(f[1], tuple):
                        return int(f[1])
                return None
            for v, s in t['ts']:
                if record:
                    if cond[0] == 'int' and cond[1] != v:
                        continue  # infeasible by constant folding
                    kv = known(cond)
                    if kv is not None and kv != v:
                        continue
                    if any(f[0] == cond and isinstance(f[1], tuple) and v in f[1][1:] for f in facts):
                        continue
                    out.append((s, (facts | {(cond, enc(v))}, env2)))
                else:
                    out.append((s, (facts, env2)))
            if record:
                kv = known(cond)
                if cond[0] == 'int' and cond[1] in vals:
                    pass
                elif kv is not None and kv in vals:
                    pass
                else:
                    if isbool and vals == [0]:
                        nv = True
                    elif isbool and vals == [1]:
                        nv = False
                    else:
                        nv = ('not',) + tuple(vals)
                    out.append((t['o'], (facts | {(cond, nv)}, env2)))
            else:
                out.append((t['o'], (facts, env2)))
            return out
        return [(s, (facts, env2)) for s in fn.succ[b]]


def fact_holds(facts, pred):
    for cond, v in facts:
        if isinstance(v, bool) and pred(cond, v):
            return True
    return False


SWAP = {'Lt': 'Gt', 'Gt': 'Lt', 'Le': 'Ge', 'Ge': 'Le', 'Eq': 'Eq', 'Ne': 'Ne'}
NEG = {'Lt': 'Ge', 'Ge': 'Lt', 'Gt': 'Le', 'Le': 'Gt', 'Eq': 'Ne', 'Ne': 'Eq'}


def truth_of(v):
    """truth value of a recorded *bool* switch decision, or None for a discriminant / integer switch"""
    if isinstance(v, bool):
        return v
    return None


def relation(cond, truth):
    """normalise a bool condition with its truth into ('lt'|'le'|'eq'|'ne', A, B)
    (A < B, A <= B, ...), or ('true'|'false', cond) for anything else"""
    c = cond
    while isinstance(c, tuple) and c[0] == 'un' and c[1] == 'Not':
        c = c[2]
        truth = not truth
    if isinstance(c, tuple) and c[0] == 'bin' and c[1] in SWAP:
        op = c[1] if truth else NEG[c[1]]
        a, b = c[2], c[3]
        if op == 'Gt':
            return ('lt', b, a)
        if op == 'Ge':
            return ('le', b, a)
        if op == 'Lt':
            return ('lt', a, b)
        if op == 'Le':
            return ('le', a, b)
        if op == 'Eq':
            return ('eq', a, b)
        return ('ne', a, b)
    if isinstance(c, tuple) and c[0] == 'call' and len(c) == 4:
        nm = c[1]
        m = re.search(r'PartialEq(<.*>)?>?::(eq|ne)$', nm) or re.search(r'^(?:core|std)::(str::traits|slice::cmp|array::equality|option|cmp::impls)::(eq|ne)$', nm)
        if m:
            eq = (m.group(2) == 'eq') == truth
            return ('eq' if eq else 'ne', c[2], c[3])
        m = re.search(r'PartialOrd(<.*>)?>::(lt|le|gt|ge)$', nm)
        if m:
            op = {'lt': 'Lt', 'le': 'Le', 'gt': 'Gt', 'ge': 'Ge'}[m.group(2)]
            return relation(('bin', op, c[2], c[3]), truth)
    return ('true' if truth else 'false', c)


def relations(facts):
    out = []
    for cond, v in facts:
        t = truth_of(v)
        if t is None:
            out.append(('switch', cond, v))
        else:
            out.append(relation(cond, t))
    return out


def contains(tree, pred):
    for t in walk(tree):
        if pred(t):
            return True
    return False


def is_call(tree, suffix):
    return isinstance(tree, tuple) and tree and tree[0] == 'call' and (tree[1] == suffix or tree[1].endswith('::' + suffix) or tree[1].endswith(suffix))


# ------------------------------------------------------------------ liveness
def _uses_defs(fn, b):
    """(locals read before being wholly written in block b, locals wholly written in b)"""
    import slices as _sl
    use, deff = set(), set()

    def reads(x):
        c = _sl.Canon(fn)
        c.any(x)
        return c.used
    blk = fn.blocks[b]
    for s in blk['s']:
        if s['k'] == 'assign':
            r = reads(s['rv'])
            lhs = s['lhs']
            if lhs.get('p'):
                r |= {lhs['l']} | reads({'p': [e for e in lhs['p'] if isinstance(e, dict) and 'i' in e]})
            use |= (r - deff)
            if not lhs.get('p'):
                deff.add(lhs['l'])
        elif s['k'] in ('setdiscr',):
            use |= ({s['lhs']['l']} - deff)
    t = blk['t']
    k = t['k']
    r = set()
    if k == 'call':
        for a in t.get('args', []):
            r |= reads(a)
        if 'callee' in t:
            r |= reads(t['callee'])
        use |= (r - deff)
        d = t.get('dest') or {}
        if d and not d.get('p'):
            deff.add(d['l'])
        elif d:
            use |= ({d['l']} - deff)
    elif k == 'switch':
        use |= (reads(t['x']) - deff)
    elif k == 'assert':
        for kk in ('cond', 'l', 'r', 'len', 'idx'):
            if kk in t:
                use |= (reads(t[kk]) - deff)
    elif k == 'return':
        use |= ({0} - deff)
    elif k == 'yield':
        if 'x' in t:
            use |= (reads(t['x']) - deff)
    return use, deff


def live_in(fn):
    """block -> set of locals live on entry (classic backward may-analysis; drops and storage markers are not uses)"""
    ud = {b: _uses_defs(fn, b) for b in fn.reach}
    live = {b: set() for b in fn.reach}
    changed = True
    while changed:
        changed = False
        for b in sorted(fn.reach, reverse=True):
            out = set()
            for s in fn.succ[b]:
                out |= live.get(s, set())
            use, deff = ud[b]
            new = use | (out - deff)
            if new != live[b]:
                live[b] = new
                changed = True
    return live


# ------------------------------------------------------------------ inlining of local helpers
def _remap(node, loff, boff):
    """deep copy of a JSON MIR fragment with every local shifted by loff (block targets are shifted by the caller)"""
    if isinstance(node, dict):
        out = {}
        for k, v in node.items():
            if k == 'l' and isinstance(v, int) and ('k' not in node or node.get('k') in ('live', 'dead')):
                out[k] = v + loff
            elif k == 'i' and isinstance(v, int) and set(node) == {'i'}:
                out[k] = v + loff          # Index(local) projection
            else:
                out[k] = _remap(v, loff, boff)
        return out
    if isinstance(node, list):
        return [_remap(v, loff, boff) for v in node]
    return node


def _shift_targets(t, boff):
    k = t['k']
    if k in ('goto', 'drop', 'call', 'assert', 'yield'):
        if 't' in t:
            t['t'] += boff
        if 'dropt' in t:
            t['dropt'] += boff
    elif k == 'switch':
        t['ts'] = [[v, tgt + boff] for v, tgt in t['ts']]
        t['o'] += boff
    elif k == 'asm':
        t['ts'] = [x + boff for x in t.get('ts', [])]


def inline_calls(prog, fn, want, depth=2, crates=None):
    """A copy of `fn` in which every call of a plain workspace function selected by `want(callee Fn)` is replaced by the
    callee's body (locals and blocks renumbered, arguments assigned, `return` turned into an assignment of the
    destination and a jump to the call's successor).  Closures, coroutines, recursive calls and callees whose argument
    count does not match are left alone.  Used by rules that must see through 'extract function' refactorings: the
    facts a rule states about an unwinder / reader / builder hold for the function together with its private helpers."""
    import copy
    raw = copy.deepcopy(fn.raw)
    names = crates or list(prog.crates.keys())
    done = 0
    inlined = []
    for _round in range(depth):
        changed = False
        nblocks = len(raw['blocks'])
        for b in range(nblocks):
            blk = raw['blocks'][b]
            t = blk['t']
            if blk.get('cleanup') or t['k'] != 'call' or 'fn' not in t or 't' not in t or 'dest' not in t:
                continue
            g = None
            path = strip_generics(t['fn'])
            kr = t.get('krate')
            for cn in ([kr] if kr else []) + [n for n in names if n != kr]:
                try:
                    c = prog.crate(cn)
                except Exception:
                    continue
                g = c.fn(t['fn']) or c.fn(path)
                if g is not None:
                    break
            if g is None or g.kind not in ('fn', 'method') or g.path == fn.path:
                continue
            if g.argc != len(t['args']) or not want(g):
                continue
            if any(bb['t']['k'] in ('yield', 'tailcall', 'coroutine_drop') for bb in g.raw['blocks']):
                continue
            loff = len(raw['locals'])
            boff = len(raw['blocks'])
            raw['locals'].extend(copy.deepcopy(g.raw['locals']))
            for v in g.raw.get('vars', []):
                nv = _remap(v, loff, 0)
                raw.setdefault('vars', []).append(nv)
            line = t.get('line')
            for gb in g.raw['blocks']:
                nb = _remap(gb, loff, boff)
                nt = nb['t']
                if nt['k'] == 'return' and not nb.get('cleanup'):
                    nb['s'].append({'k': 'assign', 'lhs': copy.deepcopy(t['dest']), 'rv': {'k': 'use', 'x': {'m': {'l': loff}}}, 'line': nt.get('line', line), 'inl': g.path})
                    nb['t'] = {'k': 'goto', 't': t['t'], 'line': nt.get('line', line)}
                else:
                    _shift_targets(nt, boff)
                nb['inl'] = g.path
                raw['blocks'].append(nb)
            for i, a in enumerate(t['args']):
                blk['s'].append({'k': 'assign', 'lhs': {'l': loff + 1 + i}, 'rv': {'k': 'use', 'x': copy.deepcopy(a)}, 'line': line, 'inl': g.path})
            blk['t'] = {'k': 'goto', 't': boff, 'line': line}
            inlined.append(g.path)
            done += 1
            changed = True
        if not changed:
            break
    if not done:
        return fn
    nf = Fn(fn.crate, raw)
    nf.inlined = inlined
    return nf
