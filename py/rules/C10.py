"""C10 — streamed symbol parsing ignores chunking and hands every byte to the callback (structural clauses)."""
from .common import *
import panics

PID = 'C10'
PARSE = 'breakpad_symbols::sym_file::<impl sym_file::types::SymbolFile>::parse'
PARSE_ASYNC = 'breakpad_symbols::sym_file::<impl sym_file::types::SymbolFile>::parse_async::{closure#0}'
FLAGS = ('fully_consumed', 'tried_to_grow', 'in_panic_recovery', 'just_finished_recovering', 'total_consumed', 'size', 'new_cap', 'consumed', 'amount', 'new_line_idx')


def pairing(res, prog, c, f):
    """C10.1: every consume(n) is preceded on every path by callback(&input[..n]) with input = buf.data()"""
    consumes = [(b, t) for b, t in f.calls() if f.callee(t) == 'circular::Buffer::consume']
    cbs = [(b, t) for b, t in f.calls() if f.callee_decl(t).endswith('FnMut::call_mut') and 'callback' in show(f.operand_tree(t['args'][0]))]
    for b, t in consumes:
        res.rule('C10.1', 1)
        n = show(f.operand_tree(t['args'][1]))
        ok = False
        why = 'no callback call dominates this consume'
        for cb, ct in cbs:
            if not f.dominates(cb, b):
                continue
            arg = f.expand(f.operand_tree(ct['args'][1]))
            sa = show(f.operand_tree(ct['args'][1]))
            # (tuple (index input (RangeTo n)))
            m = re.search(r'index (\w+) \(adt std::ops::RangeTo::RangeTo (\w+)\)', sa)
            if not m:
                why = 'callback argument is %s, not &input[..n]' % sa[:100]
                continue
            src, upto = m.group(1), m.group(2)
            # nothing else touches the buffer between the callback and the consume
            between = (f.reachable_from(f.succ[cb], avoid=[b]) & f.can_reach(b, avoid=[cb])) - {b}
            dirty = [x for x in between if f.blocks[x]['t']['k'] == 'call' and f.callee(f.blocks[x]['t']).startswith('circular::Buffer::') and not f.callee(f.blocks[x]['t']).endswith('::data')]
            srcdef = [f.expand(('var', src, l)) for l in range(len(f.locals)) if f.local_name(l) == src]
            from_buf = any(is_call(d, 'circular::Buffer::data') for d in srcdef)
            if upto != n:
                why = 'callback gets ..%s but %s bytes are consumed' % (upto, n)
            elif not from_buf:
                why = '`%s` is not buf.data()' % src
            elif dirty:
                why = 'the buffer is modified between the callback and the consume'
            else:
                ok = True
                break
        if ok:
            res.sample({'rule': 'C10.1', 'fn': f.qual.split('::')[-1], 'consume': n})
        else:
            res.violation('C10.1', 'C10.1|%s|%s' % (f.qual, n), f, t.get('line'), 'consume(%s): %s' % (n, why))
    for b, t in f.calls():
        if re.match(r'circular::Buffer::(consume_noshift|reset|delete_slice|replace_slice|insert_slice)$', f.callee(t)):
            res.rule('C10.1', 1)
            res.violation('C10.1', 'C10.1|other|%s' % f.callee(t), f, t.get('line'), 'bytes leave / enter the window without passing the callback (%s)' % f.callee(t))
    return len(consumes)


def transition_table(f):
    """effects of the parse state machine with the flag conditions that guard them"""
    out = set()
    def guards(b):
        gs = []
        for r, g, s in panics.dominating_facts(f, b):
            if r[0] in ('true', 'false'):
                n = show(r[1])
                if n in FLAGS or n.startswith('(core::slice::is_empty (circular::Buffer::data'):
                    gs.append('%s=%s' % (n, r[0]))
            elif r[0] in ('eq', 'ne', 'lt', 'le'):
                a, bb = show(r[1]), show(r[2])
                if any(w == a or w == bb for w in FLAGS) or 'MAX_BUFFER_CAPACITY' in a + bb or 'len input' in a + bb:
                    gs.append('%s %s %s' % (a, r[0], bb))
            elif r[0] == 'switch':
                n = show(r[1])
                if 'position' in n or 'parse_more' in n:
                    gs.append('%s=%s' % (re.sub(r'_\d+', '_', n)[:80], r[2]))
        return tuple(sorted(set(gs)))
    for b in sorted(f.reach):
        for s in f.blocks[b]['s']:
            if s['k'] == 'assign' and not s['lhs'].get('p'):
                nm = f.local_name(s['lhs']['l'])
                if nm in FLAGS[:5] and not is_log_term(s):
                    out.add(('%s = %s' % (nm, show(f.rvalue_tree(s['rv']))), guards(b)))
            if s['k'] == 'assign' and s['lhs']['l'] == 0 and not s['lhs'].get('p'):
                tr = show(f.rvalue_tree(s['rv']))
                tr = re.sub(r'_\d+', '_', tr)
                out.add(('return ' + tr[:120], guards(b)))
        t = f.blocks[b]['t']
        if t['k'] == 'call' and not is_log_term(t):
            n = f.callee(t)
            if n.startswith('circular::Buffer::') or n.endswith('SymbolParser::parse_more') or n.endswith('SymbolParser::finish') or (f.callee_decl(t).endswith('FnMut::call_mut') and 'callback' in show(f.operand_tree(t['args'][0]))):
                args = [re.sub(r'_\d+', '_', show(f.operand_tree(a)))[:80] for a in t['args'][1:]]
                out.add(('%s(%s)' % (n.split('::')[-1], ', '.join(args)), guards(b)))
    return out


def eval_byte_pred(g, value, arg=2):
    """run a `|c: u8| -> bool` closure body on one concrete byte: comparisons of the parameter with constants, && / ||
    (as branches), !.  Returns True / False, or None when the body does something else."""
    def ev(t):
        t = g.expand(t)
        if t[0] == 'int':
            return t[1]
        if t[0] == 'var' and t[2] == arg:
            return value
        if t[0] in ('deref', 'copy', 'ref') and len(t) == 2:
            return ev(t[1])
        if t[0] == 'cast' and len(t) == 3:
            return ev(t[2])
        if t[0] == 'un' and t[1] == 'Not':
            v = ev(t[2])
            return None if v is None else (0 if v else 1)
        if t[0] == 'bin':
            a, b = ev(t[2]), ev(t[3])
            if a is None or b is None:
                return None
            return {'Eq': a == b, 'Ne': a != b, 'Lt': a < b, 'Le': a <= b, 'Gt': a > b, 'Ge': a >= b, 'BitAnd': a & b, 'BitOr': a | b}.get(t[1])
        if t[0] == 'call' and t[1].endswith('is_ascii_hexdigit'):
            v = ev(t[2])
            return None if v is None else chr(v) in '0123456789abcdefABCDEF'
        if t[0] == 'call' and t[1].endswith('is_ascii_digit'):
            v = ev(t[2])
            return None if v is None else chr(v) in '0123456789'
        return None
    b = 0
    ret = None
    for _ in range(64):
        blk = g.blocks[b]
        for st in blk['s']:
            if st['k'] == 'assign' and st['lhs']['l'] == 0 and not st['lhs'].get('p'):
                ret = ev(g.rvalue_tree(st['rv']))
        t = blk['t']
        if t['k'] == 'return':
            return None if ret is None else bool(ret)
        if t['k'] == 'goto':
            b = t['t']
        elif t['k'] == 'switch':
            v = ev(g.operand_tree(t['x']))
            if v is None:
                return None
            v = int(v)
            b = dict((x, tgt) for x, tgt in t['ts']).get(v, t['o'])
        elif t['k'] == 'call' and (t.get('dest') or {}).get('l') == 0 and 't' in t:
            ret = ev(g.call_tree(t))
            b = t['t']
        else:
            return None
    return None


def tokenisers(res, prog, c):
    """C10.8: a record is parsed from one line, however much of the file is in the buffer.  Every `take_while(pred)` /
    `take_till(pred)` of the record parsers stops at a line feed: the predicate is run on the byte 10 (a finite check of
    its branch structure) and must not accept it - otherwise a field runs into the next line exactly when that line
    happens to be in the same chunk, and the outcome depends on chunking."""
    res.rule('C10.8', 0, floor=2, note='field tokenisers of the symbol-file record parsers never run across a line feed')
    for f in c.fns:
        if not f.path.startswith('breakpad_symbols::sym_file::parser::') or (f.mac and f.mac.startswith('derive(')):
            continue
        for b, t in f.calls():
            n = f.callee(t) or ''
            m = re.search(r'nom::bytes::(complete|streaming)::(take_while1?|take_till1?|take_while_m_n)$', n)
            if not m:
                continue
            cl = f.expand(f.operand_tree(t['args'][-1] if m.group(2) != 'take_while_m_n' else t['args'][2]))
            if cl[0] != 'closure':
                continue
            g = c.fn(cl[1])
            if g is None:
                continue
            res.rule('C10.8', 1)
            v = eval_byte_pred(g, 10)
            takes = v if m.group(2).startswith('take_while') else (None if v is None else not v)
            if takes is None:
                res.violation('C10.8', 'C10.8|%s|opaque' % f.path.split('::')[-1], f, t.get('line'), 'cannot evaluate the predicate of %s on a line feed' % m.group(2))
            elif takes and not f.path.endswith('::my_eol'):
                res.violation('C10.8', 'C10.8|%s' % f.path.split('::')[-1], f, t.get('line'), '%s in %s consumes line feeds: a field of this record can run into the next line when that line is in the same chunk' % (m.group(2), f.path.split('::')[-1]))


def eof_vs_full(res, prog, c):
    """C10.9: a zero-length read means "end of input" or "the buffer is full".  The loops tell the two apart by trying to
    grow; when growing would pass the cap they enter the discard-until-newline recovery.  At a real end of input with an
    unterminated last line that decision depends on how large earlier lines have made the buffer, i.e. on the chunk
    schedule: the same bytes are accepted or rejected.  Recovery may be entered on a zero-length read only under a test
    that the buffer has no free space."""
    res.rule('C10.9', 0, floor=2, note='on a zero-length read, recovery mode is entered only when the buffer is actually full')
    for path in (PARSE, PARSE_ASYNC):
        f = c.fn(path)
        if f is None:
            res.error('C10.9', '%s not found' % path)
            continue
        for b in sorted(f.reach):
            for s_ in f.blocks[b]['s']:
                if s_['k'] == 'assign' and f.local_name(s_['lhs']['l']) == 'in_panic_recovery' and f.rvalue_tree(s_['rv']) == ('int', 1):
                    facts = [r for r, g, sx in panics.dominating_facts(f, b)]
                    if not any(r[0] == 'eq' and show(r[1]) == 'size' and r[2] == ('int', 0) for r in facts):
                        continue
                    res.rule('C10.9', 1)
                    full = any(re.search(r'Buffer::(available_space|space)', show(f.expand(r[1]))) and 'read' not in show(f.expand(r[1])) for r in facts if len(r) > 1)
                    if not full:
                        res.violation('C10.9', 'C10.9|eof-vs-full|%s' % ('async' if 'async' in path else 'sync'), f, s_.get('line'), 'after a zero-length read the loop enters discard-until-newline recovery without testing that the buffer is full: at end of input an unterminated last line is dropped (Ok) or reported (Err) depending on how far earlier lines grew the buffer')


def capacity_ladder(res, prog, c):
    """C10.10: "every line shorter than 80 KiB" is parsed.  The window shifts only once more than half of it is consumed,
    so a line is guaranteed to fit only when it is no longer than half the largest capacity the buffer can reach.  That
    capacity follows from three constants read from the MIR of both loops: the initial capacity, the growth step
    `capacity().saturating_mul(K)` handed to grow(), and the refusal test `new_cap > MAX`.  The ladder INITIAL * K^i is
    folded (integer arithmetic on compile-time constants; nothing is run) up to the last rung the test admits; that
    rung must be at least 2 * 80 KiB."""
    LINE = 80 * 1024
    res.rule('C10.10', 0, floor=2, note='largest capacity the growth ladder reaches is at least twice the 80 KiB line bound of the statement')
    cap = prog.const_int('breakpad_symbols::sym_file::MAX_BUFFER_CAPACITY', 'breakpad_symbols')
    init = prog.const_int('breakpad_symbols::sym_file::INITIAL_BUFFER_CAPACITY', 'breakpad_symbols')
    if cap is None or init is None or init <= 0:
        res.error('C10.10', 'MAX_BUFFER_CAPACITY / INITIAL_BUFFER_CAPACITY not found as positive integer statics')
        return
    for path in (PARSE, PARSE_ASYNC):
        f = c.fn(path)
        if f is None:
            res.error('C10.10', '%s not found' % path)
            continue
        which = 'async' if 'async' in path else 'sync'
        creates = [t for b, t in f.calls() if (f.callee(t) or '').endswith('circular::Buffer::with_capacity')]
        grows = [t for b, t in f.calls() if (f.callee(t) or '') == 'circular::Buffer::grow']
        if len(creates) != 1 or len(grows) != 1:
            res.error('C10.10', '%s: expected one Buffer::with_capacity and one Buffer::grow, found %d and %d' % (which, len(creates), len(grows)))
            continue
        start = panics.resolve_items(prog, 'breakpad_symbols', f.expand(f.operand_tree(creates[0]['args'][0])))
        step = f.expand(f.operand_tree(grows[0]['args'][1]))
        k = None
        if step[0] == 'call' and re.search(r'(saturating_mul|checked_mul|wrapping_mul)$', step[1]) and len(step) == 4 and 'Buffer::capacity' in show(step[2]) and step[3][0] == 'int':
            k = step[3][1]
        elif step[0] == 'bin' and step[1] == 'Mul' and 'Buffer::capacity' in show(step[2]) and step[3][0] == 'int':
            k = step[3][1]
        # the refusal test on the same term
        test = None
        for b in sorted(f.reach):
            t = f.blocks[b]['t']
            if t['k'] != 'switch':
                continue
            cond = panics.resolve_items(prog, 'breakpad_symbols', f.expand(f.operand_tree(t['x'])))
            if cond[0] == 'bin' and cond[1] in ('Gt', 'Ge') and cond[3] == ('int', cap) and cond[2] == step:
                test = cond[1]
            elif cond[0] == 'bin' and cond[1] in ('Lt', 'Le') and cond[2] == ('int', cap) and cond[3] == step:
                test = {'Lt': 'Gt', 'Le': 'Ge'}[cond[1]]
        res.rule('C10.10', 1)
        if start[0] != 'int' or k is None or k < 2 or test is None:
            res.violation('C10.10', 'C10.10|shape|' + which, f, grows[0].get('line'), 'the growth ladder is not of the form with_capacity(const) / grow(capacity() * K) under `capacity() * K > MAX`: start %s, step %s, test %s' % (show(start), show(step)[:120], test))
            continue
        rung = start[1]
        ladder = [rung]
        while (rung * k <= cap) if test == 'Gt' else (rung * k < cap):
            rung *= k
            ladder.append(rung)
        res.sample({'rule': 'C10.10', 'fn': which, 'ladder_KiB': [x / 1024 for x in ladder], 'factor': k, 'cap': cap})
        if rung < 2 * LINE:
            res.violation('C10.10', 'C10.10|ladder|' + which, f, grows[0].get('line'), 'the buffer grows %s and stops at %d bytes because the next rung %d passes MAX_BUFFER_CAPACITY = %d; a line is only guaranteed to fit in half the window, so lines between %d and %d bytes (shorter than 80 KiB) can be discarded depending on where they fall in the buffer' % (
                ' -> '.join('%gK' % (x / 1024) for x in ladder), rung, rung * k, cap, rung // 2, LINE))


def run(tier, t0):
    res = harness.Result(PID)
    prog = program()
    c = prog.crate('breakpad_symbols')
    fs = need_fn(res, c, PARSE, 'C10.1')
    fa = need_fn(res, c, PARSE_ASYNC, 'C10.1')
    res.rule('C10.1', 0, floor=4, note='consume(n) always preceded by callback(&buf.data()[..n]); no other way for bytes to leave the window')
    n = 0
    for f in (fs, fa):
        if f is not None:
            n += pairing(res, prog, c, f)
    # C10.5 the end-of-input decision never uses a stale fully_consumed (boolean abstraction of both loops)
    from . import parseloop
    parseloop.check(res, prog, None, 'C10.5')
    tokenisers(res, prog, c)
    eof_vs_full(res, prog, c)
    capacity_ladder(res, prog, c)
    # C10.7 a record parser never looks past the end of its own line: what it consumes must not depend on what the
    # window happens to hold after the line.  (a) my_eol is exactly `\r* \n`, once; (b) the parser module uses no nom
    # combinator that repeats a sub-parser an input-dependent number of times other than separated_list1 (which runs
    # inside one line), and none of nom's own line / whitespace-run parsers that cross newlines
    res.rule('C10.7', 0, floor=3, note='line terminator matched exactly once per record; no repetition combinators over line ends in the record parsers')
    eol = c.fn('breakpad_symbols::sym_file::parser::my_eol')
    if eol is None:
        res.error('C10.7', 'parser::my_eol not found')
    else:
        res.rule('C10.7', 1)
        rets = []
        for (_, _, t2) in ret_assigns(eol):
            e = eol.expand(t2)
            # the combinator value is dropped after the call, so it is not inlined: resolve its one definition by hand
            if e[0] == 'call' and len(e) >= 3 and e[2][0] == 'var':
                ds = [d for d in eol.defs.get(e[2][2], []) if d['kind'] == 'call']
                if len(ds) == 1:
                    e = (e[0], e[1], eol.expand(eol.call_tree(ds[0]['term']))) + tuple(e[3:])
            rets.append(show(e))
        want = '(nom::sequence::preceded::{closure#0} (nom::sequence::preceded (nom::bytes::complete::take_while (closure breakpad_symbols::sym_file::parser::my_eol::{closure#0})) (nom::bytes::complete::tag (bytes (10)))) (tuple input))'
        if rets != [want]:
            res.violation('C10.7', 'C10.7|my_eol', eol, eol.line, 'my_eol is %s, not preceded(take_while(\\r), tag(\\n)) applied once: a terminator that can swallow further lines makes a record\'s extent depend on what else is in the buffer' % (rets[0][:200] if rets else 'not found'))
        cl = c.fn('breakpad_symbols::sym_file::parser::my_eol::{closure#0}')
        res.rule('C10.7', 1)
        if cl is None or [show(cl.expand(t2)) for (_, _, t2) in ret_assigns(cl)] != ['(Eq b 13)']:
            res.violation('C10.7', 'C10.7|my_eol|cr', cl or eol, (cl or eol).line, 'the byte skipped before the newline is not exactly \\r')
    REPEAT = re.compile(r'^nom::(multi::(many0|many1|many0_count|many1_count|many_till|many_m_n|fold_many0|fold_many1|fold_many_m_n|count|fill|length_count|separated_list0)|character::complete::(multispace0|multispace1|line_ending|newline|crlf|not_line_ending)|bytes::complete::(take_until|take_until1|take_till|take_till1|is_not))\\b')
    nrep = 0
    for g in c.fns:
        if 'sym_file::parser' not in g.qual:
            continue
        for b, t in g.calls():
            n = g.callee(t) or ''
            if n.startswith('nom::') and '{closure' not in n:
                nrep += 1
                if REPEAT.search(n):
                    res.violation('C10.7', 'C10.7|repeat|%s|%s' % (g.qual.split('::')[-1], n.split('::')[-1]), g, t.get('line'), '%s in a record parser can consume a buffer-dependent number of lines / bytes across a line end' % n)
    res.rule('C10.7', 1 if nrep else 0)
    # C10.2 parse_more consumes whole lines only
    res.rule('C10.2', 0, floor=2, note='parse_more returns 0 or the length of the input truncated after its last newline')
    pm = need_fn(res, c, 'breakpad_symbols::sym_file::parser::SymbolParser::parse_more', 'C10.2')
    # C10.6 everything parse_more remembers from one line to the next lives in the parser (self), not in locals of the
    # call: a local carried round the line loop is reset at every chunk boundary, so decisions made with it depend on
    # where the reader happened to split the file
    res.rule('C10.6', 0, floor=1, note='the only local carried round parse_more\'s line loop is the remaining input slice')
    if pm is not None:
        lv = live_in(pm)
        loops = pm.loops()
        main = max(loops.items(), key=lambda kv: len(kv[1])) if loops else None
        if main is None:
            res.error('C10.6', 'no loop found in parse_more')
        else:
            h, body = main
            defs_in = set()
            for b in body:
                for st in pm.blocks[b]['s']:
                    if st['k'] == 'assign' and not st['lhs'].get('p') and not is_log_term(st):
                        defs_in.add(st['lhs']['l'])
                tt = pm.blocks[b]['t']
                if tt['k'] == 'call' and tt.get('dest') and not tt['dest'].get('p') and not is_log_term(tt):
                    defs_in.add(tt['dest']['l'])
            carried = sorted(lv[h] & defs_in)
            res.rule('C10.6', len(carried))
            for l in carried:
                ty = pm.local_ty(l) or ''
                if ty != '&[u8]':
                    res.violation('C10.6', 'C10.6|carried|%s' % (pm.local_name(l) or ty), pm, pm.line,
                                  'parse_more carries the local `%s: %s` from one line to the next: it starts afresh at every call, i.e. at every chunk boundary of the streaming loops, so the parse depends on the chunking' % (pm.local_name(l) or '_%d' % l, ty))
            outer = sorted(lv[h] - defs_in)
            for l in outer:
                nm = pm.local_name(l)
                if l > pm.argc and nm not in ('orig_input',) and (pm.local_ty(l) or '') != '&[u8]':
                    res.violation('C10.6', 'C10.6|outer|%s' % (nm or pm.local_ty(l)), pm, pm.line, 'the line loop of parse_more reads the per-call local `%s`' % (nm or '_%d' % l))
    if pm is not None:
        # C10.11 a non-zero count is reported only from inside the line loop: the per-line state (the open FUNC / STACK CFI
        # group a blank or foreign line closes) sees every line of the consumed prefix, whatever the chunk holds
        res.rule('C10.11', 0, floor=1, note='parse_more reports consumed bytes only from inside its per-line loop (no shortcut that skips the line state machine)')
        loops_pm = pm.loops()
        body_all = set().union(*loops_pm.values()) if loops_pm else set()
        for (b, i, t) in ret_assigns(pm):
            if not (t[0] == 'adt' and t[1].endswith('Result::Ok')):
                continue
            res.rule('C10.11', 1)
            v = pm.expand(t)[2]
            if v != ('int', 0) and not any(pm.dominates(h, b) for h in loops_pm):
                res.violation('C10.11', 'C10.11|shortcut', pm, pm.blocks[b]['s'][i].get('line'), 'parse_more returns Ok(%s) from outside its line loop: those bytes were never shown to the per-line state machine, so whether an open FUNC / STACK CFI group is closed by them depends on how the input was chunked' % show(v)[:80])
        oks = [pm.expand(t) for (b, i, t) in ret_assigns(pm) if t[0] == 'adt' and t[1].endswith('Result::Ok')]
        res.rule('C10.2', len(oks))
        for t in oks:
            v = t[2]
            sv = show(v)
            if v == ('int', 0):
                continue
            if sv.startswith('(len ') or sv.startswith('(core::slice::len '):
                # orig_input = input[..idx + 1] with idx = rposition(b'\n')
                if 'RangeTo' in sv and 'rposition' in sv and '(Add ' in sv:
                    continue
            if sv in ('(core::slice::len input)', '(len input)', '(core::slice::len orig_input)'):
                # orig_input = input, taken right after the trim `input = &input[..idx + 1]` and before any advance
                od = [pm.single_def(l) for l in range(len(pm.locals)) if pm.local_name(l) == 'orig_input']
                ins = [d for l in range(len(pm.locals)) if pm.local_name(l) == 'input' for d in pm.defs.get(l, []) if d['kind'] == 'assign']
                if od and od[0] is not None:
                    ob = od[0]['bb']
                    trims = [d for d in ins if re.search(r'RangeTo \(Add \w+ 1\)', show(pm.rvalue_tree(d['rv']))) and 'rposition' in show(pm.expand(pm.rvalue_tree(d['rv'])))]
                    others = [d for d in ins if d not in trims]
                    if trims and all(pm.dominates(d['bb'], ob) for d in trims) and all(pm.dominates(ob, d['bb']) and d['bb'] != ob for d in others):
                        continue
            res.violation('C10.2', 'C10.2|ret|%s' % sv[:60], pm, pm.line, 'parse_more returns Ok(%s): neither 0 nor the length of the newline-terminated prefix' % sv[:140])
        res.rule('C10.2', 1)
        rp = [t for b, t in pm.calls() if pm.callee_decl(t).endswith('Iterator::rposition') or pm.callee(t).endswith('::rposition')]
        if not rp:
            res.violation('C10.2', 'C10.2|trim', pm, pm.line, 'input is not trimmed to its last newline (rposition)')
    # C10.3 sync and async are the same state machine: their boolean abstractions (rules/parseloop.py) have the same
    # transitions - abstract state before, abstract state after, progress, and the sequence of window / parser / callback
    # effects on the way.  (Statement-level equality of the two bodies was dropped: a behaviour-preserving clean-up of
    # one twin made it fire.)
    res.rule('C10.3', 0, floor=20, note='the abstract transition systems (with effect traces) of parse and parse_async are equal')
    if fs is not None and fa is not None:
        from . import parseloop
        sets = []
        for g in (fs, fa):
            try:
                m = parseloop.Model(g)
                init, graph = m.explore()
                sets.append(set((m.describe(x), m.describe(y), pr, tr) for (x, y, pr, tr) in m.traced))
            except RuntimeError as e:
                res.error('C10.3', str(e))
        if len(sets) == 2:
            ts, ta = sets
            res.rule('C10.3', len(ts | ta))
            for e in sorted(ts - ta)[:6]:
                res.violation('C10.3', 'C10.3|sync-only|%s' % '|'.join(str(x) for x in e)[:160], fs, fs.line, 'iteration only possible in parse: %s -> %s (%s) doing %s' % (e[0], e[1], 'progress' if e[2] else 'no progress', list(e[3])))
            for e in sorted(ta - ts)[:6]:
                res.violation('C10.3', 'C10.3|async-only|%s' % '|'.join(str(x) for x in e)[:160], fa, fa.line, 'iteration only possible in parse_async: %s -> %s (%s) doing %s' % (e[0], e[1], 'progress' if e[2] else 'no progress', list(e[3])))
            if ts == ta:
                res.sample({'rule': 'C10.3', 'transitions': len(ts), 'example': [list(x) for x in sorted(ts)[:2]]})
    # C10.4 the cache tee is the callback (shared with C16.3)
    res.rule('C10.4', 0, floor=1, note='fetch_symbol_file hands a closure whose only effect is writing `data` to the temp file')
    fsf = c.fn('breakpad_symbols::http::fetch_symbol_file::{closure#0}')
    if fsf is not None:
        for b, t in fsf.calls():
            if fsf.callee(t).endswith('::parse_async') and len(t['args']) == 2:
                res.rule('C10.4', 1)
                tr = fsf.expand(fsf.operand_tree(t['args'][1]))
                cb = c.fn(tr[1]) if tr[0] == 'closure' else None
                if cb is None:
                    res.violation('C10.4', 'C10.4|cb', fsf, t.get('line'), 'parse_async callback is not a closure literal')
                    continue
                effects = [cb.callee(tt) for bb, tt in cb.calls() if not is_log_term(tt) and not re.search(r'(Option::as_mut|branch|from_residual|deref)', cb.callee(tt))]
                bad = [e for e in effects if not re.search(r'(write_all|drop_in_place)', e)]
                if bad:
                    res.violation('C10.4', 'C10.4|effects', cb, cb.line, 'callback does more than write its data: %s' % bad)
                else:
                    res.sample({'rule': 'C10.4', 'callback': cb.qual, 'effects': effects})
    res.assumptions += ['circular::Buffer::data() is the window of unconsumed bytes and consume(n) drops exactly its first n bytes (trusted, circular 0.3)',
                        'the HTTP chunk refill of parse_async only feeds the same Read interface (it is excluded from the comparison by construction: it has no Buffer / flag effects)']
    return harness.finish(res, tier, t0, distinct=4, explanation=(
        'Narrow structural claim: in parse and parse_async every consume(n) is dominated by callback(&buf.data()[..n]) with nothing touching the buffer in between and no other way for bytes to leave the window '
        '(so the callback output is exactly the consumed prefix); parse_more returns 0 or the length of the newline-terminated prefix; the two loops have identical transition tables (each buffer / flag / return effect with its guard conditions); '
        'the cache tee is a pure writer; every field tokeniser stops at a line feed; the growth ladder of the window, folded from its three constants, reaches twice the 80 KiB line bound; recovery on a zero-length read is tested against a full buffer (known finding). Equality of outcomes across chunk schedules is behavioural and not decided.'))
