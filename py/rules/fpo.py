"""the FPO (STACK WIN type 0) unwinder as a formula table.

walk_with_stack_win_fpo is straight-line code with two decisions (does the record allocate a base pointer; is
there a leftover return address).  For every path to every set_caller_register call the definitions that reach
the call are substituted into its value operand (reaching definitions along the path; nothing is evaluated) and the
resulting term is compared with the documented formula for that register on that path.  The branch conditions
themselves are compared with the documented ones."""
from .common import *

ABBR = [('breakpad_symbols::FrameWalker::', ''), ('core::num::', ''), ('breakpad_symbols::sym_file::walker::', ''),
        ('<impl u64>::', ''), ('<impl u32>::', '')]


def norm(t):
    """drop the `?` plumbing: Continue.0(trybranch(x)) / Some.0(x) of a checked operation is x"""
    if not isinstance(t, tuple) or not t:
        return t
    if t[0] == 'vfield' and t[1] in ('Continue', 'Some') and str(t[2]) == '0':
        inner = t[3]
        if inner[0] == 'trybranch':
            inner = inner[1]
        return norm(inner)
    if t[0] == 'trybranch':
        return norm(t[1])
    return tuple([t[0]] + [norm(x) if isinstance(x, tuple) else x for x in t[1:]])


def sh(t):
    s = show(norm(t))
    for k, v in ABBR:
        s = s.replace(k, v)
    return s


def lin(t):
    """linear form of an address term: {atom: coefficient, 1: constant}.  checked_add / checked_sub / + / - chains are
    flattened, widening casts dropped and win_frame_size(info, p) replaced by its three summands (its own formula is a
    separate obligation below), so that algebraically equal spellings of one formula compare equal.  Which intermediate
    sum a checked operation fails on is not compared."""
    t = norm(t)
    out = {}

    def add(d, k, c):
        d[k] = d.get(k, 0) + c
        if d[k] == 0:
            del d[k]

    def go(x, sign):
        if x[0] == 'int':
            add(out, 1, sign * x[1])
        elif x[0] == 'call' and re.search(r'(checked_add|wrapping_add|checked_sub|wrapping_sub)$', x[1]) and len(x) == 4:
            go(x[2], sign)
            go(x[3], sign if 'add' in x[1] else -sign)
        elif x[0] == 'bin' and x[1] in ('Add', 'Sub'):
            go(x[2], sign)
            go(x[3], sign if x[1] == 'Add' else -sign)
        elif x[0] == 'cast' and x[1] in ('u64', 'usize') and (len(x) < 4 or x[3] in ('u32', 'u16', 'u8', 'u64', 'usize')):
            go(x[2], sign)
        elif x[0] == 'call' and x[1].endswith('walker::win_frame_size') and len(x) == 4:
            add(out, 'info.local_size', sign)
            add(out, 'info.saved_register_size', sign)
            go(x[3], sign)
        else:
            add(out, sh(x), sign)
    go(t, 1)
    return out


def shape(t):
    """('load', linear address) for a stack read, ('lin', form) for an address, ('atom', text) otherwise"""
    t = norm(t)
    if t[0] == 'call' and t[1].endswith('FrameWalker::get_register_at_address') and len(t) == 4:
        return ('load', tuple(sorted((str(k), v) for k, v in lin(t[3]).items())))
    if (t[0] == 'call' and re.search(r'(checked_add|checked_sub)$', t[1])) or (t[0] == 'bin' and t[1] in ('Add', 'Sub')):
        return ('lin', tuple(sorted((str(k), v) for k, v in lin(t).items())))
    return ('atom', sh(t))


def form(**kw):
    return tuple(sorted((str(k) if k != 'const' else '1', v) for k, v in kw.items() if v))


ESP = '(get_callee_register walker "esp")'
P = '(get_grand_callee_parameter_size walker)'
FS = '(cast u64 (win_frame_size info %s))' % P
EA0 = '(checked_add %s %s)' % (ESP, FS)
EA1 = '(checked_add %s 4)' % EA0
EIP0 = '(get_register_at_address walker %s)' % EA0
EIP1 = '(get_register_at_address walker %s)' % EA1
CTX = '(un Not (has_grand_callee walker))'
SAME = '(Eq %s (get_callee_register walker "eip"))' % EIP0
EBP_SLOT = '(get_register_at_address walker (checked_sub (checked_add (checked_add %s (cast u64 %s)) (cast u64 info.saved_register_size)) 8))' % (ESP, P)
ABP = '(AllocatesBasePointer.0 info.program_string_or_base_pointer)'


def fpo_formulas(res, prog, rid):
    bs = prog.crate('breakpad_symbols')
    f = need_fn(res, bs, 'breakpad_symbols::sym_file::walker::walk_with_stack_win_fpo', rid)
    res.rule(rid, 0, floor=20, note='FPO unwinder: every (path, output register) pair carries the documented formula; the two decisions are the documented ones')
    if f is None:
        return
    ex = PathExplorer(f, keep=lambda c: not (c[0] == 'discr' and isinstance(c[1], tuple) and c[1][0] == 'trybranch'), track='all')
    ex.run()
    if ex.truncated:
        res.error(rid, 'path exploration of walk_with_stack_win_fpo was truncated')
        return
    allowed_conds = {ABP, CTX, SAME, '(discr info.program_string_or_base_pointer)', '(discr (get_callee_register walker "ebx"))'}
    seen = set()
    outputs = set()
    for b, t in f.calls():
        d = f.callee_decl(t) or ''
        if not d.endswith('FrameWalker::set_caller_register'):
            continue
        for facts, env in ex.states.get(b, ()):
            envd = ex.env_at_term(b, env)
            name = sh(subst(f.operand_tree(t['args'][1]), envd)).strip('"')
            val = sh(subst(f.operand_tree(t['args'][2]), envd))
            fs = dict((sh(c), v) for c, v in facts)
            key = (name, val, tuple(sorted((k, str(v)) for k, v in fs.items())))
            if key in seen:
                continue
            seen.add(key)
            res.rule(rid, 1)
            outputs.add(name)
            line = t.get('line')
            unknown = [c for c in fs if c not in allowed_conds]
            if unknown:
                res.violation(rid, '%s|decision|%s' % (rid, unknown[0][:80]), f, line, 'the FPO unwinder decides on %s, which is not one of the documented decisions (allocates_base_pointer; no grand callee and return address equal to the callee\'s $eip)' % unknown[0][:200])
                continue
            abp = fs.get(ABP)
            leftover = fs.get(CTX) is True and fs.get(SAME) is True
            if fs.get(CTX) is True and SAME not in fs:
                res.violation(rid, '%s|leftover-undecided|%s' % (rid, name), f, line, 'a context-frame path reaches set_caller_register("%s") without comparing the return address with the callee\'s $eip' % name)
            extra = 4 if leftover else 0
            frame = {ESP: 1, 'info.local_size': 1, 'info.saved_register_size': 1, P: 1}
            got = shape(subst(f.operand_tree(t['args'][2]), envd))
            want = None
            if name == 'eip':
                want = ('load', tuple(sorted([(k, v) for k, v in frame.items()] + ([('1', extra)] if extra else []))))
            elif name == 'esp':
                want = ('lin', tuple(sorted([(k, v) for k, v in frame.items()] + [('1', 4 + extra)])))
            elif name == 'ebp':
                if abp is True:
                    want = ('load', tuple(sorted([(ESP, 1), (P, 1), ('info.saved_register_size', 1), ('1', -8)])))
                elif abp is False:
                    want = ('atom', '(get_callee_register walker "ebp")')
                else:
                    res.violation(rid, '%s|ebp-undecided' % rid, f, line, '$ebp is set on a path that did not decide allocates_base_pointer')
                    continue
            elif name == 'ebx':
                want = ('atom', '(get_callee_register walker "ebx")')
                if abp is not False or fs.get('(discr (get_callee_register walker "ebx"))') != 1:
                    res.violation(rid, '%s|ebx-path' % rid, f, line, '%%ebx is passed through on a path other than "no base pointer allocated and callee %%ebx known"')
            else:
                res.violation(rid, '%s|output|%s' % (rid, name), f, line, 'the FPO unwinder sets %s, which is not one of $eip $esp $ebp $ebx' % name)
                continue
            if got != want:
                res.violation(rid, '%s|formula|%s|%s' % (rid, name, 'leftover' if leftover else 'plain'), f, line,
                              '$%s on the %s path (allocates_base_pointer=%s) is %s = %s; documented: %s' % (name, 'leftover-return-address' if leftover else 'ordinary', abp, val[:200], got, want))
            else:
                res.sample({'rule': rid, 'register': name, 'path': 'leftover' if leftover else 'plain', 'allocates_base_pointer': abp, 'value': val[:200]})
    for need in ('eip', 'esp', 'ebp', 'ebx'):
        if need not in outputs:
            res.violation(rid, '%s|missing|%s' % (rid, need), f, f.line, 'the FPO unwinder never sets $%s' % need)
    # what each path demands: a `?` on a callee register or on a stack read makes the whole record fail when that input
    # is unknown, so each may sit only on the paths whose documented formula uses it
    demands = 0
    for b, t in f.calls():
        if not ((f.callee_decl(t) or '').endswith('Try::branch') or (f.callee(t) or '').endswith('Try>::branch')):
            continue
        a = f.operand_tree(t['args'][0])
        for facts, env in ex.states.get(b, ()):
            envd = ex.env_at_term(b, env)
            x = norm(subst(a, envd))
            if not (isinstance(x, tuple) and x[0] == 'call'):
                continue
            fs = dict((sh(c), v) for c, v in facts)
            abp = fs.get(ABP)
            why = None
            if x[1].endswith('FrameWalker::get_callee_register'):
                name = sh(x[3]).strip('"') if len(x) > 3 else '?'
                if name == 'esp':
                    pass
                elif name == 'eip':
                    if fs.get(CTX) is not True:
                        why = 'the callee\'s $eip is demanded on a path that is not a context frame'
                elif name == 'ebp':
                    if abp is not False:
                        why = 'the callee\'s %%ebp is demanded where the record does not pass it through (allocates_base_pointer is %s on this path): a callee whose %%ebp is unknown, e.g. a scanned frame, no longer unwinds' % abp
                else:
                    why = 'the callee\'s %s is demanded; the FPO formulae read only $esp, $eip (leftover check) and %%ebp (pass-through)' % name
                key = 'reg|' + name
            elif x[1].endswith('FrameWalker::get_register_at_address'):
                got = shape(x)
                frame = {ESP: 1, 'info.local_size': 1, 'info.saved_register_size': 1, P: 1}
                ok0 = ('load', tuple(sorted(frame.items())))
                ok1 = ('load', tuple(sorted(list(frame.items()) + [('1', 4)])))
                okb = ('load', tuple(sorted([(ESP, 1), (P, 1), ('info.saved_register_size', 1), ('1', -8)])))
                key = 'load'
                if got == ok0:
                    pass
                elif got == ok1:
                    if not (fs.get(CTX) is True and fs.get(SAME) is True):
                        why = 'the word after the return address is demanded on a path without a leftover return address'
                elif got == okb:
                    if abp is not True:
                        why = 'the saved-%ebp slot is demanded on a path where the record allocates no base pointer'
                else:
                    why = 'a stack word at %s is demanded; the FPO formulae read only the return address, the word after it (leftover) and the saved-%%ebp slot' % (got,)
            else:
                continue
            k2 = (key, why)
            if k2 in seen:
                continue
            seen.add(k2)
            demands += 1
            res.rule(rid, 1)
            if why:
                res.violation(rid, '%s|demand|%s' % (rid, key), f, t.get('line'), why)
    if demands < 4:
        res.error(rid, 'only %d demanded inputs (`?` on a callee register or stack read) found in the FPO unwinder; expected esp, eip, ebp and the stack reads' % demands)
    # success is only reported after the three registers were set
    sets = {}
    for b, t in f.calls():
        if (f.callee_decl(t) or '').endswith('FrameWalker::set_caller_register'):
            sets.setdefault(sh(f.expand(f.operand_tree(t['args'][1]))).strip('"'), []).append(b)
    for (b, i, tr) in ret_assigns(f):
        e = f.expand(tr)
        if e[0] == 'adt' and e[1].endswith('Option::Some'):
            res.rule(rid, 1)
            for need in ('eip', 'esp', 'ebp'):
                if not any(f.dominates(sb, b) for sb in sets.get(need, [])):
                    res.violation(rid, '%s|success-without|%s' % (rid, need), f, f.line, 'Some(()) is returned on a path that did not set $%s' % need)
    # win_frame_size = local + saved + grand-callee parameters, checked
    g = need_fn(res, bs, 'breakpad_symbols::sym_file::walker::win_frame_size', rid)
    if g is not None:
        for (b, i, tr) in ret_assigns(g):
            res.rule(rid, 1)
            e = sh(g.expand(tr))
            if 'from_residual' in e or e.endswith('Option::None)'):
                continue
            terms = set(re.findall(r'info\.\w+|grand_callee_param_size', e))
            if terms != {'info.local_size', 'info.saved_register_size', 'grand_callee_param_size'} or e.count('checked_add') != 2 or 'wrapping' in e:
                res.violation(rid, '%s|frame_size' % rid, g, g.line, 'win_frame_size is %s, not the checked sum local_size + saved_register_size + grand-callee parameter size' % e[:200])
