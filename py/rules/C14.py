"""C14 — the process state is a faithful index of the dump (structural clauses only).

Decided here, on the dataflow of the resolved program (what each field of the result is computed
from, and under which branch decisions):
  C14.1  one call stack per thread-list entry, in order: `threads` is collected from
         enumerate().map(closure) over self.thread_list.threads with no filtering / reordering
         adapter, and nothing reorders or shrinks it afterwards;
  C14.2  every call stack the closure returns carries the thread id of *its* item and the name the
         thread-names stream has for that id;
  C14.3  requesting thread: written only as Some(<index of the item>), only when
         exception-thread-id.or(breakpad requesting id) == Some(id), never for the dump-writer thread;
         in that branch the walk context is exception_context.or(thread_context), otherwise the
         thread's own context;
  C14.4  crash address: exception_information[1] only for Windows access-violation / in-page errors
         with number_parameters >= 2, else exception_address; truncated to 32 bits exactly when the
         CPU's pointer width is 32 bits; ExceptionInfo takes address and reason from these functions;
  C14.5  process id from the misc-info stream when present, else from the Linux status stream; time
         from the header; create time from misc info;
  C14.6  modules / unloaded modules are the streams' lists; per-frame unloaded offsets are
         frame.instruction - base_of_image of the modules modules_at_address(frame.instruction)
         yields, recorded under that module's name, only for frames without a loaded module.
Not decided: the value-level mapping exception code -> crash reason (hundreds of enumerators per OS);
that clause is stated as not covered."""
from .common import *
import panics

PID = 'C14'
FILTERING = ('filter', 'filter_map', 'skip', 'take', 'step_by', 'flat_map', 'flatten', 'rev', 'skip_while', 'take_while', 'chain', 'cycle', 'map_while', 'scan', 'dedup', 'peekable')
REORDER = ('remove', 'truncate', 'retain', 'retain_mut', 'pop', 'clear', 'swap_remove', 'drain', 'split_off', 'dedup', 'dedup_by', 'dedup_by_key',
           'sort', 'sort_by', 'sort_by_key', 'sort_unstable', 'sort_unstable_by', 'sort_unstable_by_key', 'reverse', 'swap', 'rotate_left', 'rotate_right', 'insert', 'push', 'extend', 'append')


def facts_at(ex, b):
    return [set((show(c), v) for c, v in facts) for facts, env in ex.states.get(b, ())]


def adt_fields(crate, path):
    a = crate.adts.get(path)
    return [x[0] for x in a['variants'][0]['fields']] if a else None


def run(tier, t0):
    res = harness.Result(PID)
    prog = program()
    mp = prog.crate('minidump_processor')
    md = prog.crate('minidump')
    uw = prog.crate('minidump_unwind')

    body = [f for f in mp.fns if re.search(r"MinidumpInfo::<'a>::into_process_state::\{closure#0\}$", f.qual)]
    if len(body) != 1:
        res.error('C14.1', 'into_process_state body not found')
        return harness.finish(res, tier, t0)
    body = body[0]
    names = adt_fields(mp, 'minidump_processor::process_state::ProcessState')
    aggs = []
    for b in sorted(body.reach):
        for s in body.blocks[b]['s']:
            if s['k'] == 'assign' and s['rv']['k'] == 'agg' and s['rv'].get('ak') == 'adt' and s['rv']['adt'].endswith('process_state::ProcessState'):
                aggs.append((b, s))
    # every non-derived construction of ProcessState in the workspace is this one
    others = []
    for cn in harness.CRATES:
        for f in prog.crate(cn).fns:
            if f is body or (f.mac and f.mac.startswith('derive(')):
                continue
            for b in sorted(f.reach):
                for s in f.blocks[b]['s']:
                    if s['k'] == 'assign' and s['rv']['k'] == 'agg' and s['rv'].get('ak') == 'adt' and s['rv']['adt'].endswith('process_state::ProcessState'):
                        others.append(f)
    res.rule('C14.1', len(aggs) + len(others), floor=1, note='ProcessState is constructed once, in into_process_state; threads = collect(map(enumerate(iter(thread_list.threads)), closure)), no filtering adapter, no later reorder / shrink')
    for f in others:
        res.violation('C14.1', 'C14.1|other-ctor|%s' % f.qual, f, f.line, 'ProcessState constructed outside into_process_state')
    if len(aggs) != 1:
        res.error('C14.1', 'expected one ProcessState aggregate in into_process_state, found %d' % len(aggs))
        return harness.finish(res, tier, t0)
    ab, agg = aggs[0]
    vals = dict(zip(names, agg['rv']['xs']))

    def val(n):
        return body.expand(body.operand_tree(vals[n]))
    # ---- C14.1
    thr = val('threads')
    s_thr = show(thr)
    mapper = None
    ok = is_call(thr, 'Iterator::collect') and is_call(thr[2], 'Iterator::map') and is_call(thr[2][2], 'Iterator::enumerate')
    if ok:
        src = thr[2][2][2]
        mapper = thr[2][3]
        ok = is_call(src, 'slice::iter') or is_call(src, 'iter')
        ok = ok and re.search(r'self\.thread_list\.threads\)*$', show(src)) is not None and mapper[0] == 'closure'
    if not ok:
        res.violation('C14.1', 'C14.1|threads-chain', body, agg.get('line'), 'ProcessState.threads is not collect(map(enumerate(iter(self.thread_list.threads)), closure)): %s' % s_thr[:300])
    for bad in FILTERING:
        if re.search(r'Iterator::%s\b' % bad, s_thr):
            res.violation('C14.1', 'C14.1|adapter|%s' % bad, body, agg.get('line'), 'the chain that builds threads contains %s(): stacks no longer correspond to thread-list entries one to one, in order' % bad)
    # no later reorder / shrink of state.threads (the walk mutates the stacks in place through iter_mut)
    for f in mp.fns:
        if not f.qual.startswith(body.qual):
            continue
        for b, t in f.calls():
            c = f.callee(t) or ''
            if c.split('::')[-1] in REORDER and re.search(r'(Vec|slice)', c) and t['args']:
                tgt = show(f.expand(f.operand_tree(t['args'][0])))
                if re.search(r'\bstate\.threads\b', tgt) and '.frames' not in tgt:
                    res.rule('C14.1', 1)
                    res.violation('C14.1', 'C14.1|reorder|%s' % c.split('::')[-1], f, t.get('line'), 'state.threads is modified by %s after being built' % c)
    walked = 0
    for b, t in body.calls():
        tr = show(body.expand(body.call_tree(t)))
        if (body.callee(t) or '').endswith('join_all'):
            walked += 1
            res.rule('C14.1', 1)
            if not re.search(r'Iterator::zip \((core::slice::iter_mut|[\w:<>]*iter_mut)[^)]*state\.threads', tr) or 'self.thread_list.threads' not in tr:
                res.violation('C14.1', 'C14.1|walk-pairing', body, t.get('line'), 'the stack walk does not pair state.threads.iter_mut() with self.thread_list.threads.iter() positionally: %s' % tr[:260])
    if not walked:
        res.error('C14.1', 'join_all over the stacks not found')

    # ---- C14.2 / C14.3 in the mapping closure
    cl = mp.fn(mapper[1]) if mapper is not None else None
    if cl is None:
        res.error('C14.2', 'thread-mapping closure not found')
        return harness.finish(res, tier, t0)
    csf = adt_fields(uw, 'minidump_unwind::CallStack')
    item_id = re.compile(r'^(\(\*?)?_2\.1\)?\.raw\.thread_id$|^thread\.raw\.thread_id$')

    def is_item_thread_id(tree):
        e = cl.expand(tree)
        return show(e) in ('_2.1.raw.thread_id', '(* _2.1).raw.thread_id') or _is_item_field(e)

    def _is_item_field(e):
        # field thread_id of field raw of (deref of) field 1 of argument 2
        s = show(e).replace('(*', '').replace(')', '').replace(' ', '')
        return s == '_2.1.raw.thread_id'
    n2 = 0
    for (b, i, tr) in ret_assigns(cl):
        n2 += 1
        e = tr
        if e[0] == 'adt' and e[1].endswith('CallStack::CallStack'):
            f = dict(zip(csf, e[2:]))
            if not is_item_thread_id(f['thread_id']):
                res.violation('C14.2', 'C14.2|thread_id|agg', cl, cl.blocks[b]['t'].get('line'), 'CallStack.thread_id is %s, not the thread id of the mapped item' % show(cl.expand(f['thread_id']))[:120])
            nm = cl.expand(f['thread_name'])
            okn = is_call(nm, 'Option::map') and is_call(nm[2], 'MinidumpThreadNames::get_name') and show(nm[2][2]).endswith('self.thread_names') and is_item_thread_id(nm[2][3])
            if not okn:
                res.violation('C14.2', 'C14.2|thread_name', cl, cl.blocks[b]['t'].get('line'), 'CallStack.thread_name is not thread_names.get_name(<item thread id>).map(..): %s' % show(nm)[:200])
        elif is_call(e, 'CallStack::with_info') or (e[0] == 'var' and isinstance(e[2], int)):
            # the placeholder of the skipped dump-writer thread: CallStack::with_info(<item id>, ..) - which leaves the name
            # empty - followed by `stack.thread_name = thread_names.get_name(<item id>).map(..)`
            named = False
            wi = e
            if e[0] == 'var':
                l = e[2]
                wi = None
                for d in cl.defs.get(l, []):
                    if d['kind'] == 'call' and is_call(cl.call_tree(d['term']), 'CallStack::with_info'):
                        wi = cl.call_tree(d['term'])
                    elif d['kind'] == 'part' and d.get('st') is not None and d['st']['k'] == 'assign' and show(cl.place_tree(d['st']['lhs'])).endswith('.thread_name'):
                        nm = cl.expand(cl.rvalue_tree(d['st']['rv']))
                        named = is_call(nm, 'Option::map') and is_call(nm[2], 'MinidumpThreadNames::get_name') and show(nm[2][2]).endswith('self.thread_names') and is_item_thread_id(nm[2][3])
                    elif d['kind'] != 'arg':
                        wi = wi if wi is not None else None
            if wi is None or not is_call(wi, 'CallStack::with_info'):
                res.violation('C14.2', 'C14.2|return-shape', cl, cl.line, 'the closure returns something other than a CallStack built for its item: %s' % show(e)[:160])
            else:
                if not is_item_thread_id(wi[2]):
                    res.violation('C14.2', 'C14.2|thread_id|with_info', cl, cl.blocks[b]['t'].get('line'), 'CallStack::with_info is given %s, not the thread id of the mapped item' % show(cl.expand(wi[2]))[:120])
                if not named:
                    res.violation('C14.2', 'C14.2|thread_name|with_info', cl, cl.blocks[b]['t'].get('line'), 'the placeholder stack of the dump-writer thread is returned without thread_names.get_name(<item thread id>): that thread loses its name')
        else:
            res.violation('C14.2', 'C14.2|return-shape', cl, cl.line, 'the closure returns something other than a CallStack built for its item: %s' % show(e)[:160])
    res.rule('C14.2', n2, floor=2, note='every CallStack returned by the mapping closure carries the id (and the stream\'s name) of its own item')

    ex = PathExplorer(cl, keep=lambda c: True)
    ex.run()
    EQ = 'PartialEq>::eq'
    _par, up_env = closure_env(prog, cl)
    # what "the thread that requested the dump" is, whatever local it was bound to on the way: the exception stream's
    # thread id, else the Breakpad info stream's requesting thread id
    SELECTOR = "(std::option::Option::or (std::option::Option::map (std::option::Option::as_ref self.exception) (closure minidump_processor::processor::MinidumpInfo::<'a>::into_process_state::{closure#0}::{closure#0})) self.requesting_thread_id)"
    n3 = 0
    writes = []
    for b in sorted(cl.reach):
        for s in cl.blocks[b]['s']:
            if s['k'] == 'assign' and show(cl.place_tree(s['lhs'])) == 'requesting_thread':
                writes.append((b, s))
    for b, s in writes:
        n3 += 1
        tr = cl.expand(cl.rvalue_tree(s['rv']))
        if not (tr[0] == 'adt' and tr[1].endswith('Option::Some') and tr[2] == ('field', ('arg', 2), '0')):
            res.violation('C14.3', 'C14.3|index', cl, s.get('line'), 'requesting_thread is written %s, not Some(<enumerate index of the item>)' % show(tr)[:100])
        fs = facts_at(ex, b)
        if not fs:
            res.error('C14.3', 'no path state at the requesting_thread write')
        for facts, env_ in ex.states.get(b, ()):
            sel, skip = [], []
            for cnd, v in facts:
                if not (cnd[0] == 'call' and EQ in cnd[1] and len(cnd) == 4 and show(cnd[3]) == '(adt std::option::Option::Some id)'):
                    continue
                lhs = show(resolve_upvars(cl, cl.expand(cnd[2]), up_env))
                if lhs == SELECTOR:
                    sel.append(v)
                elif lhs == 'self.dump_thread_id':
                    skip.append(v)
            f = sorted((show(cnd)[:120], v) for cnd, v in facts)
            if not sel or not all(v is True for v in sel):
                res.violation('C14.3', 'C14.3|selector', cl, s.get('line'), 'requesting_thread is written on a path that did not establish <exception thread id>.or(<breakpad requesting thread id>) == Some(id): %s' % f[:4])
            if not skip or not all(v is False for v in skip):
                res.violation('C14.3', 'C14.3|dump-thread', cl, s.get('line'), 'requesting_thread can be written for the dump-writer thread (no dump_thread_id == Some(id) early return on this path)')
    # every thread that is not the dump writer reaches the requesting-thread decision: no other early exit of the closure
    # may come before it (such a thread could never be reported as the requesting thread nor start from the exception context)
    for b in sorted(cl.reach):
        if cl.blocks[b]['t']['k'] != 'return':
            continue
        n3 += 1
        for facts, env_ in ex.states.get(b, ()):
            sel, skip = [], []
            for cnd, v in facts:
                if not (cnd[0] == 'call' and EQ in cnd[1] and len(cnd) == 4 and show(cnd[3]) == '(adt std::option::Option::Some id)'):
                    continue
                lhs = show(resolve_upvars(cl, cl.expand(cnd[2]), up_env))
                if lhs == SELECTOR:
                    sel.append(v)
                elif lhs == 'self.dump_thread_id':
                    skip.append(v)
            if not sel and not any(v is True for v in skip):
                others = sorted(show(cnd)[:100] for cnd, v in facts if not (cnd[0] == 'call' and EQ in cnd[1]))
                res.violation('C14.3', 'C14.3|undecided-exit', cl, cl.line, 'the per-thread closure can return for a thread that is not the dump writer without deciding whether it is the requesting thread (path conditions: %s)' % others[:3])
                break
    if not writes:
        res.error('C14.3', 'no write of requesting_thread in the mapping closure')
    # `id` is the item's thread id
    idl = [l for l in range(len(cl.locals)) if cl.local_name(l) == 'id']
    for l in idl:
        sd = cl.single_def(l)
        n3 += 1
        if sd is None or not is_item_thread_id(cl.rvalue_tree(sd['rv']) if sd['kind'] == 'assign' else cl.call_tree(sd['term'])):
            res.violation('C14.3', 'C14.3|id', cl, cl.line, '`id` is not the thread id of the mapped item')
    # crashing_thread_id (captured) = self.exception.as_ref().map(|e| e.get_crashing_thread_id())
    cdefs = [l for l in range(len(body.locals)) if body.local_name(l) == 'crashing_thread_id']
    for l in cdefs:
        sd = body.single_def(l)
        n3 += 1
        tr = body.expand(body.call_tree(sd['term'])) if sd is not None and sd['kind'] == 'call' else None
        okc = tr is not None and is_call(tr, 'Option::map') and is_call(tr[2], 'Option::as_ref') and show(tr[2][2]).endswith('self.exception') and tr[3][0] == 'closure'
        if okc:
            g = mp.fn(tr[3][1])
            okc = g is not None and all(is_call(g.expand(t2), 'get_crashing_thread_id') for (_, _, t2) in ret_assigns(g))
        if not okc:
            res.violation('C14.3', 'C14.3|crashing_thread_id', body, body.line, 'crashing_thread_id is not self.exception.as_ref().map(|e| e.get_crashing_thread_id())')
    if not cdefs:
        res.error('C14.3', 'local crashing_thread_id not found')
    # context preference
    ctx_defs = []
    for l in range(len(cl.locals)):
        if cl.local_name(l) == 'context' and 'Option<&' in (cl.local_ty(l) or ''):
            for d in cl.defs.get(l, []):
                if d['kind'] == 'call':
                    ctx_defs.append((d['bb'], cl.call_tree(d['term'])))
    for b, tr in ctx_defs:
        n3 += 1
        def sel_of(facts):
            for cnd, v in facts:
                if cnd[0] == 'call' and EQ in cnd[1] and len(cnd) == 4 and show(cnd[3]) == '(adt std::option::Option::Some id)' \
                        and show(resolve_upvars(cl, cl.expand(cnd[2]), up_env)) == SELECTOR:
                    return v
            return None
        sts = list(ex.states.get(b, ()))
        sel_true = bool(sts) and all(sel_of(facts) is True for facts, _e in sts)
        sel_false = bool(sts) and all(sel_of(facts) is False for facts, _e in sts)
        s_tr = show(tr)
        if sel_true:
            if s_tr != '(std::option::Option::or (std::option::Option::as_deref exception_context) (std::option::Option::as_deref thread_context))':
                res.violation('C14.3', 'C14.3|context|requesting', cl, cl.blocks[b]['t'].get('line'), 'for the requesting thread the walk context is %s, not exception_context.or(thread_context)' % s_tr[:160])
        elif sel_false:
            if s_tr != '(std::option::Option::as_deref thread_context)':
                res.violation('C14.3', 'C14.3|context|other', cl, cl.blocks[b]['t'].get('line'), 'for a non-requesting thread the walk context is %s, not its own thread context' % s_tr[:160])
        else:
            res.violation('C14.3', 'C14.3|context|unguarded', cl, cl.blocks[b]['t'].get('line'), 'a walk context is chosen on a path that does not decide whether this is the requesting thread')
    if len(ctx_defs) < 2:
        res.error('C14.3', 'expected two definitions of the walk context, found %d' % len(ctx_defs))
    # thread_context is the item's own context
    for l in range(len(cl.locals)):
        if cl.local_name(l) == 'thread_context':
            sd = cl.single_def(l)
            n3 += 1
            tr = cl.expand(cl.call_tree(sd['term'])) if sd is not None and sd['kind'] == 'call' else None
            if not (tr is not None and is_call(tr, 'MinidumpThread::context') and show(tr[2]) in ('_2.1', '(* _2.1)')):
                res.violation('C14.3', 'C14.3|thread_context', cl, cl.line, 'thread_context is not <item>.context(..): %s' % (show(tr)[:120] if tr else '?'))
    # the context frame is built from that context
    for b, t in cl.calls():
        if (cl.callee(t) or '').endswith('StackFrame::from_context'):
            n3 += 1
            a0 = show(cl.expand(cl.operand_tree(t['args'][0])))
            tr1 = show(cl.expand(cl.operand_tree(t['args'][1])))
            if 'Clone>::clone' not in a0 or 'context' not in a0 or not tr1.endswith('FrameTrust::Context)'):
                res.violation('C14.3', 'C14.3|context-frame', cl, t.get('line'), 'the first frame is not StackFrame::from_context(context.clone(), FrameTrust::Context): %s %s' % (a0[:100], tr1[:60]))
    res.rule('C14.3', n3, floor=8, note='requesting-thread choice, index, dump-thread skip, context preference')

    # exception_context / exception_info come from the exception details handed in
    n3b = 0
    for nm, fld in (('exception_context', 'context'), ('exception_info', 'info')):
        for l in range(len(body.locals)):
            if body.local_name(l) == nm:
                n3b += 1
                srcs = []
                for d in body.defs.get(l, []):
                    if d['kind'] != 'assign':
                        continue
                    x = d['rv'].get('x', {})
                    pl = x.get('m') or x.get('c')
                    if pl is None:
                        srcs.append(show(body.rvalue_tree(d['rv'])))
                        continue
                    # the matched tuple: every definition of it
                    for d2 in body.defs.get(pl['l'], []):
                        if d2['kind'] == 'assign':
                            srcs.append(show(body.expand(body.rvalue_tree(d2['rv']))))
                joined = ' ; '.join(srcs)
                if not re.search(r'\b(details|exception_details)\)?\.%s\b' % fld, joined):
                    res.violation('C14.3', 'C14.3|%s' % nm, body, body.line, '%s does not come from the exception details argument (field %s): %s' % (nm, fld, joined[:200]))
    res.rule('C14.3', n3b)

    # ---- C14.4 crash address
    gca = [f for f in md.fns if re.search(r"MinidumpException::<'a>::get_crash_address$", f.qual)]
    n4 = 0
    if len(gca) != 1:
        res.error('C14.4', 'MinidumpException::get_crash_address not found')
    else:
        g = gca[0]
        ex2 = PathExplorer(g, keep=lambda c: True)
        ex2.run()
        AV = {3221225477, 3221225478}   # EXCEPTION_ACCESS_VIOLATION, EXCEPTION_IN_PAGE_ERROR
        codes = prog.crate('minidump_common').adts.get('minidump_common::errors::windows::ExceptionCodeWindows') or {}
        named = {v['name']: v['discr'] for v in codes.get('variants', [])}
        if named:
            AV = {named.get('EXCEPTION_ACCESS_VIOLATION'), named.get('EXCEPTION_IN_PAGE_ERROR')}
        winos = prog.crate('minidump').adts.get('minidump::system_info::Os') or {}
        win = [v['discr'] for v in winos.get('variants', []) if v['name'] == 'Windows']
        for l in range(len(g.locals)):
            if g.local_name(l) != 'addr':
                continue
            for d in g.defs.get(l, []):
                if d['kind'] != 'assign':
                    continue
                n4 += 1
                tr = show(g.expand(g.rvalue_tree(d['rv'])))
                fs = facts_at(ex2, d['bb'])
                if 'exception_information' in tr:
                    if tr != '(index self.raw.exception_record.exception_information 1)':
                        res.violation('C14.4', 'C14.4|param-index', g, d['st'].get('line'), 'the faulting address is read from %s, not exception_information[1]' % tr)
                    for f in fs:
                        ge2 = any(re.match(r'^\(Ge .*number_parameters\)? 2\)$|^\(Ge \S*number_parameters 2\)$', c) and v is True for c, v in f)
                        if not ge2:
                            res.violation('C14.4', 'C14.4|param-count', g, d['st'].get('line'), 'exception_information[1] is used on a path without number_parameters >= 2')
                    # which OS / which exception codes reach this assignment, whatever the spelling of the case split
                    import normal
                    osadt = prog.crate('minidump').adts.get('minidump::system_info::Os')
                    if osadt:
                        got, _n = normal.variants_reaching(g, osadt, lambda x: isinstance(x, tuple) and len(x) == 3 and x[0] == 'var' and x[2] == 2, [d['bb']])
                        if got != {'Windows'}:
                            res.violation('C14.4', 'C14.4|os', g, d['st'].get('line'), 'exception_information[1] is used for an OS other than Windows: %s' % sorted(got))
                    if codes:
                        def is_code(x):
                            x = normal.simplify(x)
                            return isinstance(x, tuple) and x[0] == 'vfield' and x[1] == 'Some' and 'from_u32' in show(x) and 'exception_code' in show(x)
                        got, _n = normal.variants_reaching(g, codes, is_code, [d['bb']])
                        want = {'EXCEPTION_ACCESS_VIOLATION', 'EXCEPTION_IN_PAGE_ERROR'}
                        if got != want:
                            res.violation('C14.4', 'C14.4|code', g, d['st'].get('line'), 'exception_information[1] is used for an exception code other than access violation / in-page error: %s' % sorted(got ^ want)[:6])
                elif tr != 'self.raw.exception_record.exception_address':
                    res.violation('C14.4', 'C14.4|address-source', g, d['st'].get('line'), 'the crash address is taken from %s' % tr)
        # the Windows AV paths with enough parameters must not fall back to exception_address
        for (b, i, tr) in ret_assigns(g):
            n4 += 1
            e = show(g.expand(tr)) if isinstance(tr, tuple) else str(tr)
            fs = facts_at(ex2, b)
            for f in fs:
                pw = [v for c, v in f if c == '(discr (minidump::system_info::Cpu::pointer_width cpu))']
                if not pw:
                    res.violation('C14.4', 'C14.4|width-undecided', g, g.line, 'a crash address is returned on a path that never looked at the pointer width')
                    continue
                pwadt = prog.crate('minidump').adts.get('minidump::system_info::PointerWidth') or {}
                b32 = [v['discr'] for v in pwadt.get('variants', []) if v['name'] == 'Bits32']
                is32 = bool(b32) and pw[0] == b32[0]
                if is32 and not e.startswith('(cast u64 (cast u32 '):
                    res.violation('C14.4', 'C14.4|mask32', g, g.line, 'on a 32-bit CPU the crash address is returned as %s, not truncated to 32 bits and zero-extended' % e[:80])
                if not is32 and pw[0] != ('not', ) and e.startswith('(cast u64 (cast u32 ') and not isinstance(pw[0], tuple):
                    res.violation('C14.4', 'C14.4|mask64', g, g.line, 'the crash address is truncated to 32 bits on a CPU whose pointer width is not 32 bits')
    # ---- C14.9 the Windows error decomposition: severity / facility / error masks partition the 32-bit code and the
    # facility field is shifted down by exactly its position (a narrower facility mask makes an unknown code with a stray
    # high facility bit look like a known facility)
    res.rule('C14.9', 0, floor=1, note='SEVERITY / FACILITY / ERROR masks of from_windows_error_with_facility are disjoint, cover the word, and the facility shift is the mask position')
    FW = 'minidump::minidump::CrashReason::from_windows_error_with_facility'
    fw = md.fn(FW)
    if fw is None:
        res.error('C14.9', '%s not found' % FW)
    else:
        ms = dict((k, prog.const_int('%s::%s' % (FW, k), 'minidump')) for k in ('SEVERITY_MASK', 'FACILITY_MASK', 'ERROR_MASK'))
        res.rule('C14.9', 1)
        if any(v is None for v in ms.values()):
            res.error('C14.9', 'mask statics not found: %s' % ms)
        else:
            sv, fv, ev = ms['SEVERITY_MASK'], ms['FACILITY_MASK'], ms['ERROR_MASK']
            shifts = []
            for b in sorted(fw.reach):
                for s_ in fw.blocks[b]['s']:
                    if s_['k'] == 'assign' and s_['rv'].get('k') == 'bin' and s_['rv'].get('op') == 'Shr':
                        tr = fw.expand(fw.rvalue_tree(s_['rv']))
                        if 'FACILITY_MASK' in show(tr) and tr[3][0] == 'int':
                            shifts.append(tr[3][1])
            tz = (fv & -fv).bit_length() - 1 if fv else -1
            if (sv | fv | ev) != 0xffffffff or (sv & fv) or (fv & ev) or (sv & ev) or shifts != [tz]:
                res.violation('C14.9', 'C14.9|masks', fw, fw.line, 'the masks 0x%08x / 0x%08x / 0x%08x do not partition the 32-bit code (union 0x%08x) or the facility field is shifted by %s instead of %d' % (sv, fv, ev, sv | fv | ev, shifts, tz))
    # ExceptionInfo gets reason and address from these functions
    ged = [f for f in mp.fns if re.search(r"MinidumpInfo::<'a>::get_exception_details$", f.qual)]
    if len(ged) != 1:
        res.error('C14.4', 'get_exception_details not found')
    else:
        g = ged[0]
        srcs = {}
        for l in range(len(g.locals)):
            nm = g.local_name(l)
            if nm in ('reason', 'address') and nm not in srcs:
                sd = g.single_def(l)
                srcs[nm] = show(g.expand(g.call_tree(sd['term']))) if sd is not None and sd['kind'] == 'call' else '?'
        for nm, fnn in (('reason', 'get_crash_reason'), ('address', 'get_crash_address')):
            n4 += 1
            e = srcs.get(nm, '?')
            if not (e.startswith('(minidump::MinidumpException::%s ' % fnn) and e.endswith(' self.system_info.os self.system_info.cpu)')):
                res.violation('C14.4', 'C14.4|%s-source' % nm, g, g.line, '`%s` in get_exception_details is %s, not exception.%s(self.system_info.os, self.system_info.cpu)' % (nm, e[:160], fnn))
        for f in mp.fns:
            if not (f is g or f.qual.startswith(g.qual + '::{')):
                continue
            for b, t in f.calls():
                c = f.callee(t) or ''
                if c.endswith('ExceptionInfo::new') or c.endswith('ExceptionInfo::with_op_analysis'):
                    n4 += 1
                    a_reason = show(f.operand_tree(t['args'][0]))
                    a_addr = show(f.operand_tree(t['args'][1]))
                    if a_reason not in ('reason', '(* reason)', '(*reason)') and not a_reason.endswith('reason)') and a_reason != 'reason':
                        res.violation('C14.4', 'C14.4|reason-arg|%s' % c.split('::')[-1], f, t.get('line'), 'ExceptionInfo.reason is %s, not `reason`' % a_reason[:160])
                    if not re.match(r'^\(<?[\w:<> ]*Into[\w:<> ]*>?::into \(?\*?\s*address\)?\)$', a_addr):
                        res.violation('C14.4', 'C14.4|address-arg|%s' % c.split('::')[-1], f, t.get('line'), 'ExceptionInfo.address is %s, not `address.into()`' % a_addr[:160])
    # parameter gating of the Windows crash reason: exception_information[k] is read only where the record declares
    # at least k + 1 parameters (an undeclared slot holds whatever bytes the writer left there)
    fw = [f for f in md.fns if f.qual.endswith('CrashReason::from_windows_exception')]
    if len(fw) != 1:
        res.error('C14.4', 'CrashReason::from_windows_exception not found')
    else:
        g = fw[0]
        seen = 0
        for b in sorted(g.reach):
            t = g.blocks[b]['t']
            if t['k'] == 'assert' and t.get('ak') == 'bounds' and show(g.expand(g.operand_tree(t['len']))) == '15':
                ix = g.expand(g.operand_tree(t['idx']))
                n4 += 1
                seen += 1
                if ix[0] != 'int':
                    res.violation('C14.4', 'C14.4|reason-param|dynamic', g, t.get('line'), 'exception_information is indexed by %s' % show(ix)[:80])
                    continue
                k = ix[1]
                ok = False
                for rel, gd, sc in panics.dominating_facts(g, b):
                    if rel[0] in ('le', 'lt') and show(rel[2]) == 'record.number_parameters' and rel[1][0] == 'int':
                        need = rel[1][1] if rel[0] == 'le' else rel[1][1] + 1
                        if need >= k + 1:
                            ok = True
                if not ok:
                    res.violation('C14.4', 'C14.4|reason-param|%d' % k, g, t.get('line'), 'the Windows crash reason reads exception_information[%d] without the record declaring at least %d parameters' % (k, k + 1))
        if seen < 3:
            res.error('C14.4', 'expected at least 3 parameter reads in from_windows_exception, found %d' % seen)
    res.rule('C14.4', n4, floor=10, note='crash address: parameter gating, 32-bit truncation by pointer width, ExceptionInfo fed from get_crash_reason / get_crash_address(os, cpu)')

    # ---- C14.5 process id, times
    n5 = 0
    ex3 = PathExplorer(body, keep=lambda c: 'misc_info' in show(c))
    ex3.run()
    for nm in ('process_id', 'process_create_time'):
        tr = body.operand_tree(vals[nm])
        if tr[0] != 'var':
            res.violation('C14.5', 'C14.5|%s|shape' % nm, body, agg.get('line'), '%s is %s' % (nm, show(tr)[:100]))
            continue
        for d in body.defs.get(tr[2], []):
            if d['kind'] not in ('assign', 'call'):
                continue
            n5 += 1
            e = show(body.expand(body.rvalue_tree(d['rv']) if d['kind'] == 'assign' else body.call_tree(d['term'])))
            fs = facts_at(ex3, d['bb'])
            has_misc = fs and all(any('self.misc_info' in c and c.startswith('(discr') and v == 1 for c, v in f) for f in fs)
            no_misc = fs and all(any('self.misc_info' in c and c.startswith('(discr') and v != 1 for c, v in f) for f in fs)
            if has_misc:
                want = 'RawMiscInfo::process_id' if nm == 'process_id' else 'MinidumpMiscInfo::process_create_time'
                if want not in e or 'misc_info' not in e:
                    res.violation('C14.5', 'C14.5|%s|misc' % nm, body, None, 'with a misc-info stream %s is %s' % (nm, e[:140]))
            elif no_misc:
                if nm == 'process_id':
                    okp = e.startswith('(std::option::Option::map self.linux_proc_status (closure ')
                    if okp:
                        g = mp.fn(e.split('(closure ')[1].rstrip(')').split(' ')[0])
                        okp = g is not None and all(show(g.expand(t2)).endswith('.pid') for (_, _, t2) in ret_assigns(g))
                    if not okp:
                        res.violation('C14.5', 'C14.5|process_id|linux', body, None, 'without misc info process_id is %s, not linux_proc_status.map(|s| s.pid)' % e[:140])
                elif e != '(adt std::option::Option::None)':
                    res.violation('C14.5', 'C14.5|process_create_time|none', body, None, 'without misc info process_create_time is %s' % e[:140])
            elif nm == 'process_id' and re.match(r"^\(std::option::Option::or_else \(std::option::Option::and_then \(std::option::Option::as_ref self\.misc_info\) \(closure ([^) ]+)\)\) \(closure ([^) ]+) self\)\)$", e):
                # misc_info.as_ref().and_then(|m| m.raw.process_id().cloned()).or_else(|| linux_proc_status.as_ref().map(|s| s.pid)):
                # the misc-info pid when the stream carries one, else the Linux status pid
                m5 = re.match(r"^\(std::option::Option::or_else \(std::option::Option::and_then \(std::option::Option::as_ref self\.misc_info\) \(closure ([^) ]+)\)\) \(closure ([^) ]+) self\)\)$", e)
                g1, g2 = mp.fn(m5.group(1)), mp.fn(m5.group(2))
                r1 = [show(g1.expand(t2)) for (_, _, t2) in ret_assigns(g1)] if g1 is not None else []
                r2 = [show(g2.expand(t2)) for (_, _, t2) in ret_assigns(g2)] if g2 is not None else []
                ok1 = len(r1) == 1 and 'RawMiscInfo::process_id' in r1[0] and 'misc_info' in r1[0]
                ok2 = len(r2) == 1 and r2[0].startswith('(std::option::Option::map (std::option::Option::as_ref ') and 'linux_proc_status' in r2[0]
                if ok2:
                    g3 = mp.fn(r2[0].split('(closure ')[1].rstrip(')').split(' ')[0])
                    ok2 = g3 is not None and all(show(g3.expand(t2)).endswith('.pid') for (_, _, t2) in ret_assigns(g3))
                if not (ok1 and ok2):
                    res.violation('C14.5', 'C14.5|process_id|combinator', body, None, 'process_id is not misc_info pid .or_else(linux status pid): %s / %s' % (r1, r2))
                n5 += 1
            elif nm == 'process_create_time' and re.match(r"^\(std::option::Option::and_then \(std::option::Option::as_ref self\.misc_info\) \(closure ([^)]+)\)\)$", e):
                # the combinator spelling of the same case split: misc_info.as_ref().and_then(|m| m.process_create_time())
                g = mp.fn(re.match(r"^\(std::option::Option::and_then \(std::option::Option::as_ref self\.misc_info\) \(closure ([^)]+)\)\)$", e).group(1))
                okc = g is not None and [show(g.expand(t2)) for (_, _, t2) in ret_assigns(g)] in (['(minidump::MinidumpMiscInfo::process_create_time misc_info)'], ['(minidump::MinidumpMiscInfo::process_create_time _2)'])
                if not okc:
                    res.violation('C14.5', 'C14.5|process_create_time|combinator', body, None, 'process_create_time is %s, whose closure is not |m| m.process_create_time()' % e[:120])
                n5 += 1   # stands for the two arms of the if-let spelling
            else:
                res.violation('C14.5', 'C14.5|%s|unguarded' % nm, body, None, '%s is assigned on a path that does not test for the misc-info stream: %s' % (nm, e[:100]))
    n5 += 1
    if show(val('time')) != '(<std::time::SystemTime as std::ops::Add<std::time::Duration>>::add (item std::time::SystemTime::UNIX_EPOCH) (std::time::Duration::from_secs (cast u64 dump.header.time_date_stamp)))':
        res.violation('C14.5', 'C14.5|time', body, agg.get('line'), 'ProcessState.time is %s' % show(val('time'))[:200])
    res.rule('C14.5', n5, floor=5, note='process id: misc info else Linux status; create time: misc info else None; time: header timestamp')

    # ---- C14.6 modules
    n6 = 0
    for nm, fld in (('modules', 'self.modules'), ('unloaded_modules', 'self.unloaded_modules'), ('system_info', 'self.system_info'), ('handles', 'self.handle_data_stream')):
        n6 += 1
        if show(val(nm)) != fld:
            res.violation('C14.6', 'C14.6|%s' % nm, body, agg.get('line'), 'ProcessState.%s is %s, not %s' % (nm, show(val(nm))[:120], fld))
    # MinidumpInfo.modules / unloaded_modules are the streams (or empty lists)
    mk = [f for f in mp.fns if re.search(r"MinidumpInfo::<'a>::new$", f.qual) or re.search(r"MinidumpInfo::<'a>::new::\{closure#0\}$", f.qual)]
    found = 0
    for f in mk:
        for l in range(len(f.locals)):
            nm = f.local_name(l)
            if nm in ('modules', 'unloaded_modules') and 'List' in (f.local_ty(l) or '') and 'Result' not in (f.local_ty(l) or ''):
                defs = [d for d in f.defs.get(l, []) if d['kind'] in ('assign', 'call')]
                if not defs:
                    continue
                found += 1
                n6 += 1
                want = 'MinidumpModuleList' if nm == 'modules' else 'MinidumpUnloadedModuleList'
                for d in defs:
                    e = show(f.expand(f.rvalue_tree(d['rv']) if d['kind'] == 'assign' else f.call_tree(d['term'])))
                    okm = ('Minidump::get_stream' in e and e.startswith('(Ok.0')) or e == '(minidump::%s::new)' % want
                    if not okm:
                        res.violation('C14.6', 'C14.6|%s|source' % nm, f, f.line, '%s is %s, neither the Ok payload of get_stream::<%s>() nor an empty list' % (nm, e[:160], want))
                    ty = f.local_ty(l) or ''
                    if want not in ty:
                        res.violation('C14.6', 'C14.6|%s|type' % nm, f, f.line, '%s has type %s' % (nm, ty))
    if found < 2:
        res.error('C14.6', 'modules / unloaded_modules locals of MinidumpInfo::new not found (%d)' % found)
    # per-frame unloaded offsets
    walkers = [f for f in mp.fns if f.qual.startswith(body.qual + '::{')]
    seen_off = 0
    for f in walkers:
        for b, t in f.calls():
            if (f.callee(t) or '').endswith('MinidumpUnloadedModuleList::modules_at_address'):
                seen_off += 1
                n6 += 1
                a = show(f.expand(f.operand_tree(t['args'][1])))
                if not a.endswith('frame.instruction') and '.instruction' not in a:
                    res.violation('C14.6', 'C14.6|unloaded|lookup', f, t.get('line'), 'unloaded modules are looked up at %s, not at frame.instruction' % a[:100])
                # guard: only for frames without a module
                guarded = False
                for rel, gg, sc in panics.dominating_facts(f, b):
                    s_rel = ' '.join(show(x) if isinstance(x, tuple) else str(x) for x in rel)
                    if 'frame.module' in s_rel and ('is_none' in s_rel or 'discr' in s_rel):
                        guarded = True
                if not guarded:
                    res.violation('C14.6', 'C14.6|unloaded|guard', f, t.get('line'), 'unloaded-module attribution is not restricted to frames without a loaded module')
        for b in sorted(f.reach):
            for s in f.blocks[b]['s']:
                if s['k'] == 'assign' and f.local_name(s['lhs']['l']) == 'offset' and not s['lhs'].get('p'):
                    e = show(f.expand(f.rvalue_tree(s['rv'])))
                    if 'base_of_image' in e or 'instruction' in e:
                        n6 += 1
                        seen_off += 1
                        if not (e.startswith('(Sub frame.instruction ') and e.endswith('.raw.base_of_image)') and 'Iterator>::next' in e):
                            res.violation('C14.6', 'C14.6|unloaded|offset', f, s.get('line'), 'the per-frame offset is %s, not frame.instruction - unloaded.raw.base_of_image' % e[:160])
    if seen_off < 2:
        res.error('C14.6', 'unloaded-module attribution code not found')
    # the per-frame attribution is only as complete as the lookup it iterates: modules_at_address must return every
    # unloaded module covering the address (C08.5: sorted once, filtered with range.contains over the whole list)
    from . import backing
    try:
        summ = backing.collect('C08')
        n6 += 1
        bad = [k for r, k in summ['violations'] if r == 'C08.5'] + (['precondition'] if 'C08.5' in summ['errors'] else [])
        if bad or 'C08.5' not in summ['rules']:
            res.violation('C14.6', 'C14.6|unloaded|lookup-complete', body, None, 'MinidumpUnloadedModuleList::modules_at_address does not return every covering module (rule C08.5 fails: %s), so frames lose unloaded-module entries' % (bad[:2] or 'rule missing'))
    except Exception as e:
        res.error('C14.6', 'could not consult C08.5: %r' % (e,))
    res.rule('C14.6', n6, floor=8, note='modules / unloaded modules / system info / handles are the streams\' values; per-frame unloaded offsets')

    # C14.7 the process id of the Linux status stream: only a number that the stream carries.  The conversion
    # From<MinidumpLinuxProcStatus> must not invent one when the `Pid` line is missing or unparsable.
    res.rule('C14.7', 0, floor=1, note='LinuxProcStatus.pid has no made-up default: a status stream without a usable Pid line gives no process id')
    cf = [f for f in mp.fns if re.search(r'LinuxProcStatus as std::convert::From<.*MinidumpLinuxProcStatus', f.path) and f.path.endswith('::from')]
    if len(cf) != 1:
        res.error('C14.7', 'From<MinidumpLinuxProcStatus> for LinuxProcStatus not found')
    else:
        f7 = cf[0]
        for b in sorted(f7.reach):
            for s_ in f7.blocks[b]['s']:
                if s_['k'] == 'assign' and s_['rv']['k'] == 'agg' and s_['rv'].get('ak') == 'adt' and s_['rv']['adt'].endswith('LinuxProcStatus'):
                    res.rule('C14.7', 1)
                    vals = dict(zip(s_['rv']['fields'], s_['rv']['xs']))
                    tr = f7.expand(f7.operand_tree(vals['pid']))
                    defaults = [n for n in walk(tr) if isinstance(n, tuple) and n and n[0] == 'call' and re.search(r'Option::(map_or|unwrap_or|unwrap_or_default)$|Result::(unwrap_or|unwrap_or_default)$', n[1])]
                    if defaults:
                        res.violation('C14.7', 'C14.7|pid-default', f7, s_.get('line'), 'the pid of a Linux status stream falls back to a constant (%s): a stream without a `Pid` line, or with an unparsable one, reports process id 0 as if the dump said so' % defaults[0][1].split('::')[-1])
    res.assumptions += [
        'Not decided: the mapping exception code / flags / parameters -> CrashReason (CrashReason::from_exception): hundreds of enumerators per OS, value-level',
        'Not decided: that MinidumpThread::context / MinidumpException::context decode the right bytes (C02 covers the field-level reading)',
        'Iterator::enumerate / map / collect / zip / join_all preserve positions (std / futures-util semantics)',
    ]
    return harness.finish(res, tier, t0, distinct=6, explanation=(
        'Dataflow shape of the one place that builds ProcessState and of get_crash_address, read from MIR of the current tree: what each result field is computed from and, '
        'path-sensitively, under which branch decisions (requesting-thread selector, dump-thread skip, misc-info presence, Windows access-violation gating, pointer width). '
        'These are the structural clauses of the property; the value-level crash-reason mapping is not decided.'))
