"""C05 — every produced call stack is well-formed and makes progress.

Path-sensitive dominance rules over the six per-architecture `get_caller_frame`
coroutines plus structural rules on frame construction.  See DESIGN.md §C05."""
from .common import *
import panics

PID = 'C05'
ADJUST = {'x86': 1, 'amd64': 1, 'arm': 2, 'arm64': 4, 'arm64_old': 4, 'mips': 8}
LEAF_OK = {'arm', 'arm64', 'arm64_old', 'mips'}
UNWINDER_TRUST = {'CallFrameInfo', 'FramePointer', 'Scan'}
TRUST_BY_FN = {'get_caller_by_cfi': 'CallFrameInfo', 'get_caller_by_frame_pointer': 'FramePointer',
               'get_caller_by_scan': 'Scan', 'get_caller_by_scan32': 'Scan', 'get_caller_by_scan64': 'Scan'}


UNWINDER_RE = r'^minidump_unwind::\w+::get_caller_(by_\w+|frame)(::\{closure#\d+\})*$'


def arch_fns(prog, res):
    c = prog.crate('minidump_unwind')
    disp = [f for f in c.fns if f.path.startswith('minidump_unwind::get_caller_frame')]
    found = set()
    for f in disp:
        for b, t in f.calls():
            m = re.match(r'minidump_unwind::(\w+)::get_caller_frame$', f.callee(t))
            if m:
                found.add(m.group(1))
    out = {}
    for a in sorted(found):
        fn = c.fn('minidump_unwind::%s::get_caller_frame::{closure#0}' % a)
        if fn is None:
            res.error('C05.0', 'coroutine body of %s::get_caller_frame not found' % a)
        else:
            out[a] = fn
    return out


def is_ip_of(fn, tree, frame_tree):
    """tree == get_instruction_pointer(<frame>.context)"""
    t = fn.expand(tree)
    if not is_call(t, 'MinidumpContext::get_instruction_pointer') or len(t) != 3:
        return False
    a = t[2]
    return a[0] == 'field' and a[2] == 'context' and fn.expand(a[1]) == fn.expand(frame_tree)


def is_sp_of(fn, tree, frame_tree):
    t = strip_casts(fn.expand(tree))
    if not is_call(t, 'MinidumpContext::get_stack_pointer') or len(t) != 3:
        return False
    a = t[2]
    return a[0] == 'field' and a[2] == 'context' and fn.expand(a[1]) == fn.expand(frame_tree)


def is_callee_sp(prog, fn, tree, arch):
    """the callee's stack pointer read from the `ctx` parameter (first captured variable)"""
    t = strip_casts(resolve_items(prog, 'minidump_unwind', fn.expand(tree)))
    def is_ctx(x):
        x = fn.expand(x)
        return x[0] == 'var' and x[1] == 'ctx'
    if t[0] == 'field' and is_ctx(t[1]):
        return (arch, t[2]) in (('x86', 'esp'), ('amd64', 'rsp'))
    if is_call(t, 'get_register_always') and len(t) == 4 and is_ctx(t[2]):
        return t[3] == ('str', 'sp') or (arch == 'arm' and t[3] == ('str', 'r13'))
    if is_call(t, 'get_stack_pointer') and len(t) == 3 and is_ctx(t[2]):
        return True
    return False


def check_frame_fn(prog, res, arch, fn):
    ex = PathExplorer(fn).run()
    if ex.truncated:
        res.error('C05.1', 'path exploration of %s exceeded its state budget' % fn.qual)
        return
    somes = some_returns(fn)
    res.rule('C05.1', 0, floor=6, note='nullish cut-off dominates every Some return')
    res.rule('C05.2', 0, floor=6, note='sp strictly increases (leaf exception only arm/arm64/mips, first frame, equal sp)')
    res.rule('C05.3', 0, floor=6, note='lookup address = return address - call adjustment')
    if not somes:
        res.error('C05.1', 'no `Some(frame)` return found in %s' % fn.qual)
    for (b, i, frame_tree) in somes:
        states = ex.states.get(b, set())
        if not states:
            continue
        res.rule('C05.1', 1)
        res.rule('C05.2', 1)
        bad1 = bad2 = None
        for facts, env in states:
            rels = relations(facts)
            envd = dict(env)
            ft = subst(frame_tree, envd)
            # --- C05.1
            ok1 = False
            for r in rels:
                if r[0] in ('le', 'lt') and isinstance(r[1], tuple) and r[1] and r[1][0] == 'item':
                    r = (r[0], panics.resolve_items(prog, 'minidump_unwind', r[1])) + tuple(r[2:])   # a named limit
                if r[0] == 'le' and r[1][0] == 'int' and r[1][1] >= 4096 and is_ip_of(fn, r[2], ft):
                    ok1 = True
                if r[0] == 'lt' and r[1][0] == 'int' and r[1][1] >= 4095 and is_ip_of(fn, r[2], ft):
                    ok1 = True
            if not ok1:
                bad1 = facts
            # --- C05.2
            strict = any(r[0] == 'lt' and is_callee_sp(prog, fn, r[1], arch) and is_sp_of(fn, r[2], ft) for r in rels)
            leaf = False
            if not strict and arch in LEAF_OK:
                eq = any(r[0] == 'eq' and ((is_callee_sp(prog, fn, r[1], arch) and is_sp_of(fn, r[2], ft)) or
                                           (is_callee_sp(prog, fn, r[2], arch) and is_sp_of(fn, r[1], ft))) for r in rels)
                first = False
                for r in rels:
                    if r[0] == 'eq':
                        a, b2 = show(r[1]), show(r[2])
                        if ('callee_frame.trust' in a and 'FrameTrust::Context' in b2) or ('callee_frame.trust' in b2 and 'FrameTrust::Context' in a):
                            first = True
                    if r[0] == 'switch' and 'callee_frame.trust' in show(r[1]) and r[1][0] == 'discr' and r[2] == _ctx_discr(prog):
                        first = True
                leaf = eq and first
            if not (strict or leaf):
                bad2 = facts
        if bad1 is not None:
            res.violation('C05.1', 'C05.1|%s' % fn.qual, fn, fn.blocks[b]['s'][i].get('line'),
                          'a path reaches `Some(frame)` without passing the false edge of `frame.context.get_instruction_pointer() < 4096`; path conditions: %s' % fmt_state(bad1))
        else:
            res.sample({'rule': 'C05.1', 'fn': fn.qual, 'states_at_some_return': len(states)})
        if bad2 is not None:
            res.violation('C05.2', 'C05.2|%s' % fn.qual, fn, fn.blocks[b]['s'][i].get('line'),
                          'a path reaches `Some(frame)` on which the caller sp is not proven greater than the callee sp%s; path conditions: %s'
                          % (' (and is not the first-frame equal-sp leaf case)' if arch in LEAF_OK else ' (this architecture admits no exception)', fmt_state(bad2)))
    # --- C05.3 call adjustment
    k = ADJUST.get(arch)
    pa = part_assigns(fn, 'instruction')
    good = []
    for (b, i, place, rv) in pa:
        res.rule('C05.3', 1)
        rvx = fn.expand(rv)
        base = place[1] if place[0] == 'field' else None
        ok = (rvx[0] == 'bin' and rvx[1] == 'Sub' and rvx[3] == ('int', k) and base is not None and is_ip_of(fn, rvx[2], base))
        if not ok:
            res.violation('C05.3', 'C05.3|%s|%s' % (fn.qual, show(rvx)), fn, fn.blocks[b]['s'][i].get('line'),
                          '`frame.instruction` is assigned %s; expected (Sub (get_instruction_pointer frame.context) %s) for %s' % (show(rvx), k, arch))
        else:
            good.append(b)
    for (b, i, frame_tree) in somes:
        if not any(fn.dominates(g, b) for g in good):
            res.violation('C05.3', 'C05.3|%s|missing' % fn.qual, fn, fn.blocks[b]['s'][i].get('line'),
                          'no assignment `frame.instruction = ip - %s` dominates the `Some(frame)` return' % k)
    for (b, i, place, rv) in part_assigns(fn, 'resume_address'):
        res.violation('C05.3', 'C05.3|%s|resume_address' % fn.qual, fn, fn.blocks[b]['s'][i].get('line'),
                      '`resume_address` is written after construction')


_CTX = {}


def _ctx_discr(prog):
    if 'v' not in _CTX:
        adt = prog.crate('minidump_unwind').adts.get('minidump_unwind::FrameTrust')
        v = None
        if adt:
            for var in adt['variants']:
                if var['name'] == 'Context':
                    v = var.get('discr')
        _CTX['v'] = v
    return _CTX['v']


def check_construction(prog, res):
    """C05.4 / C05.5: how frames come into existence"""
    cu = prog.crate('minidump_unwind')
    fc = need_fn(res, cu, 'minidump_unwind::StackFrame::from_context', 'C05.4')
    res.rule('C05.4', 0, floor=3, note='from_context copies ip into instruction and resume_address; frame 0 is trust Context')
    if fc:
        aggs = [(b, i, t) for (b, i, t) in ret_assigns(fc) if t[0] == 'adt' and t[1].endswith('StackFrame::StackFrame')]
        if len(aggs) != 1:
            res.error('C05.4', 'from_context does not build exactly one StackFrame literal')
        else:
            b, i, t = aggs[0]
            st = fc.blocks[b]['s'][i]
            fields = st['rv']['fields']
            vals = dict(zip(fields, t[2:]))
            res.rule('C05.4', 1)
            def is_ip(x):
                x = fc.expand(x)
                return is_call(x, 'MinidumpContext::get_instruction_pointer') and fc.expand(x[2]) == ('var', 'context', 1)
            if not (is_ip(vals.get('instruction')) and is_ip(vals.get('resume_address'))):
                res.violation('C05.4', 'C05.4|from_context|ip', fc, st.get('line'), 'instruction / resume_address are not both `context.get_instruction_pointer()`: %s, %s' % (show(vals.get('instruction')), show(vals.get('resume_address'))))
            if fc.expand(vals.get('trust')) != ('var', 'trust', 2) or fc.expand(vals.get('context')) != ('var', 'context', 1):
                res.violation('C05.4', 'C05.4|from_context|args', fc, st.get('line'), 'trust/context fields are not the arguments')
    # every StackFrame literal and every from_context call in the workspace
    res.rule('C05.5', 0, floor=18, note='trust label passed to from_context by unwinder code is cfi / frame_pointer / scan matching the technique; Context only for frame 0')
    views, absorbed = with_helpers(prog, 'minidump_unwind', UNWINDER_RE)
    for cname in ('minidump_unwind', 'minidump_processor', 'minidump_stackwalk', 'breakpad_symbols'):
        for f in prog.crate(cname).fns:
            if cname == 'minidump_unwind':
                if f.path in absorbed:
                    continue      # a private helper of the unwinders: seen inlined, in the unwinder's view
                f = views.get(f.path, f)
            for b in sorted(f.reach):
                for i, s in enumerate(f.blocks[b]['s']):
                    if s['k'] == 'assign' and s['rv']['k'] == 'agg' and s['rv'].get('ak') == 'adt' and s['rv']['adt'] == 'minidump_unwind::StackFrame':
                        if f.path != 'minidump_unwind::StackFrame::from_context' and not f.path.endswith('as std::clone::Clone>::clone'):
                            res.violation('C05.4', 'C05.4|literal|%s' % f.qual, f, s.get('line'), 'StackFrame built outside from_context')
                for (pb, pi, place, rv) in ():
                    pass
            for b, t in f.calls():
                if f.callee(t) != 'minidump_unwind::StackFrame::from_context':
                    continue
                tr = f.expand(f.operand_tree(t['args'][1]))
                label = tr[1].split('::')[-1] if tr[0] == 'adt' else None
                m = re.match(r'minidump_unwind::(\w+)::(get_caller_by_\w+)', f.path)
                if m and m.group(1) in ARCHES:
                    res.rule('C05.5', 1)
                    want = TRUST_BY_FN.get(m.group(2))
                    if label != want:
                        res.violation('C05.5', 'C05.5|%s' % f.qual, f, t.get('line'), 'from_context called with trust %s in %s (expected %s)' % (show(tr), m.group(2), want))
                    else:
                        res.sample({'rule': 'C05.5', 'fn': f.qual, 'trust': label})
                else:
                    res.rule('C05.4', 1)
                    if label != 'Context':
                        res.violation('C05.4', 'C05.4|frame0|%s' % f.qual, f, t.get('line'), 'frame created outside the unwinders with trust %s (only the context frame may be created there)' % show(tr))
            # nobody rewrites trust / resume_address after construction
            for fld in ('trust', 'resume_address'):
                for (pb, pi, place, rv) in part_assigns(f, fld):
                    if 'StackFrame' in f.path and 'from_context' in f.path:
                        continue
                    ty_ok = True
                    res.violation('C05.4', 'C05.4|write-%s|%s' % (fld, f.qual), f, f.blocks[pb]['s'][pi].get('line'), 'field `%s` assigned after construction: %s = %s' % (fld, show(place), show(rv)))


def check_scan(prog, res):
    """C05.6: scanned return address is the word just below the new sp"""
    cu = prog.crate('minidump_unwind')
    res.rule('C05.6', 0, floor=6, note='caller_sp = checked_add(address_of_ip, POINTER_WIDTH)? where address_of_ip is the address read for caller_ip')
    views, absorbed = with_helpers(prog, 'minidump_unwind', UNWINDER_RE)
    for f in cu.fns:
        m = re.match(r'minidump_unwind::(\w+)::get_caller_by_scan(32|64)?(::\{closure#0\})?$', f.path)
        if not m or m.group(1) not in ARCHES:
            continue
        f = views.get(f.path, f)
        calls = [(b, t) for b, t in f.calls() if f.callee(t) == 'minidump_unwind::StackFrame::from_context']
        for b, t in calls:
            res.rule('C05.6', 1)
            arch = m.group(1)
            ip_t, sp_t, line = _scan_ip_sp(prog, f, arch)
            if ip_t is None or sp_t is None:
                res.violation('C05.6', 'C05.6|%s|fields' % f.qual, f, t.get('line'), 'cannot identify ip/sp of the scanned caller context')
                continue
            ip_x = strip_casts(f.expand(ip_t))
            sp_x = strip_casts(f.expand(sp_t))
            # ip must be try(get_memory_at_address(stack, A)); sp must be try(checked_add(A, PTR))
            def untry(x):
                x = strip_casts(x)
                if x[0] == 'vfield' and x[1] in ('Continue', 'Some') and x[3][0] == 'trybranch':
                    return strip_casts(x[3][1])
                if x[0] == 'vfield' and x[1] in ('Continue', 'Some'):
                    return strip_casts(x[3])
                return None
            ipc = untry(ip_x)
            spc = untry(sp_x)
            ok = False
            why = ''
            if ipc is None or not is_call(ipc, 'get_memory_at_address'):
                why = 'caller ip is not a checked read of stack memory: %s' % show(ip_x)
            elif spc is None or not is_call(spc, 'checked_add'):
                why = 'caller sp is not `checked_add(..)?`: %s' % show(sp_x)
            else:
                addr = strip_casts(f.expand(ipc[3])) if len(ipc) >= 4 else None
                a0 = strip_casts(f.expand(spc[2]))
                a1 = resolve_items(prog, 'minidump_unwind', f.expand(spc[3]))
                width = {'x86': 4, 'amd64': 8, 'arm': 4, 'arm64': 8, 'arm64_old': 8}.get(arch)
                if arch == 'mips':
                    width = 4 if '32' in f.path else 8
                if addr != a0:
                    why = 'sp is computed from %s but ip was read at %s' % (show(a0), show(addr))
                elif a1 != ('int', width):
                    why = 'sp = address_of_ip + %s, expected pointer width %s' % (show(a1), width)
                else:
                    ok = True
            if ok:
                res.sample({'rule': 'C05.6', 'fn': f.qual, 'ip': show(ip_x), 'sp': show(sp_x)})
            else:
                res.violation('C05.6', 'C05.6|%s' % f.qual, f, line, why)


def _scan_ip_sp(prog, f, arch):
    """(ip tree, sp tree, line) of the caller context a scan technique builds: struct
    literal fields for x86/amd64, `set_register(PROGRAM_COUNTER|STACK_POINTER, v)` calls otherwise"""
    ipf, spf = {'x86': ('eip', 'esp'), 'amd64': ('rip', 'rsp')}.get(arch, (None, None))
    if ipf:
        for b in sorted(f.reach):
            for i, s in enumerate(f.blocks[b]['s']):
                if s['k'] == 'assign' and s['rv']['k'] == 'agg' and s['rv'].get('ak') == 'adt' and re.search(r'format::CONTEXT_\w+$', s['rv']['adt']):
                    vals = dict(zip(s['rv']['fields'], [f.operand_tree(x) for x in s['rv']['xs']]))
                    return vals.get(ipf), vals.get(spf), s.get('line')
        return None, None, None
    ip = sp = line = None
    for b, t in f.calls():
        if f.callee(t).endswith('::set_register') and len(t['args']) == 3:
            nm = resolve_items(prog, 'minidump_unwind', f.expand(f.operand_tree(t['args'][1])))
            if nm in (('str', 'pc'), ('str', 'r15')) and (arch == 'arm' or nm == ('str', 'pc')):
                ip, line = f.operand_tree(t['args'][2]), t.get('line')
            elif nm in (('str', 'sp'), ('str', 'r13')) and (arch == 'arm' or nm == ('str', 'sp')):
                sp = f.operand_tree(t['args'][2])
    return ip, sp, line


def check_module_attr(prog, res):
    """C05.7: who assigns frame.module / function_base / source_line_base"""
    res.rule('C05.7', 0, floor=3, note='module only from module_at_address(frame.instruction); symbol bases only through FrameSymbolizer')
    allowed = {
        'module': {'minidump_unwind::fill_source_line_info': None},
        'function_base': {'<StackFrame as breakpad_symbols::FrameSymbolizer>::set_function': None},
        'source_line_base': {'<StackFrame as breakpad_symbols::FrameSymbolizer>::set_source_file': None},
    }
    for cname in ('minidump_unwind', 'minidump_processor', 'minidump_stackwalk'):
        for f in prog.crate(cname).fns:
            for fld in ('module', 'function_base', 'source_line_base'):
                for (b, i, place, rv) in part_assigns(f, fld):
                    ty = None
                    # restrict to StackFrame places: the base local's type mentions StackFrame
                    s = f.blocks[b]['s'][i]
                    bl = s['lhs']['l']
                    if 'StackFrame' not in f.local_ty(bl):
                        continue
                    res.rule('C05.7', 1)
                    root = f.root or f.path
                    if not any(root.startswith(a) or f.path.startswith(a) for a in allowed[fld]):
                        res.violation('C05.7', 'C05.7|%s|%s' % (fld, f.qual), f, s.get('line'), 'frame.%s assigned outside its owner' % fld)
                        continue
                    if fld == 'module':
                        rvx = f.expand(rv)
                        ok = contains(rvx, lambda t: is_call(t, 'module_at_address') and 'instruction' in show(f.expand(t)))
                        if not ok:
                            res.violation('C05.7', 'C05.7|module-src|%s' % f.qual, f, s.get('line'), 'frame.module is not taken from module_at_address(frame.instruction): %s' % show(rvx))
                        else:
                            res.sample({'rule': 'C05.7', 'fn': f.qual, 'value': show(rvx)[:200]})


def run(tier, t0):
    res = harness.Result(PID)
    prog = program()
    fns = arch_fns(prog, res)
    res.rule('C05.0', len(fns), floor=6, note='per-architecture get_caller_frame bodies discovered from the dispatcher')
    for a, fn in fns.items():
        if a not in ADJUST:
            res.error('C05.0', 'unknown architecture module %s' % a)
            continue
        check_frame_fn(prog, res, a, fn)
    check_construction(prog, res)
    check_scan(prog, res)
    check_module_attr(prog, res)
    res.assumptions += [
        'branch conditions are compared structurally (expression trees over MIR); values are never computed',
        'get_instruction_pointer / get_stack_pointer are pure accessors (their tables are checked under C18)',
        'the callee stack pointer is identified per architecture as ctx.esp / ctx.rsp / ctx.get_register_always("sp")',
    ]
    return harness.finish(res, tier, t0, explanation=(
        'Path-sensitive static analysis of the MIR of the six get_caller_frame coroutines: every state reaching a '
        '`Some(frame)` return must carry the nullish cut-off and the stack-pointer progress condition; the call adjustment, '
        'frame construction, trust labels, scan geometry and module attribution are checked on expression trees. '
        'Decides the structural clauses of C05 for all inputs; does not decide that a frame\'s function covers its address.'))
