"""C06 — STACK CFI rules evaluate as the documented postfix language (structural clauses)."""
from .common import *
from . import totality, cfiwin
import panics

PID = 'C06'
W = cfiwin.WALKER
BINOPS = {'+': 'core::num::wrapping_add', '-': 'core::num::wrapping_sub', '*': 'core::num::wrapping_mul',
          '/': 'core::num::wrapping_div', '%': 'core::num::wrapping_rem', '@': 'BitAnd'}


def check_operator_table(res, f, rid, wrap=None, width='u64', extra_tokens=()):
    """shared by C06.2 and C07.2"""
    tab, ex = cfiwin.operator_table(f)
    if ex.truncated:
        res.error(rid, 'state budget exceeded in %s' % f.qual)
        return tab
    for tok, op in BINOPS.items():
        res.rule(rid, 1)
        e = tab.get(tok)
        if e is None:
            res.violation(rid, '%s|missing|%s' % (rid, tok), f, f.line, 'operator `%s` has no arm' % tok)
            continue
        if len(e['pushes']) != 1 or len(e['pops']) != 2:
            res.violation(rid, '%s|arity|%s' % (rid, tok), f, f.line, 'operator `%s` pops %d and pushes %d values (expected 2 and 1)' % (tok, len(e['pops']), len(e['pushes'])))
            continue
        pb, pushed = e['pushes'][0]
        got, ok, why = cfiwin.binary_shape(f, pushed, wrap)
        checked = bool(got) and got.endswith('#checked')
        got = got[:-len('#checked')] if checked else got
        if got != op or not ok:
            res.violation(rid, '%s|op|%s' % (rid, tok), f, f.blocks[pb]['t'].get('line'), 'operator `%s` computes %s%s (expected %s(lhs, rhs) with rhs popped first)' % (tok, got, (': ' + why) if why else '', op))
            continue
        facts = cfiwin.guard_facts(f, pb)
        if tok in ('/', '%', '@'):
            nz = any(r[0] == 'ne' and r[1][0] == 'var' and r[1][1] == 'rhs' and r[2] == ('int', 0) for r in facts)
            if tok == '@':
                # a power of two is not zero: `!rhs.is_power_of_two() => fail` alone rejects a zero alignment
                nz = nz or any(r[0] == 'true' and is_call(r[1], 'is_power_of_two') and show(r[1][2]) == 'rhs' for r in facts)
            nz = nz or (checked and tok in ('/', '%'))
            if not nz or not (e['none'] or checked):
                res.violation(rid, '%s|zero|%s' % (rid, tok), f, f.blocks[pb]['t'].get('line'), 'operator `%s` is not guarded by `rhs == 0 => fail`' % tok)
                continue
        if tok == '@':
            p2 = any(r[0] == 'true' and is_call(r[1], 'is_power_of_two') and show(r[1][2]) == 'rhs' for r in facts)
            inner = pushed[2] if wrap and pushed[0] == 'adt' else pushed
            mask = inner[3] if inner[0] == 'bin' and len(inner) == 4 else ()
            if mask and mask[0] == 'var' and mask[1] != 'rhs':
                sd = f.single_def(mask[2])      # a mask bound to a name first: one level only, `rhs` itself stays a name
                mask = f.rvalue_tree(sd['rv']) if sd is not None and sd['kind'] == 'assign' else mask
            # all ones except the bits below the power of two: !(rhs - 1), spelled with `!` or as all-ones ^ (rhs - 1)
            def low(x):
                # `rhs - 1`, possibly bound to a name first
                if isinstance(x, tuple) and x and x[0] == 'var' and x[1] != 'rhs' and isinstance(x[2], int):
                    sd2 = f.single_def(x[2])
                    x = f.rvalue_tree(sd2['rv']) if sd2 is not None and sd2['kind'] == 'assign' else x
                return show(x) == '(Sub rhs 1)'

            def ones(x):
                x = strip_casts(x)
                return (x[0] == 'int' and x[1] in (-1, 0xffffffff, 0xffffffffffffffff)) or (x[0] == 'item' and re.search(r'(^|[: <])u(32|64)>?::MAX$', str(x[1])) is not None)
            mask_ok = inner[0] == 'bin' and bool(mask) and (
                (mask[0] == 'bin' and mask[1] == 'BitXor' and low(mask[3]) and ones(mask[2]))
                or (mask[0] == 'un' and mask[1] == 'Not' and low(mask[2])))
            if not p2 or not mask_ok:
                res.violation(rid, '%s|align' % rid, f, f.blocks[pb]['t'].get('line'), '`@` must be lhs & (!0 ^ (rhs - 1)) under rhs.is_power_of_two(): %s' % show(inner))
                continue
        res.sample({'rule': rid, 'token': tok, 'computes': show(pushed)[:100]})
    # deref
    res.rule(rid, 1)
    e = tab.get('^')
    ok = False
    if e and len(e['pushes']) == 1 and len(e['pops']) == 1:
        v = f.expand(e['pushes'][0][1])
        ok = contains(v, lambda x: x[0] == 'trybranch' and is_call(x[1], 'FrameWalker::get_register_at_address')) and contains(v, lambda x: is_call(x, 'std::vec::Vec::pop'))
    if not ok:
        res.violation(rid, '%s|deref' % rid, f, f.line, '`^` must pop one value and push walker.get_register_at_address(it)?')
    return tab


def run(tier, t0):
    res = harness.Result(PID)
    prog = program()
    c = prog.crate('breakpad_symbols')
    # C06.1 never panics: the CFI evaluator, walk_frame, and the real FrameWalker
    scope = [f for f in c.fns if f.path.startswith(W + 'eval_cfi_expr') or f.path.startswith(W + 'walk_with_stack_cfi') or f.path.startswith(W + 'parse_cfi_exprs')
             or 'SymbolFile>::walk_frame' in f.path]
    cu = prog.crate('minidump_unwind')
    scope += [f for f in cu.fns if 'CfiStackWalker' in f.path]
    nontrivial = totality.run_panics(res, prog, scope, 'C06.1', floor_sites=15)
    # no plain arithmetic in the evaluator: every Assert there must be discharged without a table line
    ev = need_fn(res, c, W + 'eval_cfi_expr', 'C06.2')
    res.rule('C06.2', 0, floor=8, note='operator table: callee, operand order (rhs popped first), zero / power-of-two guards, deref, .cfa, .undef, final stack size')
    if ev is not None:
        tab = check_operator_table(res, ev, 'C06.2')
        # .cfa pushes cfa?
        res.rule('C06.2', 1)
        e = tab.get('.cfa')
        ok = bool(e) and len(e['pushes']) == 1 and show(ev.expand(e['pushes'][0][1])) == '(Continue.0 (trybranch cfa))'
        if not ok:
            res.violation('C06.2', 'C06.2|cfa-token', ev, ev.line, '`.cfa` must push `cfa?` (None while the CFA itself is being computed)')
        res.rule('C06.2', 1)
        e = tab.get('.undef')
        if not e or e['pushes'] or not e['none']:
            res.violation('C06.2', 'C06.2|undef', ev, ev.line, '`.undef` must make the rule fail (return None) without pushing')
        # final result requires exactly one value
        res.rule('C06.2', 1)
        fin_ok = False
        for (b, i, tree) in ret_assigns(ev):
            tx = ev.expand(tree)
            if is_call(tx, 'std::vec::Vec::pop'):
                facts = cfiwin.guard_facts(ev, b)
                if any(r[0] == 'eq' and is_call(r[1], 'len') and r[2] == ('int', 1) for r in facts):
                    fin_ok = True
        if not fin_ok:
            res.violation('C06.2', 'C06.2|final', ev, ev.line, 'the result is not `stack.pop()` under `stack.len() == 1`')
        # arithmetic must be wrapping: no overflow assert may exist in the evaluator except rhs - 1 under the power-of-two guard
        for b in sorted(ev.reach):
            t = ev.blocks[b]['t']
            if t['k'] == 'assert' and t['ak'] == 'overflow':
                res.rule('C06.2', 1)
                tr = (show(ev.operand_tree(t['l'])), t['op'], show(ev.operand_tree(t['r'])))
                if tr != ('rhs', 'Sub', '1'):
                    res.violation('C06.2', 'C06.2|plain-arith|%s' % '|'.join(tr), ev, t.get('line'), 'non-wrapping arithmetic %s %s %s in the CFI evaluator' % tr)
                else:
                    facts = cfiwin.guard_facts(ev, b)
                    if not any(r[0] == 'ne' and show(r[1]) == 'rhs' and r[2] == ('int', 0) for r in facts):
                        res.violation('C06.2', 'C06.2|rhs-1', ev, t.get('line'), '`rhs - 1` without the rhs != 0 guard')
    # C06.3 / C06.4 / C06.5 in walk_with_stack_cfi
    wf = need_fn(res, c, W + 'walk_with_stack_cfi', 'C06.3')
    res.rule('C06.3', 0, floor=3, note='CFA evaluated first with cfa = None; .ra and the other rules see Some(cfa)')
    res.rule('C06.4', 0, floor=2, note='.cfa and .ra are mandatory')
    res.rule('C06.5', 0, floor=2, note='remaining rules: Some => set_caller_register, None => clear_caller_register')
    if wf is not None:
        evals = [(b, t) for b, t in wf.calls() if wf.callee(t) == W + 'eval_cfi_expr']
        by = {}
        for b, t in evals:
            by.setdefault(show(wf.operand_tree(t['args'][0])), []).append((b, t))
        res.rule('C06.3', 1)
        cfa_e = by.get('cfa_expr', [])
        ra_e = by.get('ra_expr', [])
        if len(cfa_e) != 1 or 'Option::None' not in show(wf.expand(wf.operand_tree(cfa_e[0][1]['args'][2]))):
            res.violation('C06.3', 'C06.3|cfa-self', wf, wf.line, 'the CFA rule is not evaluated with cfa = None (it could refer to itself)')
        res.rule('C06.3', 1)
        if len(ra_e) != 1 or show(wf.operand_tree(ra_e[0][1]['args'][2])) not in ('(adt std::option::Option::Some cfa)',) or not (cfa_e and wf.dominates(cfa_e[0][0], ra_e[0][0])):
            res.violation('C06.3', 'C06.3|ra', wf, wf.line, 'the return-address rule is not evaluated after the CFA with Some(cfa)')
        res.rule('C06.3', 1)
        setcfa = [(b, t) for b, t in wf.calls() if wf.callee_decl(t).endswith('FrameWalker::set_cfa')]
        ok = len(setcfa) == 1 and show(wf.operand_tree(setcfa[0][1]['args'][1])) == 'cfa'
        cfa_def = [wf.expand(('var', 'cfa', l)) for l in range(len(wf.locals)) if wf.local_name(l) == 'cfa']
        ok = ok and any(contains(d, lambda x: is_call(x, W + 'eval_cfi_expr') and 'CfiReg::Cfa' in show(x[2])) for d in cfa_def)
        if not ok:
            res.violation('C06.3', 'C06.3|set_cfa', wf, wf.line, 'set_cfa does not receive the value of the CFA rule')
        # C06.4
        removes = [(b, t) for b, t in wf.calls() if re.search(r'(BTreeMap|HashMap)::remove$', wf.callee(t))]
        keys = set()
        for b, t in removes:
            k = show(wf.expand(wf.operand_tree(t['args'][1])))
            m = re.search(r'CfiReg::(Cfa|Ra)', k)
            if m:
                keys.add(m.group(1))
                res.rule('C06.4', 1)
                # goes through `?` before set_cfa
                dest = t['dest']['l']
                tried = any(wf.callee_decl(tt).endswith('Try::branch') and (tt['args'][0].get('m') or tt['args'][0].get('c') or {}).get('l') == dest for bb, tt in wf.calls())
                if not tried or not all(wf.dominates(b, sb) for sb, st in setcfa):
                    res.violation('C06.4', 'C06.4|%s' % m.group(1), wf, t.get('line'), 'the %s rule is not required (`?`) before anything is set' % m.group(1))
        if keys != {'Cfa', 'Ra'}:
            res.violation('C06.4', 'C06.4|keys', wf, wf.line, 'walk_with_stack_cfi removes %s from the rule map (expected Cfa and Ra)' % sorted(keys))
        # C06.5 each remaining rule ends in exactly one of: the register set from the value, or the register cleared - also when
        # the value cannot be stored (set_caller_register returns None)
        loop_e = by.get('expr', [])
        sets = [(b, t) for b, t in wf.calls() if wf.callee_decl(t).endswith('FrameWalker::set_caller_register')]
        clears = [(b, t) for b, t in wf.calls() if wf.callee_decl(t).endswith('FrameWalker::clear_caller_register')]
        # the set may sit in a closure handed to Option::and_then on the evaluation result
        set_cl = None
        for g in c.fns:
            if re.match(re.escape(wf.qual) + r'::\{closure#\d+\}$', g.qual):
                cs = [(b, t) for b, t in g.calls() if g.callee_decl(t).endswith('FrameWalker::set_caller_register')]
                if cs:
                    set_cl = (g, cs)
        res.rule('C06.5', 1)
        if len(loop_e) != 1 or len(clears) != 1 or (len(sets) + (1 if set_cl else 0)) != 1:
            res.violation('C06.5', 'C06.5|shape', wf, wf.line, 'expected one eval / set_caller_register / clear_caller_register in the rule loop, found %d/%d/%d' % (len(loop_e), len(sets) + (1 if set_cl else 0), len(clears)))
        else:
            res.rule('C06.5', 1)
            if set_cl:
                g, cs = set_cl
                # set = eval(..).and_then(|val| walker.set_caller_register(reg, val)); match set { Some(()) => .., None => clear }
                rets = [show(g.expand(t2)) for (_, _, t2) in ret_assigns(g)]
                env = closure_env(prog, g)[1]
                a = cs[0][1]['args']
                okc = len(cs) == 1 and len(rets) == 1 and 'set_caller_register' in rets[0] and show(g.operand_tree(a[2])) == 'val'
                chain = None
                for b, t in wf.calls():
                    if wf.callee(t) == 'std::option::Option::and_then':
                        tr = wf.expand(wf.call_tree(t))
                        if is_call(tr[2], W + 'eval_cfi_expr') and tr[3][0] == 'closure' and tr[3][1] == g.qual:
                            chain = (b, t, tr)
                if not (okc and chain):
                    res.violation('C06.5', 'C06.5|set', wf, wf.line, 'the register is not set by eval_cfi_expr(..).and_then(|val| walker.set_caller_register(reg, val))')
                else:
                    dest = chain[1]['dest']['l']

                    def disc2(b):
                        for r, g_, s_ in panics.dominating_facts(wf, b):
                            if r[0] == 'switch' and r[1][0] == 'discr':
                                x = r[1][1]
                                if (x[0] == 'var' and x[2] == dest) or (is_call(wf.expand(x), 'Option::and_then') and 'eval_cfi_expr' in show(wf.expand(x))):
                                    return r[2]
                        return None
                    if disc2(clears[0][0]) != 0 or show(wf.operand_tree(clears[0][1]['args'][1])) != 'reg':
                        res.violation('C06.5', 'C06.5|clear', wf, clears[0][1].get('line'), 'clear_caller_register(reg) is not on the None edge of "evaluated and stored"')
                    if 'Option::Some cfa' not in show(wf.operand_tree(loop_e[0][1]['args'][2])):
                        res.violation('C06.5', 'C06.5|cfa-arg', wf, chain[1].get('line'), 'remaining rules are not evaluated with Some(cfa)')
            else:
                def disc(b):
                    for r, g, s in panics.dominating_facts(wf, b):
                        if r[0] == 'switch' and r[1][0] == 'discr' and is_call(r[1][1], W + 'eval_cfi_expr') and show(r[1][1][2]) == 'expr':
                            return r[2]
                    return None
                if disc(sets[0][0]) != 1 or show(wf.operand_tree(sets[0][1]['args'][2])) != 'val' or show(wf.operand_tree(sets[0][1]['args'][1])) != 'reg':
                    res.violation('C06.5', 'C06.5|set', wf, sets[0][1].get('line'), 'set_caller_register(reg, val) is not on the Some edge of the rule evaluation')
                if disc(clears[0][0]) != 0 or show(wf.operand_tree(clears[0][1]['args'][1])) != 'reg':
                    res.violation('C06.5', 'C06.5|clear', wf, clears[0][1].get('line'), 'clear_caller_register(reg) is not on the None edge of the rule evaluation')
                if 'Option::Some cfa' not in show(wf.operand_tree(loop_e[0][1]['args'][2])):
                    res.violation('C06.5', 'C06.5|cfa-arg', wf, loop_e[0][1].get('line'), 'remaining rules are not evaluated with Some(cfa)')
                # a set whose result is dropped: a value the register cannot take leaves the callee's forwarded value in place
                res.rule('C06.5', 1)
                res.violation('C06.5', 'C06.5|set-fails', wf, sets[0][1].get('line'), 'the result of set_caller_register is ignored: when the value does not fit the register the caller keeps the callee\'s forwarded value, still marked valid')
    # C06.7 every `REG: EXPR` pair of the applicable records is stored; nothing but .cfa/.ra is ever removed
    res.rule('C06.7', 0, floor=3, note='rule map discipline: parse stores every pair with an unconditional insert (later overrides earlier); only .cfa / .ra are removed, by the evaluator')
    for f in c.fns:
        if not f.path.startswith(W) or '::test' in f.path:
            continue
        for b, t in f.calls():
            n = f.callee(t)
            targs = ' '.join(t.get('targs') or [])
            if 'CfiReg' not in targs:
                continue
            m = re.match(r'std::collections::(BTreeMap|HashMap)::(\w+)$', n)
            if not m:
                continue
            op = m.group(2)
            if op in ('new', 'get', 'contains_key', 'len', 'is_empty', 'iter', 'into_iter'):
                continue
            res.rule('C06.7', 1)
            if op == 'insert':
                if not f.path.startswith(W + 'parse_cfi_exprs'):
                    res.violation('C06.7', 'C06.7|insert-who|%s' % f.qual, f, t.get('line'), 'CFI rule map written outside parse_cfi_exprs')
                    continue
                # not conditional on the expression text
                conds = [r for r, g, sx in panics.dominating_facts(f, b) if r[0] in ('eq', 'ne', 'true', 'false') and any(isinstance(x, tuple) and x and x[0] == 'str' and x[1] not in (':', '.cfa', '.ra', '$') for x in walk(r[1] if len(r) > 1 else ()) ) or (len(r) > 2 and isinstance(r[2], tuple) and r[2][0] == 'str' and r[2][1] not in ('.cfa', '.ra'))]
                if conds:
                    res.violation('C06.7', 'C06.7|insert-cond|%s' % f.qual, f, t.get('line'), 'storing a CFI rule depends on the rule text: %s' % [show(r[1])[:60] for r in conds][:2])
                else:
                    res.sample({'rule': 'C06.7', 'fn': f.qual.split('::')[-1], 'op': 'insert'})
            elif op == 'remove':
                key = show(f.expand(f.operand_tree(t['args'][1])))
                if not (f.path == W + 'walk_with_stack_cfi' and re.search(r'CfiReg::(Cfa|Ra)\)?$', key)):
                    res.violation('C06.7', 'C06.7|remove|%s' % f.qual, f, t.get('line'), 'a CFI rule is removed from the map (%s): its register would be neither set nor cleared' % key[:80])
            else:
                res.violation('C06.7', 'C06.7|%s|%s' % (op, f.qual), f, t.get('line'), 'unexpected mutation `%s` of the CFI rule map' % op)
    # C06.2b a `$register` value token has its `$` in front: anything else containing a `$` is a junk token and fails the rule
    ev_ = c.fn(W + 'eval_cfi_expr')
    if ev_ is not None:
        res.rule('C06.2', 1)
        regreads = []
        for b, t in ev_.calls():
            n = ev_.callee(t)
            if re.search(r'core::str::(split_once|rsplit_once|find|rfind|contains|split|trim_start_matches|trim_matches)$', n):
                a = ev_.expand(ev_.call_tree(t))
                if len(a) > 3 and a[3] in (('int', 36), ('str', '$'), ('char', '$')):
                    res.violation('C06.2', 'C06.2|register-token', ev_, t.get('line'), '%s(token, `$`) accepts a `$` that is not the first character of the token: `junk$rsp` would be read as the register `$rsp`' % n.split('::')[-1])
            if n == 'core::str::strip_prefix':
                a = ev_.expand(ev_.call_tree(t))
                if a[3] in (('int', 36), ('str', '$'), ('char', '$')):
                    regreads.append(b)
        if not regreads:
            res.violation('C06.2', 'C06.2|register-token', ev_, ev_.line, 'eval_cfi_expr has no token.strip_prefix(`$`) for `$register` values')
    # C06.10 one register, one rule - also across alias spellings.  The rule map is keyed by the label text, and the
    # real walker canonicalises names only when a register is set or cleared (x29 = fp, r11 = fp, ...): two records that
    # spell one register differently stay two rules, applied in label order, so the later record need not win.  The map
    # has to be keyed by a name the FrameWalker supplies (or the rules applied in definition order).
    res.rule('C06.10', 0, floor=1, note='rule-map keys are canonical register names (aliases of one register do not make two rules)')
    fw = [i for i in c.impls if i.get('trait', '').endswith('FrameWalker')]
    methods = set()
    for f in c.fns:
        m = re.match(r'^breakpad_symbols::FrameWalker::(\w+)$', f.path)
        if m:
            methods.add(m.group(1))
    for g in c.fns:
        if g.path == W + 'walk_with_stack_cfi' or g.path == W + 'parse_cfi_exprs':
            for b, t in g.calls():
                d = g.callee_decl(t)
                m = re.search(r'FrameWalker::(\w+)$', d)
                if m:
                    methods.add(m.group(1))
    res.rule('C06.10', 1)
    canon = [m for m in methods if re.search(r'canonical|memoize|register_name|normal', m)]
    if not canon:
        res.violation('C06.10', 'C06.10|alias-keys', c.fn(W + 'walk_with_stack_cfi'), None, 'the STACK CFI rule map is keyed by the label as spelled and the FrameWalker interface offers no canonical register name: `x29: ..` in one record and `fp: ..` in a later one are two rules evaluated in label order, so the later record does not override and a `.undef` under one spelling is undone by the rule under the other')
    # C06.9 one register, one key: `$rax:` and `rax:` name the same rule
    res.rule('C06.9', 0, floor=1, note='the map key of a register label is the label without one leading `$`, whichever spelling the record uses')
    pf = [f for f in c.fns if f.path == W + 'parse_cfi_exprs']
    nother = 0
    for f in pf:
        for b in sorted(f.reach):
            for s_ in f.blocks[b]['s']:
                if not (s_['k'] == 'assign' and s_['rv']['k'] == 'agg' and s_['rv'].get('ak') == 'adt' and s_['rv']['adt'].endswith('CfiReg') and s_['rv'].get('variant') == 'Other'):
                    continue
                nother += 1
                res.rule('C06.9', 1)
                x = f.expand(f.operand_tree(s_['rv']['xs'][0]))

                def stripped(t):
                    return is_call(t, 'strip_prefix') and len(t) == 4 and t[3] in (('int', 36), ('char', '$'), ('str', '$'))
                ok = False
                if x[0] == 'field' and x[-1] == '0' and x[1][0] == 'downcast' and x[1][-1] == 'Some' and stripped(x[1][1]):
                    ok = True           # if let Some(t) = label.strip_prefix('$') { Other(t) }
                elif show(x).startswith('(Some.0 ') and 'strip_prefix' in show(x):
                    inner = [t for t in walk(x) if stripped(t)]
                    ok = bool(inner)
                elif is_call(x, 'Option::unwrap_or') and len(x) == 4 and stripped(x[2]) and x[2][2] == x[3]:
                    ok = True           # Other(label.strip_prefix('$').unwrap_or(label))
                else:
                    # the label as it is: only where it was just found not to start with `$`
                    facts = [r for r, gd, sx in panics.dominating_facts(f, b)]
                    for r in facts:
                        if r[0] == 'switch' and r[1][0] == 'discr' and stripped(f.expand(r[1][1])) and r[2] in (0, ('not', 1)) and f.expand(r[1][1])[2] == x:
                            ok = True
                if not ok:
                    res.violation('C06.9', 'C06.9|key', f, s_.get('line'), 'a register label becomes the map key %s without its leading `$` being dropped: `$r:` and `r:` would be two rules' % show(x)[:120])
    if pf and not nother:
        res.error('C06.9', 'parse_cfi_exprs builds no CfiReg::Other key')
    # C06.6 only rules at or below the address, in address order
    res.rule('C06.6', 0, floor=4, note='additional rules = add_rules[0..count], count advanced under add_rules[count].address <= addr; add_rules sorted; CfiRules orders by address first')
    wfr = None
    for f in c.fns:
        if 'SymbolFile>::walk_frame::{closure' in f.path and any(f.callee(t) == W + 'walk_with_stack_cfi' for b, t in f.calls()):
            wfr = f
    if wfr is None:
        res.error('C06.6', 'closure of walk_frame calling walk_with_stack_cfi not found')
    else:
        for b, t in wfr.calls():
            if wfr.callee(t) == W + 'walk_with_stack_cfi':
                res.rule('C06.6', 1)
                arg = show(wfr.operand_tree(t['args'][1]))
                if not re.search(r'index info\.add_rules \(adt std::ops::Range::Range 0 count\)', arg):
                    res.violation('C06.6', 'C06.6|slice', wfr, t.get('line'), 'additional rules passed are %s, expected info.add_rules[0..count]' % arg[:120])
        res.rule('C06.6', 1)
        incs = []
        for l, ds in wfr.defs.items():
            if wfr.local_name(l) == 'count':
                for d in ds:
                    if d['kind'] == 'assign':
                        tr = wfr.rvalue_tree(d['rv'])
                        if tr != ('int', 0):
                            incs.append((d['bb'], tr))
        ok = bool(incs)
        for b, tr in incs:
            facts = [r for r, g, s in panics.dominating_facts(wfr, b)]
            le = any(r[0] == 'le' and 'add_rules' in show(r[1]) and show(r[1]).endswith('.address') and 'count' in show(r[1]) and show(r[2]) == 'addr' for r in facts)
            if not (tr[0] == 'bin' and tr[1] == 'Add' and tr[3] == ('int', 1) and le):
                ok = False
        if not ok:
            res.violation('C06.6', 'C06.6|count', wfr, wfr.line, '`count` is not advanced exactly under `info.add_rules[count].address <= addr`')
    fi = c.fn('breakpad_symbols::sym_file::parser::SymbolParser::finish_item')
    if fi is not None:
        res.rule('C06.6', 1)
        # stable, and by address only: records for one address must keep their file order (the later one overrides)
        sorts = []
        for b, t in fi.calls():
            if re.search(r'slice::sort_by_key$', fi.callee(t)) and 'add_rules' in show(fi.expand(fi.operand_tree(t['args'][0]))):
                cl = fi.expand(fi.operand_tree(t['args'][1]))
                g = c.fn(cl[1]) if cl[0] == 'closure' else None
                if g is not None and [show(g.expand(t2)) for (_, _, t2) in ret_assigns(g)] in (['rules.address'], ['(deref rules).address'], ['_2.address']):
                    sorts.append(b)
            elif re.search(r'slice::sort(_unstable|_unstable_by|_unstable_by_key|_by)?$', fi.callee(t)) and 'add_rules' in show(fi.expand(fi.operand_tree(t['args'][0]))):
                res.violation('C06.6', 'C06.6|sort', fi, t.get('line'), 'add_rules is sorted with %s: records for the same address are re-ordered (by their rule text, or arbitrarily), so which one overrides depends on spelling, not on file order' % fi.callee(t).split('::')[-1])
        pushes = [b for b, t in fi.calls() if fi.callee(t) == 'std::vec::Vec::push' and 'cfi_stack_info' in show(fi.operand_tree(t['args'][0]))]
        if not sorts or not pushes or not all(any(fi.dominates(s, p) for s in sorts) for p in pushes):
            res.violation('C06.6', 'C06.6|sort', fi, fi.line, 'finish_item does not sort add_rules by address (stable sort_by_key on `.address`) before storing the STACK CFI record')
    res.rule('C06.6', 1)
    # C06.8 the FrameWalker the evaluator runs against for real contexts answers every callback from the callee frame
    # and the stack image alone: each method is a fixed composition of calls, and the only conditions it may branch on
    # are "did the conversion / name lookup succeed".  A callback that refuses readable memory (e.g. below the callee sp)
    # makes `ADDR ^` fail although the word is there.
    res.rule('C06.8', 0, floor=11, note='CfiStackWalker callbacks: fixed call compositions, no branching on addresses or register values')
    cu = prog.crate('minidump_unwind')
    PFX = "<CfiStackWalker<'a, C> as breakpad_symbols::FrameWalker>::"
    WANT = {
        'get_register_at_address': (['minidump::UnifiedMemory::get_memory_at_address', 'std::option::Option::and_then'], []),
        'get_callee_register': (['minidump::CpuContext::get_register', 'std::option::Option::and_then'], []),
        'set_caller_register': (['minidump::CpuContext::memoize_register', 'std::convert::TryFrom::try_from', 'std::result::Result::ok', 'std::collections::HashSet::insert', 'minidump::CpuContext::set_register'], ['memoize_register', 'try_from']),
        'clear_caller_register': (['minidump::CpuContext::memoize_register', 'std::collections::HashSet::remove'], ['memoize_register']),
        'set_cfa': (['minidump::CpuContext::stack_pointer_register_name', 'std::convert::TryFrom::try_from', 'std::result::Result::ok', 'std::collections::HashSet::insert', 'minidump::CpuContext::set_register'], ['try_from']),
        'set_ra': (['minidump::CpuContext::instruction_pointer_register_name', 'std::convert::TryFrom::try_from', 'std::result::Result::ok', 'std::collections::HashSet::insert', 'minidump::CpuContext::set_register'], ['try_from']),
    }
    for meth, (calls, conds) in WANT.items():
        g = cu.fn(PFX + meth)
        if g is None:
            res.error('C06.8', 'CfiStackWalker::%s not found' % meth)
            continue
        res.rule('C06.8', 1)
        got = [strip_generics(g.callee_decl(t) if 'CpuContext' in (g.callee_decl(t) or '') or 'TryFrom' in (g.callee_decl(t) or '') else (g.callee(t) or '')) for b, t in g.calls() if not is_log_term(t)]
        got = [x for x in got if not x.endswith('FromResidual>::from_residual') and 'from_residual' not in x and not x.endswith('Try>::branch')]
        if sorted(got) != sorted(calls):
            res.violation('C06.8', 'C06.8|%s|calls' % meth, g, g.line, 'CfiStackWalker::%s calls %s; expected exactly %s' % (meth, sorted(got), sorted(calls)))
        for b in sorted(g.reach):
            t = g.blocks[b]['t']
            if t['k'] != 'switch' or is_log_term(t):
                continue
            res.rule('C06.8', 1)
            cs = show(g.expand(g.operand_tree(t['x'])))
            if not (cs.startswith('(discr ') and any(k in cs for k in conds)):
                res.violation('C06.8', 'C06.8|%s|branch' % meth, g, t.get('line'), 'CfiStackWalker::%s branches on %s: the callback must not depend on the address or value asked for' % (meth, cs[:160]))
    res.assumptions += ['numeric results of expressions are not computed; the table fixes which wrapping operation is applied to which operands in which order',
                        'later `REG:` entries override earlier ones through map insertion (BTreeMap::insert semantics)']
    return harness.finish(res, tier, t0, distinct=len(nontrivial) + 10, explanation=(
        'The operator table of eval_cfi_expr is extracted from MIR path-sensitively (which wrapping operation, operand order with rhs popped first, zero and power-of-two guards, deref through the walker, '
        '.cfa = cfa?, .undef = fail, single result) and compared with the documented language; the evaluator contains no non-wrapping arithmetic; walk_with_stack_cfi evaluates the CFA first with cfa = None, '
        'requires .cfa and .ra, sets or clears every other register; walk_frame passes only add_rules[0..count] with count advanced under address <= addr over rules sorted by address; plus the panic-edge inventory of this code. '
        'Numeric agreement with a reference interpreter is behavioural and not decided.'))
