"""C11 — symbolication returns the covering record (structural clauses)."""
from .common import *
import panics

PID = 'C11'
SF = 'breakpad_symbols::sym_file::'


def run(tier, t0):
    res = harness.Result(PID)
    prog = program()
    c = prog.crate('breakpad_symbols')
    cu = prog.crate('minidump_unwind')
    # C11.1 sorted before searched
    res.rule('C11.1', 0, floor=4, note='binary / reverse searches run on data sorted by the key they search: inlinees (depth, address), publics (address)')
    fi = need_fn(res, c, SF + 'parser::SymbolParser::finish_item', 'C11.1')
    if fi is not None:
        res.rule('C11.1', 1)
        sorts = [b for b, t in fi.calls() if re.search(r'slice::sort(_unstable)?$', fi.callee(t)) and 'inlinees' in show(fi.operand_tree(t['args'][0]))]
        stores = [(b, i) for (b, i, place, rv) in part_assigns(fi, 'inlinees')]
        if not sorts or not stores or not all(any(fi.dominates(s, b) for s in sorts) for b, i in stores):
            res.violation('C11.1', 'C11.1|inlinees', fi, fi.line, 'inlinees are not sorted before being stored in the FUNC record')
    fin = need_fn(res, c, SF + 'parser::SymbolParser::finish', 'C11.1')
    if fin is not None:
        res.rule('C11.1', 1)
        sorts = [b for b, t in fin.calls() if re.search(r'slice::sort(_unstable)?$', fin.callee(t)) and 'publics' in show(fin.expand(fin.operand_tree(t['args'][0])))]
        aggs = [b for b in fin.reach for s in fin.blocks[b]['s'] if s['k'] == 'assign' and s['rv']['k'] == 'agg' and s['rv'].get('adt', '').endswith('SymbolFile')]
        if not sorts or not aggs or not all(any(fin.dominates(s, a) for s in sorts) for a in aggs):
            res.violation('C11.1', 'C11.1|publics', fin, fin.line, 'publics are not sorted before the SymbolFile is built')
    for ty, first in (('Inlinee', ['depth', 'address']), ('PublicSymbol', ['address'])):
        res.rule('C11.1', 1)
        adt = c.adts.get('breakpad_symbols::sym_file::types::' + ty)
        derived = any(i['trait'] == 'std::cmp::Ord' and i['self'].endswith('types::' + ty) and i['derived'] for i in c.impls)
        fields = [x[0] for x in adt['variants'][0]['fields']] if adt else []
        if fields[:len(first)] != first or not derived:
            res.violation('C11.1', 'C11.1|order|' + ty, None, None, '%s must derive Ord with the fields %s first (found %s, derived Ord: %s)' % (ty, first, fields[:3], derived), file='breakpad-symbols/src/sym_file/types.rs')
        else:
            res.sample({'rule': 'C11.1', 'type': ty, 'leading_fields': fields[:len(first)]})
    # C11.2 search keys
    res.rule('C11.2', 0, floor=2, note='search key projections match the sort order')
    g = need_fn(res, c, SF + 'types::Function::get_inlinee_at_depth', 'C11.2')
    if g is not None:
        res.rule('C11.2', 1)
        cl = c.fn(SF + 'types::Function::get_inlinee_at_depth::{closure#0}')
        ok = False
        if cl is not None:
            for (b, i, tree) in ret_assigns(cl):
                tx = cl.expand(tree)
                if tx[0] == 'tuple' and len(tx) == 3 and show(tx[1]).endswith('.depth') and show(tx[2]).endswith('.address'):
                    ok = True
        key_ok = any(g.callee(t).endswith('binary_search_by_key') and show(g.expand(g.operand_tree(t['args'][1]))) in ('(tuple depth addr)',) for b, t in g.calls())
        if not (ok and key_ok):
            res.violation('C11.2', 'C11.2|inlinee-key', g, g.line, 'get_inlinee_at_depth does not search by (depth, address) with the key (depth, addr)')
        # the candidate must be re-checked: depth equal and addr < address + size
        res.rule('C11.2', 1)
        somes = [(b, i) for (b, i, t) in ret_assigns(g) if t[0] == 'adt' and t[1].endswith('Option::Some')]
        good = True
        for b, i in somes:
            facts = [r for r, gd, s in panics.dominating_facts(g, b)]
            deq = any(r[0] == 'eq' and show(r[1]).endswith('.depth') and show(r[2]) == 'depth' for r in facts)
            # addr < address + size, or (after the repair for ranges ending at 2^64) size != 0 and addr <= address + (size - 1)
            def last_byte(x):
                x = g.expand(x)
                if x[0] == 'vfield' and x[1] in ('Continue', 'Some'):
                    x = x[3][1] if x[3][0] == 'trybranch' else x[3]
                return is_call(x, 'checked_add') and show(x[2]).endswith('.address') and re.match(r'^\(Sub \(cast u64 \S*\.size\) 1\)$', show(x[3])) is not None
            inr = any(r[0] == 'lt' and show(r[1]) == 'addr' and 'end_address' in show(r[2]) for r in facts) or (
                any(r[0] == 'le' and show(r[1]) == 'addr' and last_byte(r[2]) for r in facts)
                and any(r[0] == 'ne' and show(r[1]).endswith('.size') and r[2] == ('int', 0) for r in facts))
            if not (deq and inr):
                good = False
        if not somes or not good:
            res.violation('C11.2', 'C11.2|inlinee-cover', g, g.line, 'a returned inlinee is not re-checked for equal depth and addr < address + size')
    # C11.3 no address below the module base
    res.rule('C11.3', 0, floor=2, note='fill_symbol / walk_frame return before `instruction - base` when the instruction is below the module base')
    for name in ('fill_symbol', 'walk_frame'):
        f = need_fn(res, c, SF + '<impl sym_file::types::SymbolFile>::' + name, 'C11.3')
        if f is None:
            continue
        for b in sorted(f.reach):
            t = f.blocks[b]['t']
            if t['k'] == 'assert' and t['ak'] == 'overflow' and t['op'] == 'Sub':
                l, r = show(f.operand_tree(t['l'])), show(f.operand_tree(t['r']))
                if 'base_address' in r:
                    res.rule('C11.3', 1)
                    facts = [x for x, gd, s in panics.dominating_facts(f, b)]
                    ok = any(x[0] == 'le' and 'base_address' in show(x[1]) and ('get_instruction' in show(x[2])) for x in facts)
                    if not ok:
                        res.violation('C11.3', 'C11.3|%s' % name, f, t.get('line'), '`%s - %s` is not guarded by the early return on instruction < base' % (l[:60], r[:60]))
                    else:
                        res.sample({'rule': 'C11.3', 'fn': name})
    # function / line bases never exceed the instruction: set_function / set_source_file bases are record.address + base of a record found at addr
    res.rule('C11.3b', 0, floor=2, note='reported bases are <record>.address + module base for the record returned by the lookup at addr')
    f = c.fn(SF + '<impl sym_file::types::SymbolFile>::fill_symbol')
    if f is not None:
        for b, t in f.calls():
            d = f.callee_decl(t)
            if d.endswith('FrameSymbolizer::set_function'):
                res.rule('C11.3b', 1)
                base = f.expand(f.operand_tree(t['args'][2]))
                sb = show(base)
                ok = base[0] == 'bin' and base[1] == 'Add' and 'base_address' in show(base[3]) and ('.address' in show(base[2]))
                src = show(base[2])
                looked = ('RangeMap::get' in src and 'addr' in src) or 'find_nearest_public' in src
                if not (ok and looked):
                    res.violation('C11.3b', 'C11.3b|set_function|%s' % sb[:60], f, t.get('line'), 'function base %s is not <looked-up record>.address + module base' % sb[:140])
    # PUBLIC fallback: nearest preceding public, cut off by an intervening FUNC
    res.rule('C11.4', 0, floor=2, note='inline frames are reversed after symbolication; PUBLIC search scans publics in reverse for address <= addr')
    fn = need_fn(res, c, SF + '<impl sym_file::types::SymbolFile>::find_nearest_public', 'C11.4')
    if fn is not None:
        res.rule('C11.4', 1)
        cl = c.fn(SF + '<impl sym_file::types::SymbolFile>::find_nearest_public::{closure#0}')
        ok = cl is not None and any(re.match(r'^\(Le \w+\.address addr\)$', show(cl.expand(t))) for (b, i, t) in ret_assigns(cl))
        ok = ok and any(fn.callee_decl(t).endswith('Iterator::rev') for b, t in fn.calls()) and any(fn.callee_decl(t).endswith('Iterator::find') for b, t in fn.calls())
        if not ok:
            res.violation('C11.4', 'C11.4|public', fn, fn.line, 'find_nearest_public is not publics.iter().rev().find(|p| p.address <= addr)')
    fs = None
    for g in cu.fns:
        if g.path.startswith('minidump_unwind::fill_source_line_info') and g.kind == 'coroutine':
            fs = g
    if fs is None:
        res.error('C11.4', 'fill_source_line_info body not found')
    else:
        res.rule('C11.4', 1)
        syms = [b for b, t in fs.calls() if fs.callee_decl(t).endswith('SymbolProvider::fill_symbol') or fs.callee(t).endswith('SymbolProvider::fill_symbol')]
        revs = [b for b, t in fs.calls() if fs.callee(t).endswith('slice::reverse') and 'inlines' in show(fs.expand(fs.operand_tree(t['args'][0])))]
        if not syms or not revs or not all(fs.dominates(s, r) for s in syms for r in revs) or not all(fs.postdominates(r, s) for s in syms for r in revs):
            res.violation('C11.4', 'C11.4|reverse', fs, fs.line, 'frame.inlines.reverse() does not follow the fill_symbol call on every path')
    # C11.5 a covering record that exists is reported: "absent" outcomes only after the source was consulted and empty
    res.rule('C11.5', 0, floor=8, note='found => reported: the not-found outcome of a lookup is reached only with that lookup consulted and empty; reporting calls post-dominate the found edges')
    g = need_fn(res, c, SF + 'types::Function::get_outermost_sourceloc', 'C11.5')
    if g is not None:
        ex = PathExplorer(g, keep=lambda cnd: True)
        ex.run()
        INL = '(discr (breakpad_symbols::sym_file::types::Function::get_inlinee_at_depth self 0 addr))'
        LIN = 'range_map::RangeMap::get self.lines addr'
        for (b, i, tr) in ret_assigns(g):
            e = g.expand(tr)
            res.rule('C11.5', 1)
            states = [dict((show(cc), v) for cc, v in facts) for facts, env in ex.states.get(b, ())]
            if not states:
                res.error('C11.5', 'no path state at a return of get_outermost_sourceloc')
            is_some = e[0] == 'adt' and e[1].endswith('Option::Some')
            with_origin = is_some and 'Option::Some' in show(e[2][4]) if is_some and e[2][0] == 'tuple' and len(e[2]) == 5 else False
            for st in states:
                inl = st.get(INL)
                lin = [v for k, v in st.items() if LIN in k]
                if with_origin:
                    if inl != 1:
                        res.violation('C11.5', 'C11.5|sourceloc|inline-return', g, g.line, 'the inline call site is returned on a path where the depth-0 inlinee lookup did not succeed')
                    if lin:
                        res.violation('C11.5', 'C11.5|sourceloc|inline-needs-line', g, g.line, 'the depth-0 inlinee is only reported after the line lookup was consulted: an address covered by an INLINE range but by no line record loses its inline frames')
                elif is_some:
                    if inl is None or inl == 1:
                        res.violation('C11.5', 'C11.5|sourceloc|line-return', g, g.line, 'the plain line record is returned without the depth-0 inlinee lookup having come back empty')
                else:
                    if inl is None or inl == 1:
                        res.violation('C11.5', 'C11.5|sourceloc|none-early', g, g.line, 'get_outermost_sourceloc can give up (None) before the depth-0 inlinee lookup was consulted and found empty')
                    if not lin:
                        res.violation('C11.5', 'C11.5|sourceloc|none-without-lines', g, g.line, 'get_outermost_sourceloc gives up (None) without consulting the line records')
    f = c.fn(SF + '<impl sym_file::types::SymbolFile>::fill_symbol')
    if f is not None:
        def calls_of(pred):
            return [(b, t) for b, t in f.calls() if pred(f.callee(t) or '', f.callee_decl(t) or '', t)]
        # the FUNC lookup and its found edge
        fl = [(b, t) for b, t in f.calls() if (f.callee(t) or '').endswith('RangeMap::get') and show(f.expand(f.operand_tree(t['args'][0]))).endswith('self.functions')]
        setf = calls_of(lambda n, d, t: d.endswith('FrameSymbolizer::set_function'))
        outer = calls_of(lambda n, d, t: n.endswith('Function::get_outermost_sourceloc'))
        pub = calls_of(lambda n, d, t: n.endswith('find_nearest_public'))
        res.rule('C11.5', 1)
        if len(fl) != 1:
            res.error('C11.5', 'expected one self.functions.get(addr) in fill_symbol, found %d' % len(fl))
        else:
            fb, ft = fl[0]
            # the switch on its discriminant
            sw = None
            for b in sorted(f.reach):
                t = f.blocks[b]['t']
                if t['k'] == 'switch' and f.dominates(fb, b) and show(f.expand(f.operand_tree(t['x']))).startswith('(discr (range_map::RangeMap::get') and 'self.functions' in show(f.expand(f.operand_tree(t['x']))):
                    sw = (b, t)
                    break
            if sw is None:
                res.error('C11.5', 'no switch on the FUNC lookup in fill_symbol')
            else:
                some_t = [tgt for v, tgt in sw[1]['ts'] if v == 1]
                none_t = sw[1]['o'] if some_t else None
                in_func = [b for b, t in setf if some_t and (b == some_t[0] or b in f.reachable_from(some_t[0], avoid=(sw[0],)))]
                res.rule('C11.5', 2)
                if not some_t or not in_func or not all(f.postdominates(b, some_t[0]) for b in in_func[:1]):
                    res.violation('C11.5', 'C11.5|fill|function', f, ft.get('line'), 'a FUNC record found at addr does not reach set_function on every path')
                o_in = [b for b, t in outer if some_t and b in f.reachable_from(some_t[0], avoid=(sw[0],))]
                if not o_in or not all(f.postdominates(b, some_t[0]) for b in o_in[:1]):
                    res.violation('C11.5', 'C11.5|fill|sourceloc', f, ft.get('line'), 'with a FUNC record found, get_outermost_sourceloc(addr) is not consulted on every path')
                res.rule('C11.5', 1)
                p_in = [b for b, t in pub if none_t is not None and (b == none_t or b in f.reachable_from(none_t, avoid=(sw[0],)))]
                if not p_in or not all(f.postdominates(b, none_t) for b in p_in[:1]):
                    res.violation('C11.5', 'C11.5|fill|public', f, ft.get('line'), 'without a FUNC record the PUBLIC fallback is not consulted on every path')
                # set_source_file post-dominates the found edge of files.get under a found source location
                for b, t in calls_of(lambda n, d, t: d.endswith('FrameSymbolizer::set_source_file')):
                    res.rule('C11.5', 1)
                    facts = [r for r, gd, sc in panics.dominating_facts(f, b)]
                    conds = ' ; '.join(' '.join(show(x) if isinstance(x, tuple) else str(x) for x in r) for r in facts)
                    extra = [r for r in facts if r[0] not in ('switch',) ]
                    needed = 'get_outermost_sourceloc' in conds and 'self.files' in conds
                    other = [r for r in facts if r[0] == 'switch' and not any(k in show(r[1]) for k in ('get_outermost_sourceloc', 'self.files', 'self.functions'))]
                    other += [r for r in facts if r[0] != 'switch' and not ('base_address' in ' '.join(show(x) if isinstance(x, tuple) else str(x) for x in r))]
                    if not needed or other:
                        res.violation('C11.5', 'C11.5|fill|source-file', f, t.get('line'), 'set_source_file is guarded by more than "source location found and its file id known": %s' % conds[:300])
    # C11.6 PUBLIC cut-off: the nearest PUBLIC is used exactly when there is no FUNC starting at or after it and at or
    # before addr, i.e. it is dropped iff a previous FUNC exists with public.address <= prev_func.address
    res.rule('C11.6', 0, floor=3, note='PUBLIC fallback is reported iff no previous FUNC starts at or after it (public.address <= prev.address drops it)')
    if f is not None:
        exq = PathExplorer(f, keep=lambda cnd: any(k in show(cnd) for k in ('public', 'prev_func', 'binary_search')))
        exq.run()
        pub_sets = [(b, t) for b, t in f.calls() if f.callee_decl(t).endswith('FrameSymbolizer::set_function') and 'public' in show(f.operand_tree(t['args'][1]))]
        if len(pub_sets) != 1:
            res.error('C11.6', 'expected one set_function(public ..) in fill_symbol, found %d' % len(pub_sets))
        for b, t in pub_sets:
            for facts, env in exq.states.get(b, ()):
                res.rule('C11.6', 1)
                fs_ = dict((show(cc), v) for cc, v in facts)
                prev = fs_.get('(discr prev_func)')
                cmp_ = {k: v for k, v in fs_.items() if 'public' in k and 'address' in k and not k.startswith('(discr')}
                if prev == 1:
                    # `prev_func.1.address` or, with the tuple destructured in the pattern, `prev_func.address`
                    if len(cmp_) != 1 or not all(re.match(r'^\(Le public\.address \(?\*?\s*prev_func\)?(\.1)?\.address\)$', k) and v is False for k, v in cmp_.items()):
                        res.violation('C11.6', 'C11.6|cutoff', f, t.get('line'), 'with a previous FUNC the PUBLIC is used under %s; documented: only when not (public.address <= prev_func.address)' % (cmp_ or 'no comparison'))
                elif prev is None:
                    res.violation('C11.6', 'C11.6|no-prev-test', f, t.get('line'), 'the PUBLIC is used on a path that never looked for a previous FUNC: %s' % sorted(fs_)[:3])
                elif cmp_:
                    res.violation('C11.6', 'C11.6|cutoff-without-prev', f, t.get('line'), 'without a previous FUNC the PUBLIC is still subject to %s' % cmp_)
        # the previous FUNC is the last one starting at or before addr: binary_search_by_key(addr, start).err() - 1
        pf = [l for l in range(len(f.locals)) if f.local_name(l) == 'prev_func']
        res.rule('C11.6', 1)
        okp = False
        for l in pf:
            sd = f.single_def(l)
            if sd is not None and sd['kind'] == 'call':
                e = show(f.expand(f.call_tree(sd['term'])))
                okp = okp or ('binary_search_by_key' in e and 'Result::err' in e and 'checked_sub' not in e.split('Option::and_then')[0] and e.count('Option::and_then') == 2 and 'ranges_values' in e)
        if not okp:
            res.violation('C11.6', 'C11.6|prev_func', f, f.line, 'prev_func is not functions.ranges_values().binary_search_by_key(&addr, start).err().and_then(idx - 1).and_then(get)')
    # C11.7 records reach the lookup tables as parsed: between parsing and storing, a record collection is only sorted,
    # filtered for empty records (`size > 0`) and handed to the range-map builders; nothing merges, de-duplicates,
    # truncates or rewrites records (merging two INLINE ranges loses the second call site)
    res.rule('C11.7', 0, floor=10, note='finish_item / finish apply only sort / push / the size filter / the builders to record collections')
    ALLOWED = re.compile(r'(DerefMut>::deref_mut|Deref>::deref|IntoIterator>::into_iter|Iterator::filter|Iterator::map|into_rangemap_safe|slice::sort|slice::sort_by_key|Vec::push|Vec::retain|Iterator::collect|std::mem::take|Vec::new|core::mem::take)$')
    for g in c.fns:
        if not re.search(r'SymbolParser::(finish_item|finish)$', g.qual):
            continue
        for b, t in g.calls():
            n = g.callee(t) or ''
            if is_log_term(t) or not re.search(r'(std::vec::Vec|std::slice|core::slice|<\[T\]|Iterator|into_rangemap)', n):
                continue
            res.rule('C11.7', 1)
            if not ALLOWED.search(n):
                a0 = show(g.expand(g.operand_tree(t['args'][0])))[:80] if t['args'] else ''
                res.violation('C11.7', 'C11.7|%s|%s' % (g.qual.split('::')[-1], n.split('::')[-1]), g, t.get('line'), '%s rewrites a parsed record collection (%s) before it is stored: records must reach the lookup tables as parsed' % (n, a0))
            if n.endswith('Iterator::filter') or n.endswith('Vec::retain'):
                cl = g.expand(g.operand_tree(t['args'][1]))
                okf = False
                if cl[0] == 'closure':
                    h = c.fn(cl[1])
                    okf = h is not None and [show(h.expand(t2)) for (_, _, t2) in ret_assigns(h)] in (['(Gt l.size 0)'], ['(Gt inlinee.size 0)'])
                if not okf:
                    res.violation('C11.7', 'C11.7|%s|filter' % g.qual.split('::')[-1], g, t.get('line'), 'records are filtered by something other than `size > 0`')
    # C11.8 the inlinee search looks at the nearest preceding record only, so an empty range must not be among the records
    res.rule('C11.8', 0, floor=1, note='zero-size INLINE ranges are dropped (retain / filter on size > 0) before the inlinee table is sorted and stored')
    fi = c.fn(SF + 'parser::SymbolParser::finish_item')
    if fi is None:
        res.error('C11.8', 'finish_item not found')
    else:
        res.rule('C11.8', 1)
        okr = False
        stores = [(b, i) for (b, i, place, rv) in part_assigns(fi, 'inlinees')]
        for b, t in fi.calls():
            n = fi.callee(t) or ''
            if (n.endswith('Vec::retain') or n.endswith('Iterator::filter')) and 'inlinees' in show(fi.expand(fi.operand_tree(t['args'][0]))):
                cl = fi.expand(fi.operand_tree(t['args'][1]))
                h = c.fn(cl[1]) if cl[0] == 'closure' else None
                if h is not None and [show(h.expand(t2)) for (_, _, t2) in ret_assigns(h)] == ['(Gt inlinee.size 0)'] and stores and all(fi.dominates(b, sb) for sb, si in stores):
                    okr = True
        if not okr:
            res.violation('C11.8', 'C11.8|inlinee-empty', fi, fi.line, 'empty INLINE ranges are stored in the inlinee table: get_inlinee_at_depth takes the nearest preceding record, so an empty one hides the inlinee that covers the addresses after it')
    res.assumptions += ['slice::binary_search_by_key and RangeMap::get are correct on sorted / non-overlapping data (std, range-map)',
                        'that the right record is found for every record set is a property of the searches over data, not decided here']
    return harness.finish(res, tier, t0, distinct=8, explanation=(
        'Narrow structural claim: the three searches of symbolication run on data sorted by the very key they search (sort dominates the store; field order of the derived Ord), the inlinee candidate is re-checked for depth and coverage, '
        'the module base is never subtracted from a smaller address, reported bases are the looked-up record\'s address plus the module base, the PUBLIC fallback is a reverse scan for address <= addr, and inline frames are reversed exactly once after symbolication.'))
