"""C08 — address lookups over untrusted range tables (structural clauses)."""
from .common import *
import panics

PID = 'C08'
BUILDERS = {'minidump_common::traits::IntoRangeMapSafe::into_rangemap_safe', 'breakpad_symbols::sym_file::parser::into_rangemap_safe'}
SCOPE = ['minidump', 'minidump_common', 'breakpad_symbols', 'minidump_processor', 'minidump_unwind', 'minidump_stackwalk']


def who(res, prog):
    res.rule('C08.1', 0, floor=2, note='RangeMap construction only inside the two safe builders (every Range::new site is judged by C08.2)')
    for cn in SCOPE:
        for f in prog.crate(cn).fns:
            for b, t in f.calls():
                n = f.callee(t)
                if re.search(r'^range_map::RangeMap::(try_from_iter|from_sorted_vec)$', n) or (f.callee_decl(t).endswith('FromIterator::from_iter') and 'range_map::RangeMap' in (t.get('rty') or '')):
                    res.rule('C08.1', 1)
                    if f.path not in BUILDERS:
                        res.violation('C08.1', 'C08.1|%s|%s' % (f.qual, n), f, t.get('line'), 'RangeMap built directly (%s) outside into_rangemap_safe: overlapping input would panic or be lost' % n)
                    else:
                        res.sample({'rule': 'C08.1', 'builder': f.qual})
                if n == 'range_map::Range::new':
                    # where a Range is built does not matter: C08.2 demands the non-empty / no-overflow guard at every such site
                    res.rule('C08.1', 1)


def constructors(res, prog):
    res.rule('C08.2', 0, floor=5, note='Range::new(base, end): size == 0 rejected, end = checked_add(base, size)? - 1 (or lo > hi rejected)')
    for cn in ('minidump', 'breakpad_symbols'):
        for f in prog.crate(cn).fns:
            for b, t in f.calls():
                if f.callee(t) != 'range_map::Range::new':
                    continue
                res.rule('C08.2', 1)
                a0 = f.expand(f.operand_tree(t['args'][0]))
                a1 = f.expand(f.operand_tree(t['args'][1]))
                facts = [r for r, g, s in panics.dominating_facts(f, b)]
                ok = False
                why = ''
                u0 = a1
                if u0[0] == 'vfield' and u0[1] in ('Continue', 'Some'):
                    u0 = u0[3][1] if u0[3][0] == 'trybranch' else u0[3]
                if is_call(u0, 'checked_add') and strip_casts(u0[2]) == strip_casts(a0) and strip_casts(u0[3])[0] == 'bin' and strip_casts(u0[3])[1] == 'Sub' and strip_casts(u0[3])[3] == ('int', 1):
                    # end = checked_add(base, size - 1)?: the last byte, which may be the last byte of the address space
                    size = strip_casts(strip_casts(u0[3])[2])
                    nz = any((r[0] == 'ne' and strip_casts(f.expand(r[1])) == size and r[2] == ('int', 0)) for r in facts)
                    if nz:
                        ok = True
                        why = 'size != 0, end = checked_add(base, size - 1)?'
                    else:
                        why = 'no `size == 0 => None` guard for %s' % show(size)
                elif a1[0] == 'bin' and a1[1] == 'Sub' and a1[3] == ('int', 1):
                    inner = a1[2]
                    u = inner
                    if u[0] == 'vfield' and u[1] in ('Continue', 'Some'):
                        u = u[3][1] if u[3][0] == 'trybranch' else u[3]
                    if is_call(u, 'checked_add') and strip_casts(u[2]) == strip_casts(a0):
                        size = strip_casts(u[3])
                        nz = any((r[0] == 'ne' and strip_casts(f.expand(r[1])) == size and r[2] == ('int', 0)) for r in facts)
                        if nz and not re.search(r'^minidump::minidump::Minidump(Unloaded)?Module::memory_range$', f.path):
                            why = 'end = checked_add(base, size)? - 1 overflows for an entry whose last byte is the last byte of the address space (base + size == 2^64): the entry is silently dropped; use checked_add(base, size - 1)? (only the two module constructors keep this form: a module\'s exclusive end base + size is part of the report, `end_addr`, so the readers reject modules for which it is not representable)'
                        elif nz:
                            ok = True
                            why = 'size != 0, end = checked_add(base, size)? - 1'
                        else:
                            why = 'no `size == 0 => None` guard for %s' % show(size)
                    else:
                        why = 'end is not checked_add(base, size)? - 1: %s' % show(a1)[:120]
                elif 'finish_item' in f.path:
                    # end = checked_add(address, size - 1) mapped into Range::new(address, end); size > 0 by the filter
                    parent = prog.crate(cn).fn('breakpad_symbols::sym_file::parser::SymbolParser::finish_item::{closure#1}')
                    filt = prog.crate(cn).fn('breakpad_symbols::sym_file::parser::SymbolParser::finish_item::{closure#0}')
                    ok_f = filt is not None and any(show(filt.expand(tr)) == '(Gt l.size 0)' for (bb, ii, tr) in ret_assigns(filt))
                    ok_e = parent is not None and any(is_call(parent.expand(parent.operand_tree(tt['args'][0])), 'checked_add') for bb, tt in parent.calls() if parent.callee(tt).endswith('Option::map'))
                    ok = ok_f and ok_e
                    why = 'filter(size > 0) then checked_add(address, size - 1).map(Range::new)' if ok else 'line ranges are not built from filter(size > 0) + checked_add'
                else:
                    le = any(r[0] in ('le', 'lt') and f.expand(r[1]) == a0 and f.expand(r[2]) == a1 for r in facts)
                    if le:
                        ok, why = True, 'dominated by start <= end'
                    else:
                        why = 'no ordering guard between %s and %s' % (show(a0)[:50], show(a1)[:50])
                if ok:
                    res.sample({'rule': 'C08.2', 'fn': f.qual, 'why': why})
                else:
                    res.violation('C08.2', 'C08.2|%s' % f.qual, f, t.get('line'), why)


def skeleton(f):
    """normalised condition/effect skeleton of a builder"""
    out = {'sort': False, 'merge': set(), 'push': [], 'final': False}
    for b, t in f.calls():
        n = f.callee(t)
        if re.search(r'slice::sort_by_key$', n):
            out['sort'] = b
        if n == 'range_map::RangeMap::try_from_iter':
            out['final'] = True
    def norm(r):
        def nt(t):
            s = show(t)
            s = re.sub(r'\(std::option::Option::unwrap range\)', 'range', s)
            s = re.sub(r'\(Some\.0 [^)]*last_mut[^)]*\)+\.0', 'last_range', s)
            return s
        if r[0] in ('lt', 'le', 'eq', 'ne'):
            return (r[0], nt(r[1]), nt(r[2]))
        if r[0] in ('true', 'false'):
            return (r[0], nt(r[1]))
        return None
    for (b, i, place, rv) in part_assigns(f, 'end'):
        rels = set()
        for r, g, s in panics.dominating_facts(f, b):
            n = norm(r)
            if n and ('range' in str(n) or 'val' in str(n)):
                rels.add(n)
        out['merge'] = rels
        out['merge_rv'] = re.sub(r'std::cmp::|cmp::', '', show(rv))
    return out


def strip_refs(t):
    return t


def infeasible(rels):
    """contradictory path conditions (the comparisons are pure, so the same comparison cannot come out both ways on one path)"""
    S = set()
    for r in rels:
        if r[0] in ('lt', 'le', 'eq', 'ne'):
            S.add((r[0], show(r[1]), show(r[2])))
    for (k, a, b) in S:
        if k == 'eq' and (('ne', a, b) in S or ('ne', b, a) in S or ('lt', a, b) in S or ('lt', b, a) in S):
            return True
        if k == 'le' and ('lt', b, a) in S:
            return True
        if k == 'lt' and ('lt', b, a) in S:
            return True
        if k == 'le':
            # a <= e  and  saturating_add(e, k) < a  cannot both hold (saturating_add(e, k) >= e)
            for (k2, a2, b2) in S:
                if k2 == 'lt' and b2 == a and re.match(r'^\(core::num::saturating_add %s \d+\)$' % re.escape(b), a2):
                    return True
    return False


def twins(res, prog):
    res.rule('C08.3', 0, floor=2, note='the two builders: sort by range, skip conflicting overlaps, merge equal neighbours, then try_from_iter')
    a = prog.crate('minidump_common').fn('minidump_common::traits::IntoRangeMapSafe::into_rangemap_safe')
    b = prog.crate('breakpad_symbols').fn('breakpad_symbols::sym_file::parser::into_rangemap_safe')
    if a is None or b is None:
        res.error('C08.3', 'builder functions not found')
        return
    for f in (a, b):
        res.rule('C08.3', 1)
        sk = skeleton(f)
        problems = []
        if sk['sort'] is False:
            problems.append('input is not sorted by range (sort_by_key) first')
        if not sk['final']:
            problems.append('does not end in RangeMap::try_from_iter')
        m = sk['merge']
        sm = ' '.join(sorted(str(x) for x in m))
        rv = sk.get('merge_rv', '')
        if not ('max' in rv and 'range' in rv and 'end' in rv):
            problems.append('merge does not set last.end = max(range.end, last.end): %s' % rv[:100])
        if not re.search(r"'le', '[^']*range[^']*\.start', '\(core::num::saturating_add [^']*\.end 1\)'", sm):
            problems.append('merge is not guarded by range.start <= last.end.saturating_add(1)')
        if "'eq'" not in sm or 'val' not in sm:
            problems.append('merge is not guarded by val == last_val')
        # the skip rule: there must be a `continue` edge under start <= last.end && val != last_val  ==> the push is reached
        # only with NOT(start <= last.end && val != last_val): on the push path, whenever start <= last.end holds, val == last_val was seen
        pushes = [(bb, t) for bb, t in f.calls() if f.callee(t) == 'std::vec::Vec::push' and show(f.operand_tree(t['args'][0])) == 'vec']
        ex = PathExplorer(f, keep=lambda c: 'last' in show(c) or 'range' in show(c) or 'val' in show(c)).run()
        bad_push = False
        for bb, t in pushes:
            for facts, env in ex.states.get(bb, ()):
                rels = relations(facts)
                if infeasible(rels):
                    continue
                some_last = any(r[0] == 'switch' and 'last_mut' in show(r[1]) and r[2] == 1 for r in rels)
                if not some_last:
                    continue
                overl = any(r[0] == 'le' and show(r[1]).endswith('.start') and show(r[2]).endswith('.end') for r in rels)
                eqv = any(r[0] == 'eq' and 'val' in show(r[1]) + show(r[2]) for r in rels)
                neqv = any(r[0] == 'ne' and 'val' in show(r[1]) + show(r[2]) for r in rels)
                if overl and neqv:
                    bad_push = True   # pushed although it overlaps the previous entry with a different value
                if overl and eqv:
                    bad_push = True   # equal neighbour pushed instead of merged
                beyond = any(r[0] == 'lt' and show(r[1]).endswith('last_range.end') and show(r[2]).endswith('.start') for r in rels)
                if not beyond:
                    bad_push = True   # nothing on this path establishes last.end < range.start
        if bad_push or not pushes:
            problems.append('an entry that overlaps the previous one can reach vec.push')
        if problems:
            res.violation('C08.3', 'C08.3|%s' % f.qual, f, f.line, '; '.join(problems))
        else:
            res.sample({'rule': 'C08.3', 'builder': f.qual, 'merge_guards': sorted(str(x) for x in m)[:4]})


def payloads(res, prog):
    res.rule('C08.4', 0, floor=9, note='builders are fed unique-index payloads (enumerate) or records that carry their own range')
    ok_records = re.compile(r'^(sym_file::types::(Function|StackInfoCfi|StackInfoWin|SourceLine)|breakpad_symbols::sym_file::types::\w+)$')
    for cn in ('minidump', 'breakpad_symbols', 'minidump_processor', 'minidump_unwind'):
        for f in prog.crate(cn).fns:
            for b, t in f.calls():
                if not f.callee(t).endswith('into_rangemap_safe'):
                    continue
                res.rule('C08.4', 1)
                v = (t.get('targs') or ['?'])[-1]
                src = show(f.expand(f.operand_tree(t['args'][0])))
                if v == 'usize':
                    # the index stored in the map must be the position in the very Vec the lookups index: enumerate()
                    # directly over iter(<that Vec>) - an adapter in between (filter, skip, rev ..) shifts positions - and
                    # the closure pairs the item's own range with the index it was enumerated under
                    e = f.expand(f.operand_tree(t['args'][0]))
                    okc = (is_call(e, 'Iterator::map') and is_call(e[2], 'Iterator::enumerate') and is_call(e[2][2], 'slice::iter')
                           and e[3][0] == 'closure')
                    vec = show(e[2][2][2]) if okc else ''
                    if okc:
                        g = prog.crate(cn).fn(e[3][1])
                        rets = [g.expand(tt) for (_, _, tt) in ret_assigns(g)] if g is not None else []
                        okc = len(rets) == 1 and rets[0][0] == 'tuple' and len(rets[0]) == 3 and is_call(rets[0][1], 'memory_range') and show(rets[0][1][2]) in ('_2.1', '(* _2.1)') and show(rets[0][2]) == '_2.0'
                    # ... and that Vec is what ends up in the list next to the map
                    stored = False
                    for bb in sorted(f.reach):
                        for s_ in f.blocks[bb]['s']:
                            if s_['k'] == 'assign' and s_['rv']['k'] == 'agg' and s_['rv'].get('ak') == 'adt':
                                ops = [show(f.expand(f.operand_tree(x))) for x in s_['rv']['xs']]
                                inner = re.sub(r'^\(<std::vec::Vec<T, A> as std::ops::Deref>::deref (.*)\)$', r'\1', vec)
                                if inner in ops:
                                    stored = True
                    if not okc:
                        res.violation('C08.4', 'C08.4|%s' % f.qual, f, t.get('line'), 'the index payload is not map(enumerate(iter(<vec>)), |(i, x)| (x.memory_range(), i)): %s' % src[:200])
                    elif not stored:
                        res.violation('C08.4', 'C08.4|%s|stored' % f.qual, f, t.get('line'), 'the Vec that was enumerated (%s) is not the one stored in the list the indices are used on' % vec[:80])
                    else:
                        res.sample({'rule': 'C08.4', 'fn': f.qual, 'payload': 'enumerate index over ' + vec[-40:]})
                elif ok_records.search(v):
                    res.sample({'rule': 'C08.4', 'fn': f.qual, 'payload': v})
                else:
                    res.violation('C08.4', 'C08.4|%s|%s' % (f.qual, v), f, t.get('line'), 'payload type %s neither a unique index nor a record carrying its own range' % v)


def unloaded(res, prog):
    res.rule('C08.5', 0, floor=2, note='unloaded modules: sorted by range before storing; lookup filters with range.contains')
    c = prog.crate('minidump')
    f = need_fn(res, c, 'minidump::minidump::MinidumpUnloadedModuleList::from_modules', 'C08.5')
    if f is not None:
        res.rule('C08.5', 1)
        sorts = [b for b, t in f.calls() if re.search(r'slice::sort_by_key$', f.callee(t)) and 'modules_by_addr' in show(f.operand_tree(t['args'][0]))]
        aggs = [b for b in f.reach for s in f.blocks[b]['s'] if s['k'] == 'assign' and s['rv']['k'] == 'agg' and s['rv'].get('adt', '').endswith('MinidumpUnloadedModuleList')]
        if not sorts or not all(any(f.dominates(s, a) for s in sorts) for a in aggs):
            res.violation('C08.5', 'C08.5|sort', f, f.line, 'modules_by_addr is not sorted before the list is built')
    g = c.fn('minidump::minidump::MinidumpUnloadedModuleList::modules_at_address::{closure#0}')
    res.rule('C08.5', 1)
    if g is None or not any(g.callee(t) == 'range_map::Range::contains' for b, t in g.calls()):
        res.violation('C08.5', 'C08.5|filter', g, None, 'modules_at_address does not filter with range.contains(address)', file='minidump/src/minidump.rs')


def bad_modules(res, prog):
    res.rule('C08.6', 0, floor=2, note='modules with size 0 or base + size overflowing never enter a module list')
    c = prog.crate('minidump')
    for path in ("<minidump::MinidumpModuleList as minidump::MinidumpStream<'a>>::read", "<minidump::MinidumpUnloadedModuleList as minidump::MinidumpStream<'a>>::read"):
        f = need_fn(res, c, path, 'C08.6')
        if f is None:
            continue
        pushes = [(b, t) for b, t in f.calls() if f.callee(t) == 'std::vec::Vec::push' and show(f.operand_tree(t['args'][0])) == 'modules']
        if not pushes:
            res.error('C08.6', 'no modules.push in %s' % path)
        for b, t in pushes:
            res.rule('C08.6', 1)
            facts = [r for r, g, s in panics.dominating_facts(f, b)]
            nz = any(r[0] == 'ne' and show(r[1]) == 'raw.size_of_image' and r[2] == ('int', 0) for r in facts)
            fits = any(r[0] == 'le' and 'raw.size_of_image' in show(r[1]) and 'Sub' in show(r[2]) and 'raw.base_of_image' in show(r[2]) for r in facts)
            if not (nz and fits):
                res.violation('C08.6', 'C08.6|%s' % path, f, t.get('line'), 'modules.push is not dominated by `size_of_image != 0` and `size_of_image <= u64::MAX - base_of_image`')
            else:
                res.sample({'rule': 'C08.6', 'fn': f.qual})


def win_prefilter(res, prog):
    """C08.7: the STACK WIN pre-filter sees records in file order (unsorted).  It may drop a record, or shorten the
    previous one, only when the two ranges really intersect (range_map::Range::intersects, which is symmetric): a
    one-sided comparison is only an overlap test on sorted input and would lose records listed out of order"""
    c = prog.crate('breakpad_symbols')
    res.rule('C08.7', 0, floor=4, note='STACK WIN pre-filter: a record with a valid range is dropped / the previous one shortened only under Range::intersects(last, new)')
    fs = [f for f in c.fns if f.qual.endswith('parse_more::insert_win_stack_info')]
    if len(fs) != 1:
        res.error('C08.7', 'insert_win_stack_info not found')
        return
    f = fs[0]
    ex = PathExplorer(f, keep=lambda cnd: True)
    ex.run()
    pushes = [b for b, t in f.calls() if (f.callee(t) or '').endswith('Vec::push')]
    rets = [b for b in f.reach if f.blocks[b]['t']['k'] == 'return']
    if len(pushes) != 1 or not rets:
        res.error('C08.7', 'expected one push and a return in insert_win_stack_info')
        return
    INTER = '(range_map::Range::intersects last_range memory_range)'
    pstates = [frozenset((show(cc), str(v)) for cc, v in facts) for facts, env in ex.states.get(pushes[0], ())]
    for rb in rets:
        for facts, env in ex.states.get(rb, ()):
            fs_ = dict((show(cc), v) for cc, v in facts)
            key = frozenset((k, str(v)) for k, v in fs_.items())
            res.rule('C08.7', 1)
            pushed = any(ps <= key for ps in pstates)
            valid = any('StackInfoWin::memory_range info' in k and v == 1 for k, v in fs_.items())
            if valid and not pushed and fs_.get(INTER) is not True:
                res.violation('C08.7', 'C08.7|drop', f, f.line, 'a STACK WIN record with a valid range is dropped on a path that did not establish Range::intersects(last_range, memory_range): %s' % sorted((k[:70], str(v)) for k, v in fs_.items() if 'discr' not in k)[:4])
    for fld in ('size',):
        for (b, i, place, rv) in part_assigns(f, fld):
            res.rule('C08.7', 1)
            for facts, env in ex.states.get(b, ()):
                fs_ = dict((show(cc), v) for cc, v in facts)
                if fs_.get(INTER) is not True:
                    res.violation('C08.7', 'C08.7|shorten', f, f.blocks[b]['s'][i].get('line'), 'the previous STACK WIN record is shortened on a path that did not establish Range::intersects(last_range, memory_range)')
    # every comparison between the two ranges is the symmetric test or (in)equality
    for b in sorted(f.reach):
        t = f.blocks[b]['t']
        if t['k'] == 'switch' and not is_log_term(t):
            cnd = show(f.operand_tree(t['x']))
            if ('last_range' in cnd and 'memory_range' in cnd):
                res.rule('C08.7', 1)
                if not (cnd == INTER or 'PartialEq::ne' in cnd or 'PartialEq::eq' in cnd):
                    res.violation('C08.7', 'C08.7|one-sided|%s' % cnd[:80], f, t.get('line'), 'the pre-filter compares the two ranges with %s: on unsorted input only the symmetric Range::intersects is an overlap test' % cnd[:160])


def list_never_fails(res, prog):
    """C08.9: one bad entry does not lose the table.  In the two module-list readers the bad-size test leads back into the
    loop (the entry is skipped); no `return Err(..)` is governed by a test on an entry's own base / size."""
    res.rule('C08.9', 0, floor=2, note='module-list readers skip an entry with a bad image size; they do not fail the whole list on it')
    c = prog.crate('minidump')
    for path in ("<minidump::MinidumpModuleList as minidump::MinidumpStream<'a>>::read", "<minidump::MinidumpUnloadedModuleList as minidump::MinidumpStream<'a>>::read"):
        f = need_fn(res, c, path, 'C08.9')
        if f is None:
            continue
        res.rule('C08.9', 1)
        for (b, i, tr) in ret_assigns(f):
            v = show(f.expand(tr))
            if not v.startswith('(adt std::result::Result::Err'):
                continue
            facts = [r for r, g, sx in panics.dominating_facts(f, b)]
            bad = [r for r in facts if len(r) > 1 and ('raw.size_of_image' in show(r[1]) or (len(r) > 2 and isinstance(r[2], tuple) and 'raw.size_of_image' in show(r[2])))]
            if bad:
                res.violation('C08.9', 'C08.9|%s' % path, f, f.blocks[b]['s'][i].get('line') if isinstance(i, int) and i < len(f.blocks[b]['s']) else f.line,
                              'the reader returns %s because of one entry\'s image size: every other entry of the list is lost with it' % v[:80])


def linux_maps_end(res, prog):
    """C08.8: the range of a /proc/<pid>/maps line.  procfs-core keeps the two numbers of `start-end` as they are, and
    the end of a maps line is exclusive (the next mapping usually starts there); Range is inclusive, so the range is
    start ..= end - 1 and a line with start >= end has none."""
    res.rule('C08.8', 0, floor=1, note='MinidumpLinuxMapInfo::memory_range = address.0 ..= address.1 - 1 (the end of a maps line is exclusive)')
    c = prog.crate('minidump')
    fs = [f for f in c.fns if re.search(r"MinidumpLinuxMapInfo::<'.*>::memory_range$|MinidumpLinuxMapInfo::memory_range$", f.path)]
    if len(fs) != 1:
        res.error('C08.8', 'MinidumpLinuxMapInfo::memory_range not found')
        return
    f = fs[0]
    for b, t in f.calls():
        if f.callee(t) != 'range_map::Range::new':
            continue
        res.rule('C08.8', 1)
        a0 = show(f.expand(f.operand_tree(t['args'][0])))
        a1 = show(f.expand(f.operand_tree(t['args'][1])))
        if not (a0.endswith('map.address.0') and re.match(r'^\(Sub \S*map\.address\.1 1\)$', a1)):
            res.violation('C08.8', 'C08.8|linux-maps-end', f, t.get('line'), 'the range of a maps line is %s ..= %s: its exclusive end address is taken as the last byte, so the mapping that starts there overlaps it and is dropped from the lookup table, and the end address itself resolves to the wrong mapping' % (a0, a1))


def run(tier, t0):
    res = harness.Result(PID)
    prog = program()
    who(res, prog)
    constructors(res, prog)
    twins(res, prog)
    payloads(res, prog)
    unloaded(res, prog)
    bad_modules(res, prog)
    win_prefilter(res, prog)
    list_never_fails(res, prog)
    linux_maps_end(res, prog)
    res.assumptions += [
        'range_map::RangeMap::get returns an entry containing the key and try_from_iter fails only on overlapping input (trusted crate)',
        'the builder\'s loop invariant (sorted, non-overlapping output for every input sequence) is argued from its skeleton, not verified inductively',
    ]
    return harness.finish(res, tier, t0, distinct=7, explanation=(
        'Narrow structural claim: range maps are constructed only through the two safe builders; every Range::new sits in a constructor that rejects empty and overflowing ranges; both builders have the same '
        'sort / skip-conflicting / merge-equal / try_from_iter skeleton and no path pushes an entry that overlaps its predecessor; builder payloads are unique indices or records carrying their own range; the unloaded-module '
        'list is sorted and filtered with contains; modules with bad sizes never enter a list. Soundness and completeness of lookups for every arrangement of ranges is a data-structure invariant that is not decided.'))
