"""C04 — stack walking recovers the true call chain (structural necessary conditions)."""
from .common import *
from . import C05, C18
import panics

PID = 'C04'
CTX_OF = {'x86': 'CONTEXT_X86', 'amd64': 'CONTEXT_AMD64', 'arm': 'CONTEXT_ARM', 'arm64': 'CONTEXT_ARM64', 'arm64_old': 'CONTEXT_ARM64_OLD', 'mips': 'CONTEXT_MIPS'}
TECH = ['get_caller_by_cfi', 'get_caller_by_frame_pointer', 'get_caller_by_scan']


def priority(res, prog, cu):
    res.rule('C04.1', 0, floor=6, note='technique priority cfi > frame pointer > scan; each later technique only when the running result is None')
    for arch in ARCHES:
        f = cu.fn('minidump_unwind::%s::get_caller_frame::{closure#0}' % arch)
        if f is None:
            res.error('C04.1', 'get_caller_frame body of %s not found' % arch)
            continue
        res.rule('C04.1', 1)
        calls = {}
        for b, t in f.calls():
            m = re.match(r'minidump_unwind::%s::(get_caller_by_\w+?)(32|64)?$' % arch, f.callee(t))
            if m:
                calls.setdefault(m.group(1), []).append(b)
        order = [k for k in TECH if k in calls]
        if 'get_caller_by_cfi' not in calls or 'get_caller_by_scan' not in calls:
            res.violation('C04.1', 'C04.1|%s|missing' % arch, f, f.line, 'techniques called: %s' % sorted(calls))
            continue
        ok = True
        why = ''
        for i in range(len(order) - 1):
            a, b2 = calls[order[i]][0], calls[order[i + 1]][0]
            if b2 not in f.reachable_from(f.succ[a]) or a in f.reachable_from(f.succ[b2]):
                ok = False
                why = '%s does not precede %s' % (order[i], order[i + 1])
        for k in order[1:]:
            for b in calls[k]:
                facts = [r for r, g, s in panics.dominating_facts(f, b)]
                if not any(r[0] == 'true' and is_call(r[1], 'is_none') and show(r[1][2]) == 'frame' for r in facts):
                    ok = False
                    why = '%s is not guarded by frame.is_none()' % k
        # no path from a later technique back to an earlier one
        for i in range(len(order)):
            for j in range(i):
                for b in calls[order[i]]:
                    if any(x in f.reachable_from(f.succ[b]) for x in calls[order[j]]):
                        ok = False
                        why = '%s can be retried after %s' % (order[j], order[i])
        if not ok:
            res.violation('C04.1', 'C04.1|%s' % arch, f, f.line, 'technique order broken in %s: %s' % (arch, why))
        else:
            res.sample({'rule': 'C04.1', 'arch': arch, 'order': order})


def fingerprint(f, subst):
    """order-preserving structural fingerprint of a function body: statements and terminators as trees,
    unnamed locals anonymised, with a textual substitution applied"""
    out = []
    for b in sorted(f.reach):
        for s in f.blocks[b]['s']:
            if s['k'] == 'assign':
                if is_log_term(s):
                    continue
                out.append(show(f.place_tree(s['lhs'])) + ' = ' + show(f.rvalue_tree(s['rv'])))
        t = f.blocks[b]['t']
        if is_log_term(t):
            continue
        if t['k'] == 'call':
            out.append('call ' + show(f.call_tree(t)))
        elif t['k'] == 'switch':
            out.append('switch ' + show(f.operand_tree(t['x'])) + ' ' + str([v for v, _ in t['ts']]))
        elif t['k'] == 'assert':
            out.append('assert ' + t['ak'] + ' ' + t.get('op', ''))
        elif t['k'] in ('return', 'yield'):
            out.append(t['k'])
    res = []
    for line in out:
        line = re.sub(r'\b_\d+\b', '_', line)
        for a, b in subst:
            line = line.replace(a, b)
        res.append(line)
    return res


def twins(res, prog, cu):
    res.rule('C04.3', 0, floor=8, note='arm64.rs and arm64_old.rs are the same code modulo the context type')
    subst = [('arm64_old', 'arm64'), ('CONTEXT_ARM64_OLD', 'CONTEXT_ARM64'), ('OldArm64', 'Arm64')]
    a = {f.path.replace('minidump_unwind::arm64::', ''): f for f in cu.fns if f.path.startswith('minidump_unwind::arm64::')}
    b = {f.path.replace('minidump_unwind::arm64_old::', ''): f for f in cu.fns if f.path.startswith('minidump_unwind::arm64_old::')}
    for k in sorted(set(a) | set(b)):
        if '__CALLSITE' in k or 'META' in k:
            continue
        res.rule('C04.3', 1)
        if k not in a or k not in b:
            res.violation('C04.3', 'C04.3|missing|%s' % k, a.get(k) or b.get(k), None, '`%s` exists in only one of arm64.rs / arm64_old.rs' % k)
            continue
        fa, fb = fingerprint(a[k], []), fingerprint(b[k], subst)
        if fa != fb:
            diff = next(((x, y) for x, y in zip(fa, fb) if x != y), (None, None))
            res.violation('C04.3', 'C04.3|%s' % k, b[k], b[k].line, 'arm64_old::%s diverges from arm64::%s: `%s` vs `%s` (%d vs %d items)' % (k, k, (diff[0] or '')[:120], (diff[1] or '')[:120], len(fa), len(fb)))
    res.sample({'rule': 'C04.3', 'functions_compared': len(set(a) & set(b))})


def names_and_spellings(res, prog, cu):
    T = C18.Tables(prog)
    byctx = {}
    for f in T.crate.fns:
        m = C18.CTX_RE.match(f.path)
        if m:
            byctx.setdefault(m.group(1), {})[m.group(2)] = f
    res.rule('C04.14', 0, floor=6, note='CALLEE_SAVED_REGS of every architecture is the platform ABI set, without duplicates')
    res.rule('C04.4', 0, floor=30, note='register names used by the unwinders exist in the context\'s tables')
    res.rule('C04.6', 0, floor=30, note='validity sets hold, and raw `contains` tests use, only canonical (memoized) spellings')
    for arch, ctx in CTX_OF.items():
        regs = const_str_list(prog, 'minidump', '<minidump_common::format::%s as context::CpuContext>::REGISTERS' % ctx) or []
        memo = {}
        mf = byctx.get(ctx, {}).get('memoize_register')
        if mf is not None:
            mt, _ = T.get_table(mf)
            for n, vs in mt.items():
                v = next(iter(vs))
                if v[0] == 'adt' and len(v) == 3 and v[2][0] == 'str':
                    memo[n] = v[2][1]
        known = set(regs) | set(memo)
        # constants of the module
        c = prog.crate('minidump_unwind')
        for k, v in c.consts.items():
            if k.startswith('minidump_unwind::%s::' % arch) and 'str' in v and re.search(r'(REGISTER|POINTER|COUNTER)$', k):
                res.rule('C04.4', 1)
                if v['str'] not in known:
                    res.violation('C04.4', 'C04.4|%s|%s' % (arch, k.split('::')[-1]), None, None, '%s = "%s" is not a register of %s' % (k, v['str'], ctx), file='minidump-unwind/src/%s.rs' % arch)
        saved = const_str_list(prog, 'minidump_unwind', 'minidump_unwind::%s::CALLEE_SAVED_REGS' % arch)
        if saved is None:
            res.error('C04.4', 'CALLEE_SAVED_REGS of %s not found' % arch)
            saved = []
        # C04.14: the table is the platform ABI's callee-saved set (what "recovered callee-saved registers" means): the
        # registers a STACK CFI record may leave unmentioned because the callee preserves them.  Sets as in the System V
        # i386 / x86-64 psABIs, AAPCS32 (r4-r10, r11 = fp), AAPCS64 (x19-x28, x29 = fp) and the MIPS o32 / n64 ABIs
        # ($s0-$s7, $gp, $sp, $fp); the link / return-address registers are handled by the techniques themselves.
        ABI = {'x86': ['ebp', 'ebx', 'edi', 'esi'], 'amd64': ['rbx', 'rbp', 'r12', 'r13', 'r14', 'r15'],
               'arm': ['r4', 'r5', 'r6', 'r7', 'r8', 'r9', 'r10', 'fp'],
               'arm64': ['x19', 'x20', 'x21', 'x22', 'x23', 'x24', 'x25', 'x26', 'x27', 'x28', 'fp'],
               'arm64_old': ['x19', 'x20', 'x21', 'x22', 'x23', 'x24', 'x25', 'x26', 'x27', 'x28', 'fp'],
               'mips': ['s0', 's1', 's2', 's3', 's4', 's5', 's6', 's7', 'gp', 'sp', 'fp']}
        if arch in ABI and saved:
            res.rule('C04.14', 1)
            dup = sorted(set(n for n in saved if saved.count(n) > 1))
            canon = lambda n: memo.get(n, n)
            missing = sorted(set(canon(n) for n in ABI[arch]) - set(canon(n) for n in saved))
            extra = sorted(set(canon(n) for n in saved) - set(canon(n) for n in ABI[arch]))
            if dup or missing or extra:
                res.violation('C04.14', 'C04.14|%s' % arch, None, None, 'CALLEE_SAVED_REGS of %s is not the ABI\'s callee-saved set:%s%s%s; a register missing here is lost in every caller frame whose CFI record does not mention it' % (
                    arch, (' listed twice: %s;' % dup) if dup else '', (' missing: %s;' % missing) if missing else '', (' not callee-saved: %s' % extra) if extra else ''), file='minidump-unwind/src/%s.rs' % arch)
        for n in saved:
            res.rule('C04.4', 1)
            res.rule('C04.6', 1)
            if n not in known:
                res.violation('C04.4', 'C04.4|%s|saved|%s' % (arch, n), None, None, 'CALLEE_SAVED_REGS entry "%s" is not a register of %s: it would silently never be forwarded' % (n, ctx), file='minidump-unwind/src/%s.rs' % arch)
            elif n not in regs:
                res.violation('C04.6', 'C04.6|saved|%s|%s' % (arch, n), None, None, 'CALLEE_SAVED_REGS entry "%s" is an alias spelling; callee_forwarded_regs tests validity sets with a raw contains()' % n, file='minidump-unwind/src/%s.rs' % arch)
        # inserts into validity sets
        for f in cu.fns:
            if not f.path.startswith('minidump_unwind::%s::' % arch):
                continue
            for b, t in f.calls():
                if f.callee(t) == 'std::collections::HashSet::insert' and show(f.operand_tree(t['args'][0])) == 'valid':
                    res.rule('C04.6', 1)
                    v = resolve_items(prog, 'minidump_unwind', f.expand(f.operand_tree(t['args'][1])))
                    if v[0] != 'str':
                        res.violation('C04.6', 'C04.6|insert|%s|dynamic' % f.qual, f, t.get('line'), 'validity set receives a non-literal name %s' % show(v)[:80])
                    elif v[1] not in regs:
                        res.violation('C04.6', 'C04.6|insert|%s|%s' % (f.qual.replace('::{closure#0}', ''), v[1]), f, t.get('line'),
                                      'validity set receives "%s", which is %s of %s; forwarding and the printers look for the canonical spelling' % (v[1], 'an alias' if v[1] in memo else 'not a register', ctx))
    # the walker itself: set/clear by memoized name
    for f in cu.fns:
        if 'CfiStackWalker' not in f.path:
            continue
        for b, t in f.calls():
            n = f.callee(t)
            if n in ('std::collections::HashSet::insert', 'std::collections::HashSet::remove') and 'caller_validity' in show(f.operand_tree(t['args'][0])):
                res.rule('C04.6', 1)
                v = f.expand(f.operand_tree(t['args'][1]))
                sv = show(v)
                if not ('memoize_register' in sv or 'stack_pointer_register_name' in sv or 'instruction_pointer_register_name' in sv):
                    res.violation('C04.6', 'C04.6|%s|%s' % (n.split('::')[-1], f.qual), f, t.get('line'), 'caller_validity.%s(%s): the name is not memoized, so an alias spelling misses the stored canonical name' % (n.split('::')[-1], sv[:80]))
                else:
                    res.sample({'rule': 'C04.6', 'fn': f.qual.split('::')[-1], 'op': n.split('::')[-1], 'name_from': 'memoize / sp / ip accessor'})


def windows(res, prog, cu):
    res.rule('C04.5', 0, floor=12, note='documented scan windows: 40 words (x4 for the context frame), amd64/Windows frame-pointer slack 15 x 16 bytes, MIPS 1024 bytes')
    for arch in ('x86', 'amd64', 'arm', 'arm64', 'arm64_old'):
        f = cu.fn('minidump_unwind::%s::get_caller_by_scan::{closure#0}' % arch)
        if f is None:
            res.error('C04.5', 'scan body of %s not found' % arch)
            continue
        res.rule('C04.5', 1)
        # per variant of FrameTrust: the end of the range the scan iterates over (whatever the spelling of the choice:
        # two locals and an `if let`, named constants and a `match`, ...)
        adt = cu.adts.get('minidump_unwind::FrameTrust')
        its = [(b, f.expand(f.operand_tree(t['args'][0]))) for b, t in f.calls() if (f.callee(t) or '').endswith('IntoIterator>::into_iter')]
        its = [(b, a) for b, a in its if isinstance(a, tuple) and a[0] == 'adt' and str(a[1]).endswith('Range::Range') and len(a) == 4]
        if adt is None or len(its) != 1:
            res.error('C04.5', '%s: enum FrameTrust or the single `for i in a..b` of the scan not found (%d ranges)' % (arch, len(its)))
            continue
        ib, rg = its[0]
        watch = normal.multi_def_leaves(f, rg)
        ex = normal.VariantExplorer(f, adt, lambda x: isinstance(x, tuple) and len(x) == 3 and x[0] == 'field' and x[2] == 'trust' and 'callee_frame' in str(x[1]), watch=watch)
        tb = C18.Tables(prog)
        per = {}
        for v in adt['variants']:
            val = tb._fold(panics.resolve_items(prog, 'minidump_unwind', f.expand(normal.value_at(ex, v['name'], ib, rg))))
            per[v['name']] = (show(val[2]), val[3][1] if isinstance(val[3], tuple) and val[3][0] == 'int' else show(val[3]))
        want = dict((v['name'], ('0', 160 if v['name'] == 'Context' else 40)) for v in adt['variants'])
        if per != want:
            bad = dict((k, v) for k, v in per.items() if want.get(k) != v)
            res.violation('C04.5', 'C04.5|scan|%s' % arch, f, f.line, 'the scan examines words %s; documented: 0..40, and 0..160 for the context frame' % ', '.join('%s..%s for %s' % (v[0], v[1], k) for k, v in sorted(bad.items())))
        else:
            res.sample({'rule': 'C04.5', 'arch': arch, 'scan_words': 40, 'context_frame_words': 160})
        res.rule('C04.5', 1)
        addr = None
        for l in range(len(f.locals)):
            if f.local_name(l) in ('address_of_pc', 'address_of_ip'):
                sd = f.single_def(l)
                if sd is not None:
                    addr = show(f.expand(f.rvalue_tree(sd['rv']) if sd['kind'] == 'assign' else f.call_tree(sd['term'])))
        if not addr or not re.match(r'^\(Continue\.0 \(trybranch \(core::num::checked_add .+ \(Mul \(Some\.0 \(std::iter::range::next _\d*\)\) \(item minidump_unwind::%s::POINTER_WIDTH\)\)\)\)\)$' % arch, addr):
            res.violation('C04.5', 'C04.5|slot|%s' % arch, f, f.line, 'the examined slot is %s, not checked_add(sp, i * POINTER_WIDTH)?' % (addr or 'not found')[:200])
    f = cu.fn('minidump_unwind::amd64::get_caller_by_frame_pointer')
    if f is not None:
        res.rule('C04.5', 1)
        adt = prog.crate('minidump').adts.get('minidump::system_info::Os')
        per = amd64_probe_per_os(prog, f, adt) if adt else None
        args = sorted(set(p for ps in (per or {}).values() for p in ps), key=str)
        if (15, 16) not in args:
            res.violation('C04.5', 'C04.5|amd64-fp', f, f.line, 'Windows frame-pointer slack scan is %s, documented (15 steps, 16 bytes)' % args)
    c = prog.crate('minidump_unwind')
    for k in ('minidump_unwind::mips::get_caller_by_scan32::{closure#0}::MAX_STACK_SIZE', 'minidump_unwind::mips::get_caller_by_scan64::{closure#0}::MAX_STACK_SIZE'):
        res.rule('C04.5', 1)
        v = c.consts.get(k, {}).get('int')
        if v != 1024:
            res.violation('C04.5', 'C04.5|mips|%s' % k.split('::')[3], None, None, 'MIPS scan window is %s bytes, documented 1024' % v, file='minidump-unwind/src/mips.rs')


def ptr_auth(res, prog, cu):
    """C04.8: ARM64 return addresses / frame pointers are stripped with a mask that covers every address of every loaded
    module: all ones below the next power of two above max(2^47 - 1, end of the highest module), where the end is
    base + size (saturating).  A mask derived from the base alone cuts the top bit off return addresses in a module that
    straddles a power of two."""
    res.rule('C04.8', 0, floor=6, note='ptr_auth_strip: ptr & (next_power_of_two(max(2^47 - 1, last_module.base + last_module.size)) - 1), !0 on overflow')
    for arch in ('arm64', 'arm64_old'):
        f = need_fn(res, cu, 'minidump_unwind::%s::ptr_auth_strip' % arch, 'C04.8')
        if f is None:
            continue
        rets = [f.expand(t) for (b, i, t) in ret_assigns(f)]
        res.rule('C04.8', 1)
        want = re.compile(r'^\(BitAnd ptr \(std::option::Option::unwrap_or \(std::option::Option::map \(core::num::checked_next_power_of_two \(std::cmp::Ord::max \(Sub \(Shl 1 47\) 1\) \(std::option::Option::unwrap_or \(std::option::Option::map \(<std::iter::Map<I, F> as std::iter::DoubleEndedIterator>::next_back _\d*\) \(closure (minidump_unwind::%s::ptr_auth_strip::\{closure#\d+\})\)\) 0\)\)\) \(closure (minidump_unwind::%s::ptr_auth_strip::\{closure#\d+\})\)\) \(un Not 0\)\)\)$' % (arch, arch))
        m = want.match(show(rets[0])) if len(rets) == 1 else None
        if not m:
            res.violation('C04.8', 'C04.8|%s|mask' % arch, f, f.line, 'ptr_auth_strip is not ptr & (checked_next_power_of_two(max(2^47 - 1, <end of last module or 0>)).map(|b| b - 1).unwrap_or(!0)): %s' % (show(rets[0])[:300] if rets else 'no return'))
            continue
        hi, sub1 = cu.fn(m.group(1)), cu.fn(m.group(2))
        res.rule('C04.8', 2)
        e = [show(hi.expand(t)) for (b, i, t) in ret_assigns(hi)] if hi else []
        if e != ['(core::num::saturating_add (<minidump::MinidumpModule as minidump::Module>::base_address last_module) (<minidump::MinidumpModule as minidump::Module>::size last_module))']:
            res.violation('C04.8', 'C04.8|%s|module-end' % arch, hi or f, (hi or f).line, 'the highest module address is %s, not last_module.base_address().saturating_add(last_module.size())' % e)
        e = [show(sub1.expand(t)) for (b, i, t) in ret_assigns(sub1)] if sub1 else []
        if e != ['(Sub high_bit 1)']:
            res.violation('C04.8', 'C04.8|%s|mask-from-bit' % arch, sub1 or f, (sub1 or f).line, 'the mask is %s, not high_bit - 1' % e)
        # the iterator is modules.by_addr() (ascending by address), so next_back() is the highest module
        ok = any((f.callee(t) or '').endswith('MinidumpModuleList::by_addr') for b, t in f.calls())
        if not ok:
            res.violation('C04.8', 'C04.8|%s|by_addr' % arch, f, f.line, 'the module iterator is not modules.by_addr()')


def cfi_walker(res, prog, cu, rid='C04.9'):
    """C04.9 / C07.7: the CFI / STACK WIN evaluators see the callee frame they are unwinding: the walker handed to the symbol file
    is built field by field from that frame - the lookup address is the frame's `instruction` (return address minus the
    call adjustment, the same address the module was looked up with), not the return address itself - and its accessors
    return those fields."""
    res.rule(rid, 0, floor=12, note='CfiStackWalker field table: lookup address, module, grand-callee facts, contexts, stack; accessors return the fields')
    fs = [f for f in cu.fns if re.search(r"^minidump_unwind::CfiStackWalker::<'a, C>::from_ctx_and_args$", f.qual)]
    if len(fs) != 1:
        res.error(rid, 'CfiStackWalker::from_ctx_and_args not found')
        return
    f = fs[0]
    want = {
        'instruction': 'args.callee_frame.instruction',
        'has_grand_callee': '(std::option::Option::is_some args.grand_callee_frame)',
        'callee_ctx': 'ctx',
        'callee_validity': '(minidump_unwind::GetCallerFrameArgs::valid args)',
        'caller_ctx': '(std::clone::Clone::clone ctx)',
        'caller_validity': '(std::ops::Fn::call callee_forwarded_regs (tuple (minidump_unwind::GetCallerFrameArgs::valid args)))',
        'module': '(Continue.0 (trybranch (minidump::MinidumpModuleList::module_at_address args.modules args.callee_frame.instruction)))',
        'stack_memory': 'args.stack_memory',
    }
    found = False
    for b in sorted(f.reach):
        for s_ in f.blocks[b]['s']:
            if s_['k'] == 'assign' and s_['rv']['k'] == 'agg' and s_['rv'].get('ak') == 'adt' and 'CfiStackWalker' in s_['rv']['adt']:
                found = True
                vals = dict(zip(s_['rv'].get('fields', []), s_['rv']['xs']))
                for k, w in want.items():
                    res.rule(rid, 1)
                    got = show(f.expand(f.operand_tree(vals[k]))) if k in vals else '(missing)'
                    if got != w:
                        res.violation(rid, rid + '|field|%s' % k, f, s_.get('line'), 'CfiStackWalker.%s is %s; expected %s' % (k, got[:160], w))
                res.rule(rid, 1)
                g = show(f.expand(f.operand_tree(vals.get('grand_callee_parameter_size')))) if 'grand_callee_parameter_size' in vals else ''
                m = re.match(r"^\(std::option::Option::unwrap_or \(std::option::Option::and_then args\.grand_callee_frame \(closure (minidump_unwind::CfiStackWalker::<'a, C>::from_ctx_and_args::\{closure#\d+\})\)\) 0\)$", g)
                okp = False
                if m:
                    h = cu.fn(m.group(1))
                    okp = h is not None and [show(h.expand(t2)) for (_, _, t2) in ret_assigns(h)] in (['f.parameter_size'], ['(* f).parameter_size'], ['_2.parameter_size'])
                if not okp:
                    res.violation(rid, rid + '|field|grand_callee_parameter_size', f, s_.get('line'), 'grand_callee_parameter_size is %s; expected grand_callee_frame.and_then(|f| f.parameter_size).unwrap_or(0)' % g[:160])
    if not found:
        res.error(rid, 'no CfiStackWalker aggregate in from_ctx_and_args')
    for meth, fld in (('get_instruction', 'self.instruction'), ('has_grand_callee', 'self.has_grand_callee'), ('get_grand_callee_parameter_size', 'self.grand_callee_parameter_size')):
        gs = [g for g in cu.fns if g.qual == "<CfiStackWalker<'a, C> as breakpad_symbols::FrameWalker>::%s" % meth]
        res.rule(rid, 1)
        if len(gs) != 1 or [show(gs[0].expand(t2)) for (_, _, t2) in ret_assigns(gs[0])] != [fld]:
            res.violation(rid, rid + '|accessor|%s' % meth, gs[0] if gs else f, (gs[0] if gs else f).line, 'FrameWalker::%s does not return %s' % (meth, fld))


def mips_abi_dispatch(res, prog, cu):
    """C04.10: a MIPS walk stays in one ABI.  get_caller_frame chooses the o32 or the n64 code by Mips32Context::try_from,
    i.e. by the CPU type in the callee context's flags; so (a) that predicate is `flags contain CONTEXT_MIPS64 => 64-bit,
    anything else => 32-bit` (a scanned o32 frame carries no CPU bits at all), and (b) every context a scan builds for
    the caller is classified like the callee it came from: the 64-bit scan hands on the callee's context_flags, the
    32-bit scan hands on those or none.  (The CFI path clones the callee context: C04.9.)"""
    res.rule('C04.10', 0, floor=3, note='MIPS: the 32/64-bit dispatch predicate, and the context flags the two scans give the caller frame')
    tf = [f for f in cu.fns if re.search(r'Mips32Context as std::convert::TryFrom<.*CONTEXT_MIPS>>::try_from$', f.path)]
    res.rule('C04.10', 1)
    if len(tf) != 1:
        res.error('C04.10', 'Mips32Context::try_from not found')
    else:
        f = tf[0]
        sw = [(b, f.blocks[b]['t']) for b in sorted(f.reach) if f.blocks[b]['t']['k'] == 'switch']
        ok = False
        why = 'no single test of the context flags'
        if len(sw) == 1:
            b, t = sw[0]
            cond = f.expand(f.operand_tree(t['x']))
            neg = False
            while cond[0] == 'un' and cond[1] == 'Not':
                cond, neg = cond[2], not neg
            good = (is_call(cond, 'contains') and is_call(cond[2], 'ContextFlagsCpu::from_flags') and show(cond[2][2]) in ('ctx.context_flags', 'ctx.0.context_flags')
                    and cond[3] == ('item', 'minidump::format::ContextFlagsCpu::CONTEXT_MIPS64'))
            if not good:
                why = 'the dispatch tests %s, not `from_flags(ctx.context_flags).contains(CONTEXT_MIPS64)`' % show(cond)[:160]
            else:
                false_t = dict((v, tg) for v, tg in t['ts']).get(0)
                true_t = t['o'] if false_t is not None else None
                if neg:
                    false_t, true_t = true_t, false_t
                outs = {}
                for (rb, ri, tr) in ret_assigns(f):
                    v = show(f.expand(tr))
                    kind = 'Err' if v.startswith('(adt std::result::Result::Err') else 'Ok' if v.startswith('(adt std::result::Result::Ok') else '?'
                    for side, tgt in (('true', true_t), ('false', false_t)):
                        if tgt is not None and (rb == tgt or f.dominates(tgt, rb)):
                            outs.setdefault(side, set()).add(kind)
                ok = outs.get('true') == {'Err'} and outs.get('false') == {'Ok'}
                if not ok:
                    why = 'CONTEXT_MIPS64 set gives %s, clear gives %s (expected Err = 64-bit / Ok = 32-bit)' % (sorted(outs.get('true', [])), sorted(outs.get('false', [])))
        if not ok:
            res.violation('C04.10', 'C04.10|predicate', f, f.line, why)
    views, absorbed = with_helpers(prog, 'minidump_unwind', r'^minidump_unwind::mips::get_caller_(by_\w+|frame)(::\{closure#\d+\})*$')
    seen = 0
    for path, f in sorted(views.items()):
        m = re.search(r'mips::get_caller_by_scan(32|64)::\{closure#0\}$', path)
        if not m:
            continue
        width = m.group(1)
        flags = []
        for b in sorted(f.reach):
            for s_ in f.blocks[b]['s']:
                if s_['k'] == 'assign' and s_['rv']['k'] == 'agg' and s_['rv'].get('ak') == 'adt' and s_['rv']['adt'].endswith('format::CONTEXT_MIPS'):
                    vals = dict(zip(s_['rv']['fields'], s_['rv']['xs']))
                    flags.append((show(f.expand(f.operand_tree(vals['context_flags']))), s_.get('line')))
        defaults = [t.get('line') for b, t in f.calls() if re.search(r'CONTEXT_MIPS as std::default::Default>::default$', f.callee(t))]
        # writes of the field after construction
        later = [(show(place), show(f.expand(rv)), f.blocks[pb]['s'][pi].get('line')) for (pb, pi, place, rv) in part_assigns(f, 'context_flags')]
        res.rule('C04.10', 1)
        seen += 1
        if not flags and not defaults:
            res.violation('C04.10', 'C04.10|scan%s|ctx' % width, f, f.line, 'cannot find the context the scan builds for the caller')
            continue
        srcs = [x for x, ln in flags] + [x for _, x, ln in later]
        if not flags and not later:
            srcs = ['(default)']
        callee = ('ctx.context_flags', 'ctx.0.context_flags', '(deref ctx).context_flags', '(deref ctx).0.context_flags')
        for x in srcs:
            if width == '64' and x not in callee:
                res.violation('C04.10', 'C04.10|scan64|flags', f, (flags or [(0, f.line)])[0][1], 'the 64-bit scan gives the caller frame the context flags %s: without the callee\'s CPU type the next step unwinds it as mips32' % x)
            if width == '32' and x not in callee and x not in ('(default)', '0') and 'Default>::default).context_flags' not in x:
                res.violation('C04.10', 'C04.10|scan32|flags', f, (flags or [(0, f.line)])[0][1], 'the 32-bit scan gives the caller frame the context flags %s (expected the callee\'s, or none)' % x)
    if seen != 2:
        res.error('C04.10', 'expected the two MIPS scan functions, found %d' % seen)


def amd64_probe(res, prog, cu):
    """C04.11: the Windows x64 frame-pointer probe tries every slot.  In the probing loop a candidate-specific failure
    moves on to the next slot (`continue`); the only reads that may end the whole probe with `?` are those at addresses
    computed from last_bp and the loop offset.  A read at an address that was itself read from the stack (the candidate's
    saved rbp) must not sit under `?` (repair 37ec106)."""
    res.rule('C04.11', 0, floor=1, note='amd64 frame-pointer probe: reads at candidate-derived addresses do not abort the probe')
    fs = [f for f in cu.fns if re.search(r'^minidump_unwind::amd64::get_caller_by_frame_pointer::\{closure#\d+\}(::\{closure#\d+\})?$', f.path)]
    seen = 0
    for f in fs:
        for b, t in f.calls():
            if not f.callee_decl(t).endswith('Try>::branch') and not (f.callee(t) or '').endswith('Try>::branch'):
                continue
            a = f.expand(f.operand_tree(t['args'][0]))
            if not is_call(a, 'get_memory_at_address'):
                continue
            seen += 1
            res.rule('C04.11', 1)
            addr = a[3] if len(a) > 3 else a[-1]
            if 'get_memory_at_address' in show(addr) and any(b in body for body in f.loops().values()):
                res.violation('C04.11', 'C04.11|candidate-read', f, t.get('line'), 'inside the probing loop a read at the candidate\'s own saved frame pointer (%s) ends the whole probe through `?`: later slots are never tried' % show(addr)[:100])
    if not seen:
        res.error('C04.11', 'no `?` on a stack read found in the amd64 frame-pointer probe')


def ios_frame_pointer(res, prog, cu):
    """C04.12: the ARM frame-pointer technique runs on iOS only, and on iOS the frame pointer is r7 (format.rs:
    ArmRegisterNumbers::IosFramePointer); the technique must read and restore that register, not r11 / "fp"."""
    res.rule('C04.12', 0, floor=1, note='arm frame-pointer technique (iOS only) uses the iOS frame pointer r7')
    c = prog.crate('minidump_unwind')
    v = c.consts.get('minidump_unwind::arm::FRAME_POINTER')
    res.rule('C04.12', 1)
    if v is None or 'str' not in v:
        res.error('C04.12', 'minidump_unwind::arm::FRAME_POINTER not found')
        return
    fs = [f for f in cu.fns if re.search(r'^minidump_unwind::arm::get_caller_by_frame_pointer(::\{closure#0\})?$', f.path)]
    adt = prog.crate('minidump').adts.get('minidump::system_info::Os')
    views, _ = with_helpers(prog, 'minidump_unwind', r'^minidump_unwind::arm::get_caller_by_frame_pointer$')
    fv = views.get('minidump_unwind::arm::get_caller_by_frame_pointer')
    ios_only = False
    if adt and fv is not None:
        reads = [b for b, t in fv.calls() if re.search(r'(get_register|get_memory_at_address|get_register_always)$', fv.callee(t) or '')]
        ios_only = variants_reaching(prog, fv, adt, _is_os, reads)[0] == {'Ios'}
    if v['str'] != 'r7' and ios_only:
        res.violation('C04.12', 'C04.12|ios-fp', fs[0] if fs else None, None, 'the ARM frame-pointer technique is used on iOS only and follows "%s" (r11); on iOS the frame pointer is r7, so standard `push {r7, lr}; mov r7, sp` chains are not walked by frame pointer' % v['str'], file='minidump-unwind/src/arm.rs')


import normal


def variants_reaching(prog, fn, adt, is_subject, targets):
    return normal.variants_reaching(fn, adt, is_subject, targets)


def _is_os(x):
    return isinstance(x, tuple) and len(x) == 3 and x[0] == 'field' and x[2] == 'os' and 'system_info' in str(x[1])


def os_gates(res, prog, cu):
    """C04.13: the two OS-dependent technique preconditions of the statement.  (a) The ARM frame-pointer technique reads
    registers and stack memory for Os::Ios only: every other OS leaves before the first read.  (b) The amd64 frame-pointer
    technique applies the 240-byte probe (15 further 16-byte slots) for Os::Windows only and the plain frame-pointer
    layout (no slack) for every other OS.  Decided by resolving every decision on `system_info.os` for each variant of
    minidump::system_info::Os in turn and asking which variants reach the reads / the probe call."""
    res.rule('C04.13', 0, floor=3, note='OS preconditions of the frame-pointer techniques: ARM reads for iOS only; amd64 probes 15 extra slots for Windows only, none elsewhere')
    adt = prog.crate('minidump').adts.get('minidump::system_info::Os')
    if not adt:
        res.error('C04.13', 'enum minidump::system_info::Os not found')
        return
    views, _ = with_helpers(prog, 'minidump_unwind', r'^minidump_unwind::(arm|amd64)::get_caller_by_frame_pointer$')
    allv = set(v['name'] for v in adt['variants'])
    # (a) arm
    f = views.get('minidump_unwind::arm::get_caller_by_frame_pointer')
    if f is None:
        res.error('C04.13', 'minidump_unwind::arm::get_caller_by_frame_pointer not found')
    else:
        reads = [b for b, t in f.calls() if re.search(r'(get_register|get_memory_at_address|get_register_always)$', f.callee(t) or '')]
        if not reads:
            res.error('C04.13', 'no register or stack read found in the ARM frame-pointer technique')
        got, n = variants_reaching(prog, f, adt, _is_os, reads)
        res.rule('C04.13', 1)
        if got != {'Ios'}:
            extra, missing = sorted(got - {'Ios'}), sorted({'Ios'} - got)
            res.violation('C04.13', 'C04.13|arm-os', f, None, 'the ARM frame-pointer technique must run for Os::Ios only (elsewhere r11 / lr are general-purpose registers): its register and stack reads are %s' % (
                ('also reached for ' + ', '.join('Os::' + x for x in extra)) if extra else 'not reached for Os::Ios'), file='minidump-unwind/src/arm.rs')
    # (b) amd64
    f = views.get('minidump_unwind::amd64::get_caller_by_frame_pointer')
    if f is None:
        res.error('C04.13', 'minidump_unwind::amd64::get_caller_by_frame_pointer not found')
        return
    got = amd64_probe_per_os(prog, f, adt)
    if got is None:
        res.error('C04.13', 'no call of the amd64 frame-pointer resolver closure with a (slots, step) pair was found')
        return
    res.rule('C04.13', 2)
    probing = set(v for v, pairs in got.items() if any(n != 0 for n, st in pairs))
    plain = set(v for v, pairs in got.items() if pairs and all(n == 0 for n, st in pairs))
    missing = set(v for v, pairs in got.items() if not pairs)
    if probing != {'Windows'}:
        res.violation('C04.13', 'C04.13|amd64-probe-os', f, None, 'the 240-byte frame-pointer probe is the Windows x64 precondition: it is applied for %s' % (', '.join('Os::' + x for x in sorted(probing)) or 'no OS'), file='minidump-unwind/src/amd64.rs')
    if plain != allv - {'Windows'} or missing:
        res.violation('C04.13', 'C04.13|amd64-plain-os', f, None, 'the plain frame-pointer layout must be used for every OS but Windows: it is used for %s%s' % (
            ', '.join('Os::' + x for x in sorted(plain)) or 'no OS', ('; no resolver call is reached for ' + ', '.join(sorted(missing))) if missing else ''), file='minidump-unwind/src/amd64.rs')
    for n, st in sorted(got.get('Windows', ()), key=str):
        if n != 0 and (n != 15 or st != 16):
            res.violation('C04.13', 'C04.13|amd64-slack', f, None, 'the Windows x64 probe must cover 240 bytes of slack: 15 further slots of 2 * POINTER_WIDTH = 16 bytes; found (%s, %s)' % (n, st), file='minidump-unwind/src/amd64.rs')


def amd64_probe_per_os(prog, f, adt):
    """variant of Os -> set of (slots, step) pairs handed to the resolver closure of amd64::get_caller_by_frame_pointer,
    whatever the spelling: one call per arm with constant pairs, or one call fed by a pair chosen per arm"""
    calls = []
    watch = set()
    for b, t in f.calls():
        if not re.search(r'get_caller_by_frame_pointer::\{closure#\d+\}$', f.callee(t) or '') or len(t['args']) < 2:
            continue
        a = f.expand(f.operand_tree(t['args'][1]))
        if not (isinstance(a, tuple) and a[0] == 'tuple' and len(a) == 3):
            continue
        if 'tracing::' in show(a):
            continue
        calls.append((b, a))
        normal.multi_def_leaves(f, a, watch)
    if not calls:
        return None
    ex = normal.VariantExplorer(f, adt, _is_os, watch=watch)
    tb = C18.Tables(prog)
    out = {}
    for v in adt['variants']:
        name = v['name']
        pairs = set()
        reached = set(b for (b, _e) in ex.states[name])
        for b, a in calls:
            if b not in reached:
                continue
            val = normal.value_at(ex, name, b, a)
            val = tb._fold(panics.resolve_items(prog, 'minidump_unwind', f.expand(val)))
            if isinstance(val, tuple) and val[0] == 'tuple' and len(val) == 3:
                pairs.add(tuple(x[1] if isinstance(x, tuple) and x[0] == 'int' else show(x) for x in val[1:]))
            else:
                pairs.add((show(val), '?'))
        out[name] = pairs
    return out


def run(tier, t0):
    res = harness.Result(PID)
    prog = program()
    cu = prog.crate('minidump_unwind')
    priority(res, prog, cu)
    # C04.2 technique labels (shared with C05.5)
    sub = harness.Result('C05')
    C05.check_construction(prog, sub)
    n = sub.rules.get('C05.5', {}).get('instances', 0)
    res.rule('C04.2', n, floor=18, note='every frame created inside get_caller_by_<technique> carries that technique\'s trust label')
    for v in sub.violations:
        if v['rule'] == 'C05.5':
            res.violations.append(dict(v, rule='C04.2', key=v['key'].replace('C05.5', 'C04.2')))
    twins(res, prog, cu)
    names_and_spellings(res, prog, cu)
    windows(res, prog, cu)
    # C04.7 the x86 FPO technique as a formula table (shared with C07.6): the leftover-return-address heuristic and
    # the saved-$ebp slot are part of "the walker recovers the caller" for STACK WIN type 0 frames
    from . import fpo
    fpo.fpo_formulas(res, prog, 'C04.7')
    ptr_auth(res, prog, cu)
    cfi_walker(res, prog, cu)
    mips_abi_dispatch(res, prog, cu)
    amd64_probe(res, prog, cu)
    ios_frame_pointer(res, prog, cu)
    os_gates(res, prog, cu)
    res.assumptions += ['that frames, registers and names come out right for a given stack is behavioural: a fault inside a technique\'s arithmetic is invisible to these rules']
    return harness.finish(res, tier, t0, distinct=9, explanation=(
        'Narrow claim: necessary structural conditions of correct walking. Technique priority and retry discipline in each architecture, technique labels, MIR-level equality of the arm64 / arm64_old twins modulo the context type, '
        'existence and canonical spelling of every register name the unwinders insert into or test against validity sets (two alias defects found this way were repaired in /repo), the documented scan windows read from MIR constants, the FPO formula table, the pointer-authentication mask, the walker handed to the symbol file, the MIPS ABI dispatch, the amd64 probe, and the OS preconditions of the frame-pointer techniques decided per variant of enum Os.'))
