"""C09 — parsing a symbol file is total and bounded."""
from .common import *
from . import totality
import panics

PID = 'C09'
PARSE_FNS = ['breakpad_symbols::sym_file::<impl sym_file::types::SymbolFile>::parse',
             'breakpad_symbols::sym_file::<impl sym_file::types::SymbolFile>::parse_async::{closure#0}']


def var_assigns(f, name):
    """(bb, idx, tree) for whole assignments to the user variable `name`"""
    out = []
    for l, ds in f.defs.items():
        if f.local_name(l) != name:
            continue
        for d in ds:
            if d['kind'] == 'assign':
                out.append((d['bb'], d['idx'], f.rvalue_tree(d['rv']), d['st'].get('line')))
    return out


def facts_at(f, b):
    return [r for r, g, s in panics.dominating_facts(f, b)]


def window_rules(res, prog):
    c = prog.crate('breakpad_symbols')
    res.rule('C09.3', 0, floor=4, note='buffer starts at the constant INITIAL_BUFFER_CAPACITY and only grows under the cap test; nothing else grows it')
    res.rule('C09.4', 0, floor=2, note='cap exceeded => enter recovery and continue, never an error return')
    res.rule('C09.2', 0, floor=8, note='flag protocol the termination argument of the parse loops rests on')
    cap = prog.const_int('breakpad_symbols::sym_file::MAX_BUFFER_CAPACITY', 'breakpad_symbols')
    init = prog.const_int('breakpad_symbols::sym_file::INITIAL_BUFFER_CAPACITY', 'breakpad_symbols')
    if cap is None or init is None:
        res.error('C09.3', 'MAX_BUFFER_CAPACITY / INITIAL_BUFFER_CAPACITY not found as integer statics')
        return
    res.extra['window'] = {'initial': init, 'cap': cap}
    # who may grow / reshape the buffer
    for f in c.fns:
        for b, t in f.calls():
            nm = f.callee(t)
            if re.match(r'circular::Buffer::(grow|with_capacity|from_slice|reset|consume_noshift|delete_slice|replace_slice|insert_slice|shift)$', nm):
                res.rule('C09.3', 1)
                if f.path not in PARSE_FNS:
                    res.violation('C09.3', 'C09.3|who|%s|%s' % (f.qual, nm), f, t.get('line'), '%s called outside SymbolFile::parse / parse_async' % nm)
                elif nm.endswith('::with_capacity'):
                    sz = panics.resolve_items(prog, 'breakpad_symbols', f.expand(f.operand_tree(t['args'][0])))
                    if sz != ('int', init):
                        res.violation('C09.3', 'C09.3|init|%s' % f.qual, f, t.get('line'), 'buffer created with %s, not INITIAL_BUFFER_CAPACITY' % show(sz))
                elif not nm.endswith('::grow'):
                    res.violation('C09.3', 'C09.3|reshape|%s|%s' % (f.qual, nm), f, t.get('line'), 'unexpected buffer operation %s' % nm)
    for path in PARSE_FNS:
        f = need_fn(res, c, path, 'C09.4')
        if f is None:
            continue
        # ---- C09.4: the edge new_cap > MAX
        found = False
        for b in sorted(f.reach):
            t = f.blocks[b]['t']
            if t['k'] != 'switch':
                continue
            cond = panics.resolve_items(prog, 'breakpad_symbols', f.expand(f.operand_tree(t['x'])))
            if not (cond[0] == 'bin' and cond[1] in ('Gt', 'Ge', 'Lt', 'Le') and (cond[3] == ('int', cap) or cond[2] == ('int', cap))):
                continue
            found = True
            res.rule('C09.4', 1)
            # successor taken when the new capacity exceeds the cap
            exceed_true = cond[1] in ('Gt', 'Ge') and cond[3] == ('int', cap) or cond[1] in ('Lt', 'Le') and cond[2] == ('int', cap)
            over = t['o'] if exceed_true else t['ts'][0][1]
            loops = f.loops()
            hdrs = [h for h, body in loops.items() if b in body]
            region = f.reachable_from(over, avoid=hdrs)
            sets_flag = False
            errs = False
            for rb in region:
                for s in f.blocks[rb]['s']:
                    if s['k'] == 'assign' and not s['lhs'].get('p'):
                        if f.local_name(s['lhs']['l']) == 'in_panic_recovery' and f.rvalue_tree(s['rv']) == ('int', 1):
                            sets_flag = True
                        if s['lhs']['l'] == 0 and s['rv']['k'] == 'agg' and s['rv'].get('variant') == 'Err':
                            errs = True
                tt = f.blocks[rb]['t']
                if tt['k'] == 'call' and tt['dest']['l'] == 0:
                    errs = True
            if not sets_flag or errs:
                res.violation('C09.4', 'C09.4|%s' % f.qual, f, t.get('line'), 'the cap-exceeded edge %s' % ('reaches an error return' if errs else 'does not enter recovery mode'))
            else:
                res.sample({'rule': 'C09.4', 'fn': f.qual, 'cap': cap})
        if not found:
            res.error('C09.4', 'no comparison against MAX_BUFFER_CAPACITY found in %s' % f.qual)
        # ---- C09.2 flag protocol
        for (b, i, tree, line) in var_assigns(f, 'tried_to_grow'):
            res.rule('C09.2', 1)
            fs = facts_at(f, b)
            if tree == ('int', 1):
                grows = [gb for gb, gt in f.calls() if f.callee(gt) == 'circular::Buffer::grow' and f.dominates(gb, b)]
                notyet = any(r[0] == 'false' and show(r[1]) == 'tried_to_grow' for r in fs)
                if not grows or not notyet:
                    res.violation('C09.2', 'C09.2|tried_to_grow=true|%s' % f.qual, f, line, '`tried_to_grow = true` must follow a grow() on the edge where it was false')
            elif tree == ('int', 0):
                if b == 0 or f.dominates(b, min(h for h in f.loops()) if f.loops() else 0) and not any(b in body for body in f.loops().values()):
                    continue  # initialisation before the loop
                ok = any((r[0] == 'ne' and show(r[1]) == 'size' and r[2] == ('int', 0)) for r in fs)
                if not ok:
                    res.violation('C09.2', 'C09.2|tried_to_grow=false|%s' % f.qual, f, line, '`tried_to_grow = false` outside the `size != 0` edge')
        for (b, i, tree, line) in var_assigns(f, 'in_panic_recovery'):
            res.rule('C09.2', 1)
            inloop = any(b in body for body in f.loops().values())
            if not inloop:
                continue
            fs = facts_at(f, b)
            if tree == ('int', 1):
                ok = any(r[0] in ('lt', 'le') and panics.resolve_items(prog, 'breakpad_symbols', f.expand(r[1])) == ('int', cap) for r in fs)
                if not ok:
                    res.violation('C09.2', 'C09.2|recovery=true|%s' % f.qual, f, line, '`in_panic_recovery = true` outside the cap-exceeded edge')
            elif tree == ('int', 0):
                cons = [cb for cb, ct in f.calls() if f.callee(ct) == 'circular::Buffer::consume' and f.dominates(cb, b)]
                if not cons:
                    res.violation('C09.2', 'C09.2|recovery=false|%s' % f.qual, f, line, '`in_panic_recovery = false` not preceded by a consume')


def digits_rule(res, prog):
    """backing rule C09.digits: the accumulator loops run over input.iter().take(c) with c <= 19"""
    c = prog.crate('breakpad_symbols')
    res.rule('C09.digits', 0, floor=2, note='digit accumulators are fed by input.iter().take(MAX) with a small constant MAX')
    for path in ('breakpad_symbols::sym_file::parser::decimal_u32', 'breakpad_symbols::sym_file::parser::hex_str'):
        f = need_fn(res, c, path, 'C09.digits')
        if f is None:
            continue
        takes = [(b, t) for b, t in f.calls() if f.callee_decl(t).endswith('Iterator::take') or f.callee(t).endswith('Iterator::take')]
        res.rule('C09.digits', 1)
        ok = False
        for b, t in takes:
            n = panics.resolve_items(prog, 'breakpad_symbols', f.expand(f.operand_tree(t['args'][1])))
            if n[0] == 'int' and n[1] <= 19:
                ok = True
            elif n[0] == 'bin' and n[1] == 'Mul' and n[3] == ('int', 2):
                ok = True  # size_of::<T>() * 2 hex digits: exactly the width of T
        if not ok:
            res.violation('C09.digits', 'C09.digits|%s' % path, f, f.line, 'digit loop is not bounded by take(<small constant>)')


def finish_item_rule(res, prog):
    """backing rule C09.finish_item: finish_item is only called with cur_item contents"""
    c = prog.crate('breakpad_symbols')
    res.rule('C09.finish_item', 0, floor=2, note='finish_item callers pass the taken cur_item; cur_item is only set to Function / StackCfi lines')
    adt = c.adts.get('breakpad_symbols::sym_file::parser::Line')
    if adt is None:
        res.error('C09.finish_item', 'enum Line not found')
        return
    allowed = set()
    for i, v in enumerate(adt['variants']):
        if v['name'] in ('Function', 'StackCfi'):
            allowed.add(v.get('discr', i))

    def is_multiline(f, b, tree):
        tx = f.expand(tree)
        sx = show(tx)
        if tx[0] == 'adt' and re.search(r'Line::(Function|StackCfi)$', tx[1]):
            return True
        if 'cur_item' in sx:
            return True
        for rel, g, sc in panics.dominating_facts(f, b):
            if rel[0] == 'switch' and rel[1][0] == 'discr' and panics.same_tree(f, rel[1][1], tree) and rel[2] in allowed:
                return True
        return False

    for f in c.fns:
        for b, t in f.calls():
            if f.callee(t) == 'breakpad_symbols::sym_file::parser::SymbolParser::finish_item':
                res.rule('C09.finish_item', 1)
                arg = f.operand_tree(t['args'][1])
                if not is_multiline(f, b, arg):
                    res.violation('C09.finish_item', 'C09.finish_item|%s' % f.qual, f, t.get('line'), 'finish_item called with %s (not provably a Function / StackCfi item)' % show(f.expand(arg))[:200])
        for (b, i, place, rv) in part_assigns(f, 'cur_item'):
            rvx = f.expand(rv)
            if 'Option::None' in show(rvx):
                continue
            res.rule('C09.finish_item', 1)
            inner = rvx[2] if rvx[0] == 'adt' and rvx[1].endswith('Option::Some') and len(rvx) == 3 else rvx
            if not is_multiline(f, b, inner):
                res.violation('C09.finish_item', 'C09.finish_item|set|%s' % f.qual, f, f.blocks[b]['s'][i].get('line'), 'cur_item set to %s (not provably a Function / StackCfi item)' % show(rvx)[:200])


def run(tier, t0):
    res = harness.Result(PID)
    prog = program()
    fns, derived = totality.in_scope_fns(prog, ['breakpad_symbols'], lambda f: '/sym_file/' in f.file and not f.file.endswith('walker.rs'))
    nontrivial = totality.run_panics(res, prog, fns, 'C09.1', floor_sites=60)
    if tier == 'thorough':
        totality.clippy_crosscheck(res, prog, fns, 'C09.1')
        # cfg-gated twin: breakpad-symbols without the `http` feature
        prog2 = program('symbols-nohttp')
        fns2, _ = totality.in_scope_fns(prog2, ['breakpad_symbols'], lambda f: '/sym_file/' in f.file and not f.file.endswith('walker.rs'))
        totality.run_panics(res, prog2, fns2, 'C09.1' + '/nohttp', floor_sites=50)
    totality.run_loops(res, prog, fns, 'C09.2L', floor_l3=3)
    totality.run_allocs(res, prog, fns, 'C09.3A', floor=3)
    window_rules(res, prog)
    digits_rule(res, prog)
    finish_item_rule(res, prog)
    from . import parseloop
    parseloop.check(res, prog, 'C09.5', None)
    res.assumptions += [
        'nom combinators and circular::Buffer are covered through the API table only (consume/fill/grow clamp their argument; verified by reading circular 0.3)',
        'the Read / HTTP chunk source eventually returns 0 bytes or an error',
        'usize is 64 bits wide',
    ]
    return harness.finish(res, tier, t0, distinct=len(nontrivial), explanation=(
        'Panic-edge inventory, loop-shape and allocation-provenance analysis over sym_file/{mod,parser,types,walker}.rs, plus structural rules for the '
        'fixed window: the buffer is created with the constant initial capacity, every grow() is dominated by the false edge of the cap comparison, '
        'no other function reshapes it, the cap-exceeded edge enters recovery mode and never returns an error, and the flag protocol that the '
        'termination argument of the parse loops rests on (tried_to_grow / in_panic_recovery transitions) is as reviewed.'))
