"""C17 — lookup paths derived from module names stay inside the symbol directories."""
from .common import *
import panics

PID = 'C17'
LOOKUPS = ['breakpad_symbols::breakpad_sym_lookup', 'breakpad_symbols::code_info_breakpad_sym_lookup',
           'breakpad_symbols::extra_debuginfo_lookup', 'breakpad_symbols::binary_lookup']


def untry(t):
    if t[0] == 'vfield' and t[1] in ('Continue', 'Some') and t[2] == '0':
        inner = t[3]
        if inner[0] == 'trybranch':
            return inner[1]
        return inner
    return None


def strip_views(t):
    """drop deref / as_str / index[..] / clone / borrow wrappers that do not change the text"""
    while True:
        if t[0] == 'call' and len(t) == 3 and re.search(r'(Deref>::deref|AsRef<.*>>::as_ref|::as_str|Clone>::clone|Borrow<.*>>::borrow|ToOwned>::to_owned|::as_ref)$', t[1]) and 'CodeId' not in t[1]:
            t = t[2]
            continue
        if t[0] == 'call' and len(t) == 4 and re.search(r'ops::Index<.*>>::index$|str::traits::index$', t[1]) and t[3][0] == 'adt' and t[3][1].endswith('RangeFull::RangeFull'):
            t = t[2]
            continue
        return t


def classify_component(f, t):
    """(kind, detail): 'leaf' = sanitised file name, 'id' = identifier text, 'ext' = leaf with replaced extension"""
    t = strip_views(f.expand(t))
    u = untry(t)
    if u is not None and is_call(u, 'breakpad_symbols::lookup_leafname'):
        src = show(u[2])
        if 'Module::debug_file' in src or 'Module::code_file' in src:
            return 'leaf', src
        return None, 'lookup_leafname of %s' % src
    if is_call(t, 'breakpad_symbols::replace_or_add_extension'):
        k, d = classify_component(f, t[2])
        if k == 'leaf' and t[3][0] == 'str' and t[4][0] == 'str' and '/' not in t[4][1] and '\\' not in t[4][1] and '..' not in t[4][1]:
            return 'ext', d
        return None, 'replace_or_add_extension of an unsanitised name'
    s = show(t)
    if re.search(r'ToString>::to_string \(debugid::(BreakpadFormat|DebugId)', s) or 'debugid::DebugId::breakpad' in s:
        return 'id', 'DebugId::breakpad()'
    if 'Module::code_identifier' in s and ('to_string' in s or 'CodeId' in s or 'to_uppercase' in s):
        return 'id', 'CodeId text'
    if re.search(r'debugid::CodeId', s):
        return 'id', 'CodeId text'
    return None, s[:160]


def lookups(res, prog, c):
    res.rule('C17.1', 0, floor=15, note='every component of a relative lookup path is a sanitised leaf name, that leaf with a replaced extension, or an identifier text')
    for path in LOOKUPS:
        f = need_fn(res, c, path, 'C17.1')
        if f is None:
            continue
        joins = [(b, t) for b, t in f.calls() if f.callee(t) == 'std::slice::join']
        if not joins:
            res.error('C17.1', '%s builds no joined path' % path)
        for b, t in joins:
            sep = f.expand(f.operand_tree(t['args'][1]))
            if sep != ('str', '/'):
                res.violation('C17.1', 'C17.1|sep|%s' % path, f, t.get('line'), 'path components joined with %s' % show(sep))
            arr = f.expand(f.operand_tree(t['args'][0]))
            arr = strip_views(arr)
            while arr[0] == 'cast' or (arr[0] == 'call' and 'Unsize' in arr[1]):
                arr = arr[2]
            if arr[0] != 'array':
                res.rule('C17.1', 1)
                res.violation('C17.1', 'C17.1|shape|%s' % path, f, t.get('line'), 'joined value is not a literal array of components: %s' % show(arr)[:120])
                continue
            for i, comp in enumerate(arr[1:]):
                res.rule('C17.1', 1)
                k, d = classify_component(f, comp)
                if k is None:
                    res.violation('C17.1', 'C17.1|%s|component%d' % (path, i), f, t.get('line'), 'path component %d is not a sanitised name or identifier: %s' % (i, d))
                else:
                    res.sample({'rule': 'C17.1', 'fn': path, 'component': i, 'kind': k, 'from': d[:100]}) if len(res.samples) < 25 else None
        # the FileLookup fields are exactly such joined strings
        for b in sorted(f.reach):
            for s in f.blocks[b]['s']:
                if s['k'] == 'assign' and s['rv']['k'] == 'agg' and s['rv'].get('ak') == 'adt' and s['rv']['adt'].endswith('FileLookup'):
                    vals = dict(zip(s['rv']['fields'], [f.operand_tree(x) for x in s['rv']['xs']]))
                    for fld in ('cache_rel', 'server_rel'):
                        res.rule('C17.1', 1)
                        v = strip_views(f.expand(vals[fld]))
                        if not is_call(v, 'std::slice::join'):
                            res.violation('C17.1', 'C17.1|%s|%s' % (path, fld), f, s.get('line'), 'FileLookup.%s is %s, not a joined component list' % (fld, show(v)[:120]))


def sanitiser(res, prog, c):
    res.rule('C17.2', 0, floor=6, note='lookup_leafname = leafname() minus drive prefixes, with "", "." and ".." rejected; leafname splits on both separator styles')
    f = need_fn(res, c, 'breakpad_symbols::lookup_leafname', 'C17.2')
    if f is not None:
        # judged with its private predicates inlined and constant flags threaded: `while has_prefix(leaf)` and
        # `let bad = matches!(leaf, "" | "." | ".."); if bad` are the same sanitiser as the spelled-out tests
        import normal
        views, _abs = with_helpers(prog, 'breakpad_symbols', r'^breakpad_symbols::lookup_leafname$')
        f = normal.thread_flags(views.get('breakpad_symbols::lookup_leafname', f))
        # the value under test: leafname(path) itself, or a local that only ever holds leafname(path) or a suffix of itself
        def suffix_of(l, tree):
            t = f.expand(tree)
            while t[0] in ('ref', 'deref') and len(t) == 2:
                t = t[1]
            return (t[0] == 'call' and re.search(r'str::traits::index$|ops::Index<.*>>::index$', t[1]) and len(t) == 4 and t[2][0] == 'var' and t[2][2] == l
                    and t[3][0] == 'adt' and t[3][1].endswith('RangeFrom::RangeFrom'))

        def is_leaf(tree):
            t = strip_views(f.expand(tree))
            if is_call(t, 'breakpad_symbols::leafname'):
                return True
            if t[0] == 'var' and isinstance(t[2], int):
                l = t[2]
                ds = [d for d in f.defs.get(l, []) if d['kind'] != 'arg']
                if not ds:
                    return False
                for d in ds:
                    if d['kind'] == 'call' and strip_generics(d['term'].get('fn') or '') == 'breakpad_symbols::leafname':
                        continue
                    if d['kind'] == 'assign' and suffix_of(l, f.rvalue_tree(d['rv'])):
                        continue
                    return False
                return True
            return False
        ex = PathExplorer(f, keep=lambda cnd: cnd[0] == 'call' and cnd[1] == 'core::str::traits::eq', track=[])
        ex.tracked = set()
        ex.run()
        rejected = set()
        some_ok = False
        some_blocks = []
        for (b, i, tree) in ret_assigns(f):
            for facts, env in ex.states.get(b, ()):
                hits = [cnd[3][1] for cnd, v in facts if v is True and cnd[3][0] == 'str' and is_leaf(cnd[2])]
                tx = f.expand(tree)
                if 'Option::None' in show(tx):
                    rejected.update(hits)
                elif tx[0] == 'adt' and tx[1].endswith('Option::Some') and is_leaf(tx[2]) and not hits:
                    some_ok = True
                    some_blocks.append(b)
                else:
                    res.violation('C17.2', 'C17.2|shape', f, f.line, 'unexpected return %s under %s' % (show(tx)[:100], hits))
        for bad in ('', '.', '..'):
            res.rule('C17.2', 1)
            if bad not in rejected:
                res.violation('C17.2', 'C17.2|accepts|%r' % bad, f, f.line, 'lookup_leafname does not reject the leaf %r' % bad)
        res.rule('C17.2', 1)
        if not some_ok:
            res.violation('C17.2', 'C17.2|some', f, f.line, 'lookup_leafname does not return Some(leaf) for other names')
        # drive prefixes: a loop strips `<letter>:` while the leaf starts with one, and is left only when it does not
        res.rule('C17.2', 1)
        drive_ok = False
        why = 'no loop that strips a drive prefix'
        for h, body in f.loops().items():
            strips = []
            for l, ds in f.defs.items():
                for d in ds:
                    if d['kind'] == 'assign' and d['bb'] in body and suffix_of(l, f.rvalue_tree(d['rv'])):
                        tr = f.expand(f.rvalue_tree(d['rv']))
                        while tr[0] in ('ref', 'deref') and len(tr) == 2:
                            tr = tr[1]
                        strips.append((l, d['bb'], tr[3]))
            if len(strips) != 1:
                continue
            l, sb, rng = strips[0]
            if [show(panics.resolve_items(prog, 'breakpad_symbols', x)) for x in rng[2:]] != ['2']:
                why = 'the loop strips %s, not two bytes' % show(rng)
                continue

            def bytes_of(t):
                t = f.expand(t)
                while t[0] in ('ref', 'deref', 'copy') and len(t) == 2:
                    t = t[1]
                return is_call(t, 'core::str::as_bytes') and t[2][0] == 'var' and t[2][2] == l
            need = {'len': False, 'colon': False, 'alpha': False}
            for r, gd, sx in panics.dominating_facts(f, sb):
                if gd not in body:
                    continue
                if r[0] == 'le' and r[1] == ('int', 2) and r[2][0] in ('len', 'un') and bytes_of(r[2][-1]):
                    need['len'] = True
                if r[0] == 'switch' and r[2] == 58 and r[1][0] == 'index' and bytes_of(r[1][1]) and f.expand(r[1][2]) == ('int', 1):
                    need['colon'] = True
                if r[0] == 'eq' and r[2] == ('int', 58) and r[1][0] == 'index' and bytes_of(r[1][1]) and f.expand(r[1][2]) == ('int', 1):
                    need['colon'] = True
                if r[0] == 'true' and is_call(r[1], 'is_ascii_alphabetic'):
                    a = f.expand(r[1][2])
                    while a[0] in ('ref', 'deref', 'copy') and len(a) == 2:
                        a = a[1]
                    if a[0] == 'index' and bytes_of(a[1]) and f.expand(a[2]) == ('int', 0):
                        need['alpha'] = True
            if not any(need.values()):
                why = 'the strip is not guarded by any of len >= 2, byte 1 == `:`, byte 0 alphabetic'
                continue
            # every way out of the loop is the failure of one of these tests (a subset is a stricter sanitiser: leaving
            # the loop then still implies that the leaf has no `<letter>:` prefix)
            exits_ok = True
            for b in body:
                if b not in f.reach:
                    continue   # left over by the threading of a flag
                t = f.blocks[b]['t']
                outs = [x for x in f.succ[b] if x not in body]
                if not outs:
                    continue
                if t['k'] != 'switch':
                    exits_ok = False
                    continue
                cond = f.expand(f.operand_tree(t['x']))
                cs = show(cond)
                if not (('Ge (len' in cs and cs.endswith(' 2)')) or (cond[0] == 'index' and bytes_of(cond[1])) or is_call(cond, 'is_ascii_alphabetic')):
                    exits_ok = False
                    why = 'the loop is also left on %s' % cs[:80]
            if not exits_ok:
                continue
            # the accepted leaf is returned only after that loop
            if all(any(f.dominates(x, sbk) for x in body) for sbk in some_blocks) and some_blocks:
                drive_ok = True
        if not drive_ok:
            res.violation('C17.2', 'C17.2|drive', f, f.line, 'lookup_leafname can return a leaf that starts with a drive prefix such as `C:` (%s)' % why)
    g = need_fn(res, c, 'breakpad_symbols::leafname', 'C17.2')
    if g is not None:
        res.rule('C17.2', 1)
        seps = set()
        for b in sorted(g.reach):
            for s in g.blocks[b]['s']:
                if s['k'] == 'assign' and s['rv']['k'] == 'agg' and s['rv'].get('ak') == 'array':
                    for x in s['rv']['xs']:
                        t = g.operand_tree(x)
                        if t[0] == 'int':
                            seps.add(chr(t[1]))
        uses_rsplit = any(re.search(r'str::(rsplit|rsplit_terminator|rsplitn)$', g.callee(t)) for b, t in g.calls())
        if not ({'/', '\\'} <= seps and uses_rsplit):
            res.violation('C17.2', 'C17.2|leafname', g, g.line, 'leafname does not take the last component after both `/` and `\\` (separators seen: %s)' % sorted(seps))
        else:
            res.sample({'rule': 'C17.2', 'leafname_separators': sorted(seps)})


def consumers(res, prog, c):
    res.rule('C17.3', 0, floor=12, note='Path::join onto cache / symbol dirs takes only lookup results; request URLs are built only by server_url, one percent-encoded path segment at a time')

    def lookup_arg(g, arg):
        ok = ('.cache_rel' in arg or '.server_rel' in arg or 'code_info_breakpad_sym_lookup' in arg or 'lookup_path' == arg)
        if arg == 'lookup_path':
            # individual_lookup_debug_info_by_code_info: lookup_path parameter comes from code_info_breakpad_sym_lookup at its only call site
            ok = False
            for g2 in c.fns:
                for bb, tt in g2.calls():
                    if g2.callee(tt) == 'breakpad_symbols::http::individual_lookup_debug_info_by_code_info':
                        a = ' '.join(show(g2.expand(g2.operand_tree(x))) for x in tt['args'])
                        ok = 'code_info_breakpad_sym_lookup' in a or 'lookup_path' in a
        return ok
    nurl = 0
    for f in c.fns:
        for b, t in f.calls():
            n = f.callee(t)
            if n in ('std::path::Path::join', 'std::path::PathBuf::push'):
                res.rule('C17.3', 1)
                arg = show(f.expand(f.operand_tree(t['args'][1])))
                if not lookup_arg(f, arg):
                    res.violation('C17.3', 'C17.3|%s' % f.qual, f, t.get('line'), '%s joins %s, which is not a FileLookup path' % (n, arg[:160]))
                else:
                    res.sample({'rule': 'C17.3', 'fn': f.qual, 'joins': arg[-60:]}) if len(res.samples) < 30 else None
            elif re.search(r'(^|::)Url::(join|parse|set_path|set_host|set_scheme|from_file_path|from_directory_path|parse_with_params)$', n) and not (n.endswith('Url::parse') and f.qual.startswith('breakpad_symbols::http::HttpSymbolSupplier::new')):
                # a URL reference parsed from text: a dump-controlled name must never go through this
                res.rule('C17.3', 1)
                res.violation('C17.3', 'C17.3|url-syntax|%s' % f.qual, f, t.get('line'), '%s parses text as URL syntax outside the supplier constructor: a file name such as `http:host`, `%%2e%%2e` or `a?b` would be interpreted, not fetched' % n)
            elif n == 'breakpad_symbols::http::server_url':
                res.rule('C17.3', 1)
                nurl += 1
                arg = strip_views(f.expand(f.operand_tree(t['args'][1])))
                if not lookup_arg(f, show(arg)):
                    res.violation('C17.3', 'C17.3|server_url-arg|%s' % f.qual, f, t.get('line'), 'server_url is given %s, which is not a FileLookup path' % show(arg)[:160])
            elif n.endswith('reqwest::Client::get'):
                res.rule('C17.3', 1)
                u = f.expand(f.operand_tree(t['args'][1]))

                def from_server_url(tree, depth=0):
                    txt = show(tree)
                    if 'breakpad_symbols::http::server_url' in txt:
                        return True
                    tree = strip_views(tree)
                    if tree[0] == 'var' and isinstance(tree[2], int) and depth < 3:
                        ds = [d for d in f.defs.get(tree[2], []) if d['kind'] in ('assign', 'call')]
                        return bool(ds) and all(from_server_url(f.expand(f.rvalue_tree(d['rv']) if d['kind'] == 'assign' else f.call_tree(d['term'])), depth + 1) for d in ds)
                    return False
                if not from_server_url(u):
                    res.violation('C17.3', 'C17.3|get|%s' % f.qual, f, t.get('line'), 'the requested URL %s was not built by server_url' % show(u)[:160])
    if nurl < 3:
        res.error('C17.3', 'fewer than 3 server_url call sites (%d)' % nurl)
    # the builder itself
    f = need_fn(res, c, 'breakpad_symbols::http::server_url', 'C17.3')
    if f is not None:
        calls = {f.callee(t): (b, t) for b, t in f.calls()}
        res.rule('C17.3', 1)
        ext = calls.get('url::path_segments::PathSegmentsMut::extend')
        ok = False
        if ext:
            a = f.expand(f.operand_tree(ext[1]['args'][1]))
            ok = is_call(a, 'core::str::split') and a[2][0] == 'var' and a[2][2] == 2 and a[3] in (('int', 47), ('str', '/'))
            recv = show(f.expand(f.operand_tree(ext[1]['args'][0])))
            ok = ok and 'path_segments_mut' in (recv + ' '.join(show(f.expand(f.call_tree(t))) for b, t in f.calls()))
        if not ok:
            res.violation('C17.3', 'C17.3|segments', f, f.line, 'server_url does not append server_rel.split(\'/\') through path_segments_mut().extend(..) (each segment percent-encoded)')
        res.rule('C17.3', 1)
        bad = [n for n in calls if re.search(r'Url::(join|parse|set_path)$', n)]
        if bad:
            res.violation('C17.3', 'C17.3|builder-parses', f, f.line, 'server_url itself parses text as URL syntax: %s' % bad)
        # tabs / newlines (dropped by the URL parser wherever they stand) => None, before anything is built
        res.rule('C17.3', 1)
        ok = False
        for b, t in f.calls():
            if f.callee(t) == 'core::str::contains':
                a = f.expand(f.call_tree(t))
                chars = set(x[1] for x in a[3][1:] if isinstance(x, tuple) and x[0] == 'int') if a[3][0] == 'array' else set()
                if a[2][0] == 'var' and a[2][2] == 2 and {9, 10, 13} <= chars:
                    # the true edge returns None without building
                    for (rb, ri, tree) in ret_assigns(f):
                        if 'Option::None' in show(f.expand(tree)):
                            facts = [r for r, gd, sx in panics.dominating_facts(f, rb)]
                            if any(r[0] == 'true' and is_call(r[1], 'core::str::contains') for r in facts):
                                ok = True
        if not ok:
            res.violation('C17.3', 'C17.3|control-chars', f, f.line, 'server_url does not refuse names containing tab / newline / carriage return (the URL parser drops them, so `.<tab>.` would become `..`)')
        res.rule('C17.3', 1)
        somes = [tree for (rb, ri, tree) in ret_assigns(f) if 'Option::Some' in show(f.expand(tree))]
        if len(somes) != 1:
            res.violation('C17.3', 'C17.3|returns', f, f.line, 'server_url has %d Some(..) returns, expected exactly the built URL' % len(somes))


def run(tier, t0):
    res = harness.Result(PID)
    prog = program()
    c = prog.crate('breakpad_symbols')
    lookups(res, prog, c)
    sanitiser(res, prog, c)
    consumers(res, prog, c)
    res.assumptions += [
        'DebugId::breakpad() and CodeId text are hexadecimal by construction (debugid crate, trusted)',
        'a leaf produced by leafname() contains neither `/` nor `\\` (it is the last piece of an rsplit on both)',
    ]
    return harness.finish(res, tier, t0, distinct=3, explanation=(
        'Sanitiser coverage and adequacy as structural rules: every component that the four lookup functions join with "/" is lookup_leafname(..)? of the module\'s code/debug file, that leaf with a replaced extension, '
        'or an identifier text; lookup_leafname is leafname() with "", "." and ".." rejected (its three string tests are extracted from MIR) and leafname splits on both separator styles; the consumers join only FileLookup paths '
        'onto their roots. The defect this exposed (".." / empty leaves escaping the root) was repaired in /repo. Windows drive-prefix leaves are outside the decided part.'))
