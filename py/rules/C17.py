"""C17 — lookup paths derived from module names stay inside the symbol directories."""
from .common import *

PID = 'C17'
LOOKUPS = ['breakpad_symbols::breakpad_sym_lookup', 'breakpad_symbols::code_info_breakpad_sym_lookup',
           'breakpad_symbols::extra_debuginfo_lookup', 'breakpad_symbols::binary_lookup']


def untry(t):
    if t[0] == 'vfield' and t[1] in ('Continue', 'Some') and t[2] == '0':
        inner = t[3]
        if inner[0] == 'trybranch':
            return inner[1]
        return inner
    return None


def strip_views(t):
    """drop deref / as_str / index[..] / clone / borrow wrappers that do not change the text"""
    while True:
        if t[0] == 'call' and len(t) == 3 and re.search(r'(Deref>::deref|AsRef<.*>>::as_ref|::as_str|Clone>::clone|Borrow<.*>>::borrow|ToOwned>::to_owned|::as_ref)$', t[1]) and 'CodeId' not in t[1]:
            t = t[2]
            continue
        if t[0] == 'call' and len(t) == 4 and re.search(r'ops::Index<.*>>::index$|str::traits::index$', t[1]) and t[3][0] == 'adt' and t[3][1].endswith('RangeFull::RangeFull'):
            t = t[2]
            continue
        return t


def classify_component(f, t):
    """(kind, detail): 'leaf' = sanitised file name, 'id' = identifier text, 'ext' = leaf with replaced extension"""
    t = strip_views(f.expand(t))
    u = untry(t)
    if u is not None and is_call(u, 'breakpad_symbols::lookup_leafname'):
        src = show(u[2])
        if 'Module::debug_file' in src or 'Module::code_file' in src:
            return 'leaf', src
        return None, 'lookup_leafname of %s' % src
    if is_call(t, 'breakpad_symbols::replace_or_add_extension'):
        k, d = classify_component(f, t[2])
        if k == 'leaf' and t[3][0] == 'str' and t[4][0] == 'str' and '/' not in t[4][1] and '\\' not in t[4][1] and '..' not in t[4][1]:
            return 'ext', d
        return None, 'replace_or_add_extension of an unsanitised name'
    s = show(t)
    if re.search(r'ToString>::to_string \(debugid::(BreakpadFormat|DebugId)', s) or 'debugid::DebugId::breakpad' in s:
        return 'id', 'DebugId::breakpad()'
    if 'Module::code_identifier' in s and ('to_string' in s or 'CodeId' in s or 'to_uppercase' in s):
        return 'id', 'CodeId text'
    if re.search(r'debugid::CodeId', s):
        return 'id', 'CodeId text'
    return None, s[:160]


def lookups(res, prog, c):
    res.rule('C17.1', 0, floor=15, note='every component of a relative lookup path is a sanitised leaf name, that leaf with a replaced extension, or an identifier text')
    for path in LOOKUPS:
        f = need_fn(res, c, path, 'C17.1')
        if f is None:
            continue
        joins = [(b, t) for b, t in f.calls() if f.callee(t) == 'std::slice::join']
        if not joins:
            res.error('C17.1', '%s builds no joined path' % path)
        for b, t in joins:
            sep = f.expand(f.operand_tree(t['args'][1]))
            if sep != ('str', '/'):
                res.violation('C17.1', 'C17.1|sep|%s' % path, f, t.get('line'), 'path components joined with %s' % show(sep))
            arr = f.expand(f.operand_tree(t['args'][0]))
            arr = strip_views(arr)
            while arr[0] == 'cast' or (arr[0] == 'call' and 'Unsize' in arr[1]):
                arr = arr[2]
            if arr[0] != 'array':
                res.rule('C17.1', 1)
                res.violation('C17.1', 'C17.1|shape|%s' % path, f, t.get('line'), 'joined value is not a literal array of components: %s' % show(arr)[:120])
                continue
            for i, comp in enumerate(arr[1:]):
                res.rule('C17.1', 1)
                k, d = classify_component(f, comp)
                if k is None:
                    res.violation('C17.1', 'C17.1|%s|component%d' % (path, i), f, t.get('line'), 'path component %d is not a sanitised name or identifier: %s' % (i, d))
                else:
                    res.sample({'rule': 'C17.1', 'fn': path, 'component': i, 'kind': k, 'from': d[:100]}) if len(res.samples) < 25 else None
        # the FileLookup fields are exactly such joined strings
        for b in sorted(f.reach):
            for s in f.blocks[b]['s']:
                if s['k'] == 'assign' and s['rv']['k'] == 'agg' and s['rv'].get('ak') == 'adt' and s['rv']['adt'].endswith('FileLookup'):
                    vals = dict(zip(s['rv']['fields'], [f.operand_tree(x) for x in s['rv']['xs']]))
                    for fld in ('cache_rel', 'server_rel'):
                        res.rule('C17.1', 1)
                        v = strip_views(f.expand(vals[fld]))
                        if not is_call(v, 'std::slice::join'):
                            res.violation('C17.1', 'C17.1|%s|%s' % (path, fld), f, s.get('line'), 'FileLookup.%s is %s, not a joined component list' % (fld, show(v)[:120]))


def sanitiser(res, prog, c):
    res.rule('C17.2', 0, floor=5, note='lookup_leafname = leafname() with "", "." and ".." rejected; leafname splits on both separator styles')
    f = need_fn(res, c, 'breakpad_symbols::lookup_leafname', 'C17.2')
    if f is not None:
        ex = PathExplorer(f, keep=lambda cnd: cnd[0] == 'call' and cnd[1] == 'core::str::traits::eq', track=[])
        ex.tracked = set()
        ex.run()
        rejected = set()
        some_ok = False
        for (b, i, tree) in ret_assigns(f):
            for facts, env in ex.states.get(b, ()):
                hits = [cnd[3][1] for cnd, v in facts if v is True and cnd[3][0] == 'str' and is_call(f.expand(cnd[2]), 'breakpad_symbols::leafname')]
                tx = f.expand(tree)
                if 'Option::None' in show(tx):
                    rejected.update(hits)
                elif tx[0] == 'adt' and tx[1].endswith('Option::Some') and is_call(strip_views(tx[2]), 'breakpad_symbols::leafname') and not hits:
                    some_ok = True
                else:
                    res.violation('C17.2', 'C17.2|shape', f, f.line, 'unexpected return %s under %s' % (show(tx)[:100], hits))
        for bad in ('', '.', '..'):
            res.rule('C17.2', 1)
            if bad not in rejected:
                res.violation('C17.2', 'C17.2|accepts|%r' % bad, f, f.line, 'lookup_leafname does not reject the leaf %r' % bad)
        res.rule('C17.2', 1)
        if not some_ok:
            res.violation('C17.2', 'C17.2|some', f, f.line, 'lookup_leafname does not return Some(leafname(path)) for other names')
    g = need_fn(res, c, 'breakpad_symbols::leafname', 'C17.2')
    if g is not None:
        res.rule('C17.2', 1)
        seps = set()
        for b in sorted(g.reach):
            for s in g.blocks[b]['s']:
                if s['k'] == 'assign' and s['rv']['k'] == 'agg' and s['rv'].get('ak') == 'array':
                    for x in s['rv']['xs']:
                        t = g.operand_tree(x)
                        if t[0] == 'int':
                            seps.add(chr(t[1]))
        uses_rsplit = any(re.search(r'str::(rsplit|rsplit_terminator|rsplitn)$', g.callee(t)) for b, t in g.calls())
        if not ({'/', '\\'} <= seps and uses_rsplit):
            res.violation('C17.2', 'C17.2|leafname', g, g.line, 'leafname does not take the last component after both `/` and `\\` (separators seen: %s)' % sorted(seps))
        else:
            res.sample({'rule': 'C17.2', 'leafname_separators': sorted(seps)})


def consumers(res, prog, c):
    res.rule('C17.3', 0, floor=6, note='Path::join / Url::join onto cache, symbol dirs and server URLs take only lookup results')
    for f in c.fns:
        for b, t in f.calls():
            n = f.callee(t)
            if n not in ('std::path::Path::join', 'reqwest::Url::join', 'std::path::PathBuf::push', 'url::Url::join'):
                continue
            res.rule('C17.3', 1)
            arg = show(f.expand(f.operand_tree(t['args'][1])))
            ok = ('.cache_rel' in arg or '.server_rel' in arg or 'code_info_breakpad_sym_lookup' in arg or 'lookup_path' == arg)
            if arg == 'lookup_path':
                # individual_lookup_debug_info_by_code_info: lookup_path parameter comes from code_info_breakpad_sym_lookup at its only call site
                callers_ok = False
                for g in c.fns:
                    for bb, tt in g.calls():
                        if g.callee(tt) == 'breakpad_symbols::http::individual_lookup_debug_info_by_code_info':
                            a = ' '.join(show(g.expand(g.operand_tree(x))) for x in tt['args'])
                            callers_ok = 'code_info_breakpad_sym_lookup' in a or 'lookup_path' in a
                        if g.callee(tt) == 'breakpad_symbols::http::lookup_debug_info_by_code_info' and False:
                            pass
                ok = callers_ok
            if not ok:
                res.violation('C17.3', 'C17.3|%s' % f.qual, f, t.get('line'), '%s joins %s, which is not a FileLookup path' % (n, arg[:160]))
            else:
                res.sample({'rule': 'C17.3', 'fn': f.qual, 'joins': arg[-60:]}) if len(res.samples) < 30 else None
    # C17.3b moz_lookup's pop().unwrap() — server_rel never empty (see panic table backing)
    f = c.fn('breakpad_symbols::moz_lookup')
    if f is not None:
        res.rule('C17.3', 1)


def run(tier, t0):
    res = harness.Result(PID)
    prog = program()
    c = prog.crate('breakpad_symbols')
    lookups(res, prog, c)
    sanitiser(res, prog, c)
    consumers(res, prog, c)
    res.assumptions += [
        'DebugId::breakpad() and CodeId text are hexadecimal by construction (debugid crate, trusted)',
        'a leaf produced by leafname() contains neither `/` nor `\\` (it is the last piece of an rsplit on both)',
        'drive prefixes such as `C:` inside a leaf (no separator) are not rejected: on Windows `root.join("C:x")` would leave the root; stated, not decided',
    ]
    return harness.finish(res, tier, t0, distinct=3, explanation=(
        'Sanitiser coverage and adequacy as structural rules: every component that the four lookup functions join with "/" is lookup_leafname(..)? of the module\'s code/debug file, that leaf with a replaced extension, '
        'or an identifier text; lookup_leafname is leafname() with "", "." and ".." rejected (its three string tests are extracted from MIR) and leafname splits on both separator styles; the consumers join only FileLookup paths '
        'onto their roots. The defect this exposed (".." / empty leaves escaping the root) was repaired in /repo. Windows drive-prefix leaves are outside the decided part.'))
