"""C12 — a module's symbols are located once, however concurrent lookups interleave.

Lock discipline visible in the code: who may call the supplier, check-then-fill under
one guard, insert-only slot map keyed by the full module key, paired counters, no std
guard across an await, no way back into the slot from inside it."""
from .common import *
import panics

PID = 'C12'
SLOT_CLOSURE = 'breakpad_symbols::Symbolizer::get_symbols::{closure#0}::{closure#0}::{closure#0}'
GET = 'breakpad_symbols::CachedAsyncResult::<T, E>::get::{closure#0}'


def who_may_call(res, prog):
    res.rule('C12.1', 0, floor=3, note='SymbolSupplier::locate_symbols callers: the slot closure of Symbolizer::get_symbols, plus HttpSymbolSupplier -> local delegation')
    allowed = {
        SLOT_CLOSURE: 'the closure run under the per-module slot',
        '<http::HttpSymbolSupplier as SymbolSupplier>::locate_symbols::{closure#0}::{closure#0}': 'documented delegation to the local (disk) supplier',
    }
    seen_slot = False
    for cn in WORKSPACE_CRATES:
        if cn == 'minidump_synth':
            continue
        for f in prog.crate(cn).fns:
            for b, t in f.calls():
                d = f.callee_decl(t)
                n = f.callee(t)
                if not (d.endswith('SymbolSupplier::locate_symbols') or n.endswith('SymbolSupplier>::locate_symbols') or n == 'breakpad_symbols::SymbolSupplier::locate_symbols'):
                    continue
                res.rule('C12.1', 1)
                if f.path == SLOT_CLOSURE:
                    seen_slot = True
                if f.path not in allowed:
                    res.violation('C12.1', 'C12.1|%s' % f.qual, f, t.get('line'), 'locate_symbols called outside the per-module slot closure (%s)' % n)
                else:
                    res.sample({'rule': 'C12.1', 'caller': f.qual, 'callee': n, 'why': allowed[f.path]})
    if not seen_slot:
        res.error('C12.1', 'the slot closure %s no longer calls the supplier' % SLOT_CLOSURE)
    # the slot closure is what get_symbols hands to CachedAsyncResult::get
    c = prog.crate('breakpad_symbols')
    gs = need_fn(res, c, 'breakpad_symbols::Symbolizer::get_symbols::{closure#0}', 'C12.1')
    if gs is not None:
        ok = False
        for b, t in gs.calls():
            if gs.callee(t) == 'breakpad_symbols::CachedAsyncResult::get':
                res.rule('C12.1', 1)
                arg = show(gs.expand(gs.operand_tree(t['args'][1])))
                recv = show(gs.expand(gs.operand_tree(t['args'][0])))
                if 'get_symbols::{closure#0}::{closure#0}' in arg and 'cache_default' in recv and 'module_key' in recv and 'symbols' in recv:
                    ok = True
                else:
                    res.violation('C12.1', 'C12.1|get-arg', gs, t.get('line'), 'CachedAsyncResult::get in get_symbols is not `self.symbols.cache_default(module_key(module)).get(<slot closure>)`: %s / %s' % (recv[:160], arg[:120]))
        if not ok and not res.violations:
            res.error('C12.1', 'no CachedAsyncResult::get call found in get_symbols')


def check_then_fill(res, prog):
    c = prog.crate('breakpad_symbols')
    f = need_fn(res, c, GET, 'C12.2')
    res.rule('C12.2', 0, floor=5, note='CachedAsyncResult::get: lock; f() only on the is_none edge; store through the same guard; no unlock in between')
    if f is None:
        return
    locks = [(b, t) for b, t in f.calls() if f.callee(t) == 'futures_util::lock::Mutex::lock']
    res.rule('C12.2', 1)
    if len(locks) != 1:
        res.violation('C12.2', 'C12.2|locks', f, f.line, 'expected exactly one inner.lock(), found %d' % len(locks))
        return
    lock_b = locks[0][0]
    # the guard local: user variable named `guard`
    guard = [l for l in range(len(f.locals)) if f.local_name(l) == 'guard']
    res.rule('C12.2', 1)
    if len(guard) != 1 or 'MutexGuard' not in f.local_ty(guard[0]):
        res.violation('C12.2', 'C12.2|guard', f, f.line, 'no single `guard` local of type futures MutexGuard')
        return
    g = guard[0]
    gdefs = [d for d in f.defs.get(g, []) if d['kind'] in ('assign', 'call')]
    if len(gdefs) != 1:
        res.violation('C12.2', 'C12.2|guard-defs', f, f.line, 'guard is assigned %d times (re-lock?)' % len(gdefs))
        return
    gdef_b = gdefs[0]['bb']
    # calls of the user closure f: FnOnce::call_once on the captured `f`
    fcalls = [(b, t) for b, t in f.calls() if f.callee_decl(t).endswith('FnOnce::call_once') and show(f.operand_tree(t['args'][0])) in ('f', '_1.f') or (f.callee_decl(t).endswith('FnOnce::call_once') and 'f' == show(f.expand(f.operand_tree(t['args'][0]))))]
    res.rule('C12.2', 1)
    if len(fcalls) != 1:
        res.violation('C12.2', 'C12.2|f-calls', f, f.line, 'the fill closure is invoked %d times' % len(fcalls))
        return
    fb = fcalls[0][0]
    facts = panics.dominating_facts(f, fb)
    def empty_slot(r):
        """the slot is known to be None: `guard.is_none()`, or the None edge of a match / if-let on `guard.as_ref()` / `*guard`"""
        if r[0] == 'true' and is_call(r[1], 'is_none') and 'guard' in show(r[1]):
            return True
        if r[0] == 'false' and is_call(r[1], 'is_some') and 'guard' in show(r[1]):
            return True
        if r[0] == 'switch' and r[2] in (0, ('not', 1)) and isinstance(r[1], tuple) and r[1][0] == 'discr':
            sx = show(f.expand(r[1]))
            return 'guard' in sx and ('Option::as_ref' in sx or 'Deref>::deref' in sx or 'DerefMut>::deref_mut' in sx)
        return False
    ok_none = any(empty_slot(r) for r, gd, s in facts)
    res.rule('C12.2', 1)
    if not ok_none or not f.dominates(gdef_b, fb) or not f.dominates(lock_b, gdef_b):
        res.violation('C12.2', 'C12.2|order', f, fcalls[0][1].get('line'), 'f() is not dominated by (lock acquired) and (guard.is_none() == true)')
    # the is_none test itself happens with the guard held
    for r, gd, s in facts:
        if empty_slot(r):
            if not f.dominates(gdef_b, gd):
                res.violation('C12.2', 'C12.2|test-before-lock', f, f.blocks[gd]['t'].get('line'), 'is_none() is tested before the lock is taken')
    # store: `*guard = Some(Arc::new(..))` dominated by the f() call
    stores = []
    for b, t in f.calls():
        if f.callee(t).endswith('MutexGuard<\'_, T> as std::ops::DerefMut>::deref_mut') and 'guard' in show(f.operand_tree(t['args'][0])):
            stores.append(b)
    res.rule('C12.2', 1)
    if not stores or not all(f.dominates(fb, sb) for sb in stores):
        res.violation('C12.2', 'C12.2|store', f, f.line, 'the slot is not written through the guard after f() completed')
    # no drop of the guard that can reach the f() call, the store or the final read
    drops = [b for b in f.reach if f.blocks[b]['t']['k'] == 'drop' and f.blocks[b]['t']['p']['l'] == g and not f.blocks[b]['t']['p'].get('p')]
    reads = [b for b, t in f.calls() if f.callee(t).endswith('MutexGuard<\'_, T> as std::ops::Deref>::deref')]
    res.rule('C12.2', 1)
    for d in drops:
        fwd = f.reachable_from(f.succ[d]) if f.succ[d] else set()
        if fb in fwd or any(s in fwd for s in stores) or any(r in fwd for r in reads):
            res.violation('C12.2', 'C12.2|early-unlock', f, f.blocks[d]['t'].get('line'), 'the guard is dropped on a path that later fills or reads the slot')
    if not reads:
        res.violation('C12.2', 'C12.2|read', f, f.line, 'the result is not read through the guard')
    res.sample({'rule': 'C12.2', 'lock_bb': lock_b, 'fill_bb': fb, 'stores': stores, 'guard_drops': drops})


def slot_map(res, prog):
    c = prog.crate('breakpad_symbols')
    res.rule('C12.3', 0, floor=2, note='Symbolizer.symbols is only touched through cache_default(module_key(module)); module_key uses all four identity fields')
    for f in c.fns:
        for b in sorted(f.reach):
            blk = f.blocks[b]
            uses = []
            for s in blk['s']:
                if s['k'] == 'assign':
                    uses.append((s, f.rvalue_tree(s['rv'])))
            t = blk['t']
            for s, tree in uses:
                for x in walk(tree):
                    if isinstance(x, tuple) and x and x[0] == 'field' and x[2] == 'symbols' and show(x[1]) in ('self', '_1.self'):
                        if 'Symbolizer' not in f.path:
                            continue
                        res.rule('C12.3', 1)
                        # must flow into cache_default: the enclosing function calls cache_default with it
                        ok = any(f.callee(tt) == 'cachemap2::CacheMap::cache_default' and 'symbols' in show(f.expand(f.operand_tree(tt['args'][0]))) for bb, tt in f.calls())
                        if not ok and not f.path.endswith('Symbolizer::new'):
                            res.violation('C12.3', 'C12.3|%s' % f.qual, f, s.get('line'), 'Symbolizer.symbols accessed other than through cache_default')
    mk = need_fn(res, c, 'breakpad_symbols::module_key', 'C12.3')
    if mk is not None:
        res.rule('C12.3', 1)
        called = set()
        for b, t in mk.calls():
            m = re.search(r'Module::(code_file|code_identifier|debug_file|debug_identifier)$', mk.callee_decl(t))
            if m:
                called.add(m.group(1))
        if called != {'code_file', 'code_identifier', 'debug_file', 'debug_identifier'}:
            res.violation('C12.3', 'C12.3|module_key', mk, mk.line, 'module_key uses %s, not all four identity fields' % sorted(called))
        else:
            res.sample({'rule': 'C12.3', 'module_key_fields': sorted(called)})


def counters(res, prog):
    c = prog.crate('breakpad_symbols')
    f = need_fn(res, c, SLOT_CLOSURE, 'C12.4')
    res.rule('C12.4', 0, floor=2, note='symbols_requested += 1 dominates the supplier call; symbols_processed += 1 post-dominates it')
    if f is None:
        return
    sup = [b for b, t in f.calls() if f.callee(t) == 'breakpad_symbols::SymbolSupplier::locate_symbols' or f.callee_decl(t).endswith('SymbolSupplier::locate_symbols')]
    if len(sup) != 1:
        res.error('C12.4', 'expected one supplier call in the slot closure, found %d' % len(sup))
        return
    sb = sup[0]
    incs = {}
    for fld in ('symbols_requested', 'symbols_processed'):
        for (b, i, place, rv) in part_assigns(f, fld):
            rvx = f.expand(rv)
            # a read-modify-write of the field itself under one guard: `guard.fld = guard.fld + 1` in one statement.
            # A value computed earlier (`let n = guard.fld + 1; .await; guard.fld = n`) is a lost update when two
            # lookups overlap, however it is spelled
            if rv[0] == 'bin' and rv[1] == 'Add' and rv[3] == ('int', 1) and show(rv[2]) == show(place):
                incs.setdefault(fld, []).append(b)
            else:
                res.violation('C12.4', 'C12.4|%s|shape' % fld, f, f.blocks[b]['s'][i].get('line'), '%s assigned %s (expected += 1)' % (fld, show(rvx)))
    for fld in ('symbols_requested', 'symbols_processed'):
        res.rule('C12.4', 1)
        bs = incs.get(fld, [])
        if len(bs) != 1:
            res.violation('C12.4', 'C12.4|%s|count' % fld, f, f.line, '%s is incremented %d times in the slot closure' % (fld, len(bs)))
            continue
        b = bs[0]
        if fld == 'symbols_requested' and not f.dominates(b, sb):
            res.violation('C12.4', 'C12.4|requested-order', f, f.line, 'symbols_requested += 1 does not dominate the supplier call')
        if fld == 'symbols_processed' and not (f.dominates(sb, b) and f.postdominates(b, sb)):
            res.violation('C12.4', 'C12.4|processed-order', f, f.line, 'symbols_processed += 1 is not on every path after the supplier call')


def guards_across_await(res, prog):
    res.rule('C12.5', 0, floor=3, note='no std::sync::MutexGuard / RefCell borrow is live at a yield point')
    for cn in ('breakpad_symbols', 'minidump_processor', 'minidump_unwind', 'minidump_stackwalk'):
        for f in prog.crate(cn).fns:
            if f.kind != 'coroutine':
                continue
            yields = [b for b in f.reach if f.blocks[b]['t']['k'] == 'yield']
            if not yields:
                continue
            for l, loc in enumerate(f.locals):
                ty = loc['ty']
                if not (ty.startswith('std::sync::MutexGuard') or ty.startswith('std::sync::RwLock') and 'Guard' in ty or ty.startswith('std::cell::Ref')):
                    continue
                res.rule('C12.5', 1)
                defs = [d['bb'] for d in f.defs.get(l, []) if d['kind'] in ('assign', 'call')]
                kills = set()
                for b in f.reach:
                    t = f.blocks[b]['t']
                    if t['k'] == 'drop' and t['p']['l'] == l and not t['p'].get('p'):
                        kills.add(b)
                    for s in f.blocks[b]['s']:
                        if s['k'] == 'dead' and s['l'] == l:
                            kills.add(b)
                for d in defs:
                    live = f.reachable_from(f.succ[d], avoid=kills) if f.succ[d] else set()
                    bad = [y for y in yields if y in live]
                    if bad:
                        res.violation('C12.5', 'C12.5|%s|%s' % (f.qual, ty[:60]), f, f.blocks[bad[0]]['t'].get('line'), 'a %s is live across an .await' % ty[:80])
                if defs:
                    res.sample({'rule': 'C12.5', 'fn': f.qual, 'guard_ty': ty[:60], 'yields_in_fn': len(yields)}) if len([x for x in res.samples if x.get('rule') == 'C12.5']) < 3 else None


def no_reentry(res, prog):
    """C12.6: nothing reachable from the slot closure re-enters Symbolizer::get_symbols; nothing reachable from
    the file-slot closure re-enters locate_file_internal or get_symbols"""
    res.rule('C12.6', 0, floor=2, note='acyclic lock order: slot closures never reach their own slot again')
    fns = {}
    for cn in ('breakpad_symbols', 'minidump_unwind', 'minidump_processor'):
        for f in prog.crate(cn).fns:
            fns[f.path] = f
    impls = {}  # trait method decl -> resolved impl fns in the workspace
    for f in fns.values():
        m = re.match(r'^<(.+) as (.+)>::(\w+)$', f.path)
        if m:
            impls.setdefault(m.group(3), []).append(f.path)

    def succs(f):
        out = set()
        for b, t in f.calls():
            n = t.get('fn')
            if n is None:
                continue
            n0 = strip_generics(n)
            for cand in (n, n0):
                if cand in fns:
                    out.add(cand)
            if not t.get('res'):
                meth = n0.split('::')[-1]
                for p in impls.get(meth, []):
                    out.add(p)
        for b in f.reach:
            for s in f.blocks[b]['s']:
                if s['k'] == 'assign' and s['rv']['k'] == 'agg' and s['rv'].get('ak') in ('closure', 'coroutine', 'coroutine_closure'):
                    if s['rv']['def'] in fns:
                        out.add(s['rv']['def'])
        # an async fn's body
        body = f.path + '::{closure#0}'
        if body in fns:
            out.add(body)
        return out

    def reach(start):
        seen = set()
        st = [start]
        while st:
            x = st.pop()
            if x in seen or x not in fns:
                continue
            seen.add(x)
            st.extend(succs(fns[x]))
        return seen
    for start, forbidden in ((SLOT_CLOSURE, ['breakpad_symbols::Symbolizer::get_symbols']),
                             ('breakpad_symbols::http::HttpSymbolSupplier::locate_file_internal::{closure#0}::{closure#0}::{closure#0}', ['breakpad_symbols::Symbolizer::get_symbols', 'breakpad_symbols::http::HttpSymbolSupplier::locate_file_internal'])):
        if start not in fns:
            res.error('C12.6', 'slot closure %s not found' % start)
            continue
        res.rule('C12.6', 1)
        r = reach(start)
        bad = [x for x in forbidden if x in r]
        if bad:
            res.violation('C12.6', 'C12.6|%s' % start, fns[start], fns[start].line, 'slot closure can re-enter %s while holding its slot (self-deadlock)' % bad)
        else:
            res.sample({'rule': 'C12.6', 'from': start, 'reachable_workspace_fns': len(r)})


def outcome_from_slot(res, prog):
    """C12.7: what a requester observes for a module comes out of that module's slot and of nothing else.  In
    Symbolizer::fill_symbol / walk_frame the call of get_symbols(module) dominates every return (no shortcut answers
    the request before the slot is consulted), and the finished-lookup statistics - keyed by leaf name, i.e. coarser
    than the slot key - are written only while a slot is being filled and read only by the stats() getter."""
    c = prog.crate('breakpad_symbols')
    res.rule('C12.7', 0, floor=5, note='get_symbols dominates every return of fill_symbol / walk_frame; Symbolizer.stats is touched only by the slot fill and the stats() getter')
    for name in ('fill_symbol', 'walk_frame'):
        f = need_fn(res, c, 'breakpad_symbols::Symbolizer::%s::{closure#0}' % name, 'C12.7')
        if f is None:
            continue
        gs = [b for b, t in f.calls() if (f.callee(t) or '').endswith('Symbolizer::get_symbols')]
        res.rule('C12.7', 1)
        if len(gs) != 1:
            res.violation('C12.7', 'C12.7|%s|calls' % name, f, f.line, '%s consults the symbol slot %d times' % (name, len(gs)))
            continue
        for (b, i, tr) in ret_assigns(f):
            res.rule('C12.7', 1)
            if not f.dominates(gs[0], b):
                res.violation('C12.7', 'C12.7|%s|shortcut' % name, f, f.blocks[b]['t'].get('line') or f.line, '%s can answer a request without consulting the module\'s slot (a return that get_symbols(module) does not dominate): requesters of one module may then see different outcomes' % name)
    for f in c.fns:
        if f.mac and f.mac.startswith('derive('):
            continue
        for b, t in f.calls():
            if (f.callee(t) or '') in ('std::sync::Mutex::lock', 'std::sync::Mutex::try_lock', 'std::sync::Mutex::get_mut', 'std::sync::Mutex::into_inner'):
                a = show(f.expand(f.operand_tree(t['args'][0])))
                if re.search(r'\bself\.stats\b', a) and 'Symbolizer' in f.qual:
                    res.rule('C12.7', 1)
                    if not (f.qual == 'breakpad_symbols::Symbolizer::stats' or f.qual.startswith(SLOT_CLOSURE)):
                        res.violation('C12.7', 'C12.7|stats-access|%s' % f.qual, f, t.get('line'), 'the finished-lookup statistics (keyed by leaf name, coarser than the slot key) are consulted in %s: an answer derived from them can belong to another module' % f.qual.split('::')[-1])


def walks_driven_together(res, prog):
    """C12.8: the per-thread walks share one symbolizer, so a walk may be suspended while it holds a module's slot lock.
    That is only deadlock-free when every walk keeps being polled until all are done: the walk futures go straight into
    one join_all that is awaited on the spot, and into_process_state polls nothing else in between (no priming poll,
    no walk awaited on its own while the others are parked)."""
    c = prog.crate('minidump_processor')
    res.rule('C12.8', 0, floor=3, note='all per-thread walks are driven by a single join_all(..).await; no partial polling')
    fs = [f for f in c.fns if re.search(r"MinidumpInfo::<'a>::into_process_state::\{closure#0\}$", f.qual)]
    if len(fs) != 1:
        res.error('C12.8', 'into_process_state body not found')
        return
    f = fs[0]
    joins = [(b, t) for b, t in f.calls() if (f.callee(t) or '') == 'futures_util::future::join_all']
    res.rule('C12.8', 1)
    if len(joins) != 1:
        res.violation('C12.8', 'C12.8|join_all', f, f.line, 'the per-thread walks are joined %d times' % len(joins))
        return
    jb, jt = joins[0]
    arg = show(f.expand(f.operand_tree(jt['args'][0])))
    res.rule('C12.8', 1)
    if not re.match(r'^\(std::iter::Iterator::map \(std::iter::Iterator::enumerate \(std::iter::Iterator::zip \(core::slice::iter_mut .*state\.threads\)+ \(core::slice::iter .*self\.thread_list\.threads\)+\)\) \(closure ', arg):
        res.violation('C12.8', 'C12.8|all-walks', f, jt.get('line'), 'join_all is not handed the walk of every thread (map(enumerate(zip(state.threads.iter_mut(), thread_list.threads.iter())), ..)): %s' % arg[:200])
    polls = [(b, t) for b, t in f.calls() if re.search(r'Future>::poll$|Future::poll$', (f.callee(t) or '')) or re.search(r'Future::poll$', f.callee_decl(t) or '')]
    for b, t in polls:
        res.rule('C12.8', 1)
        n = f.callee(t) or ''
        if 'futures_util::future::JoinAll' not in n or t.get('ds') != 'Await':
            res.violation('C12.8', 'C12.8|poll|%s' % n.split(' as ')[0][:60], f, t.get('line'), 'into_process_state polls %s: something other than `join_all(all walks).await` is driving futures here' % n[:100])
    for g in c.fns:
        if not (g is f or g.qual.startswith(f.qual + '::{')):
            continue
        for b, t in g.calls():
            n = g.callee(t) or ''
            if re.search(r'futures_util::future::(maybe_done|poll_fn|select|select_all|select_ok|try_join_all|FutureExt::now_or_never|poll_immediate)|futures_util::stream::FuturesUnordered|futures_util::stream::FuturesOrdered|tokio::(spawn|task::spawn)|std::future::poll_fn', n):
                res.rule('C12.8', 1)
                res.violation('C12.8', 'C12.8|combinator|%s' % n.split('::')[-1], g, t.get('line'), '%s: a walk that is not polled to completion together with the others can park while holding a slot lock another walk needs' % n)


def run(tier, t0):
    res = harness.Result(PID)
    prog = program()
    who_may_call(res, prog)
    check_then_fill(res, prog)
    slot_map(res, prog)
    counters(res, prog)
    guards_across_await(res, prog)
    no_reentry(res, prog)
    outcome_from_slot(res, prog)
    walks_driven_together(res, prog)
    res.assumptions += [
        'futures_util::lock::Mutex is a fair async mutex: a task waiting for the lock is woken when the guard is dropped (trusted)',
        'cachemap2::CacheMap::cache_default returns the same slot for equal keys and never removes entries (trusted; insert-only API)',
        'cancellation (dropping a get() future mid-flight) is excluded by the property',
        'dyn calls are over-approximated by every workspace impl of the method name',
    ]
    return harness.finish(res, tier, t0, distinct=6, explanation=(
        'Lock-discipline rules over MIR: who may call SymbolSupplier::locate_symbols (resolved and dyn callees), the check-then-fill protocol of '
        'CachedAsyncResult::get (single lock, fill only on the is_none edge with the guard held, no early unlock), slot map access and key, paired '
        'pending counters by dominance / post-dominance, no std guard live across an await, and no re-entry into a slot from inside it. These decide '
        'the at-most-once / same-outcome / no-self-deadlock clauses for every schedule because they hold on every path; executor fairness is trusted.'))
