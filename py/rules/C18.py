"""C18 — register access by name is consistent for every CPU context.

The nine hand-written string-match tables (get / set / memoize / is_valid) and the
MinidumpContext dispatchers are finite: they are extracted from MIR (the chain of
`str == "literal"` tests is explored path-sensitively, so or-patterns and default
arms are seen exactly) and every obligation is checked exhaustively."""
from .common import *
import panics

PID = 'C18'
CTX_RE = re.compile(r'^<minidump_common::format::(CONTEXT_\w+) as context::CpuContext>::(\w+)$')
VARIANT_TYPE = {'X86': 'CONTEXT_X86', 'Ppc': 'CONTEXT_PPC', 'Ppc64': 'CONTEXT_PPC64', 'Amd64': 'CONTEXT_AMD64', 'Sparc': 'CONTEXT_SPARC',
                'Arm': 'CONTEXT_ARM', 'Arm64': 'CONTEXT_ARM64', 'OldArm64': 'CONTEXT_ARM64_OLD', 'Mips': 'CONTEXT_MIPS'}


def streq(cond):
    return cond[0] == 'call' and cond[1] == 'core::str::traits::eq' and len(cond) == 4 and cond[3][0] == 'str'


def contains_call(cond):
    return cond[0] == 'call' and cond[1].endswith('HashSet::contains')


class Tables:
    def __init__(self, prog):
        self.prog = prog
        self.crate = prog.crate('minidump')

    def explore(self, fn, keep):
        ex = PathExplorer(fn, keep=keep, track=[])
        ex.tracked = set()
        ex.run()
        return ex

    def names_of(self, facts):
        ns = [c[3][1] for c, v in facts if v is True and streq(c)]
        return ns

    def norm(self, fn, tree):
        """normalise a place tree: fold enum-discriminant index arithmetic, drop widening casts"""
        t = panics.resolve_items(self.prog, 'minidump', fn.expand(tree))
        return self._fold(t)

    def _fold(self, t):
        if not isinstance(t, tuple) or not t:
            return t
        if t[0] in ('int', 'str', 'var', 'arg', 'item', 'const', 'fnref', 'float'):
            return t
        t = tuple([t[0]] + [self._fold(x) if isinstance(x, tuple) else x for x in t[1:]])
        if t[0] == 'cast' and t[2][0] == 'int':
            return t[2]
        if t[0] == 'bin' and t[1] in ('Add', 'Sub', 'Mul') and t[2][0] == 'int' and t[3][0] == 'int':
            a, b = t[2][1], t[3][1]
            return ('int', a + b if t[1] == 'Add' else a - b if t[1] == 'Sub' else a * b)
        return t

    def get_table(self, fn):
        """name -> place tree for a `match reg { "n" => place, .. }` getter; '<default>' -> kind"""
        ex = self.explore(fn, streq)
        out = {}
        default = []
        for (b, i, tree) in ret_assigns(fn):
            for facts, env in ex.states.get(b, ()):
                ns = self.names_of(facts)
                if len(ns) == 1:
                    out.setdefault(ns[0], set()).add(self.norm(fn, tree))
                elif not ns:
                    default.append(self.norm(fn, tree))
        # default arm that diverges (unreachable!/panic) does not assign _0
        return out, default

    def set_table(self, fn):
        """name -> place assigned `val`"""
        ex = self.explore(fn, streq)
        out = {}
        other = []
        for b in sorted(fn.reach):
            for i, s in enumerate(fn.blocks[b]['s']):
                if s['k'] != 'assign' or not s['lhs'].get('p'):
                    continue
                base = s['lhs']['l']
                if fn.local_name(base) != 'self' and base != 1:
                    continue
                place = self.norm(fn, fn.place_tree(s['lhs']))
                rv = fn.expand(fn.rvalue_tree(s['rv']))
                for facts, env in ex.states.get(b, ()):
                    ns = self.names_of(facts)
                    if len(ns) == 1:
                        out.setdefault(ns[0], set()).add((place, rv))
                    else:
                        other.append((place, rv))
        # default arm: must return None
        dflt = []
        for (b, i, tree) in ret_assigns(fn):
            for facts, env in ex.states.get(b, ()):
                if not self.names_of(facts):
                    dflt.append(fn.expand(tree))
        return out, other, dflt

    def valid_table(self, fn):
        """name -> set of strings looked up in the validity set (for validity Some(which))"""
        ex = self.explore(fn, lambda c: streq(c) or contains_call(c) or (c[0] == 'discr'))
        out = {}
        dflt = set()

        def lookups(facts, tree):
            ss = set()
            for c, v in list(facts) + [(tree, None)]:
                for t in walk(c):
                    if isinstance(t, tuple) and contains_call(t) and len(t) == 4:
                        a = fn.expand(t[3])
                        ss.add(a[1] if a[0] == 'str' else '<' + show(a) + '>')
            return ss
        for (b, i, tree) in ret_assigns(fn):
            for facts, env in ex.states.get(b, ()):
                tr = fn.expand(tree)
                look = lookups(facts, tr)
                if not look:
                    continue  # the validity-All branch (memoize(..).is_some())
                ns = self.names_of(facts)
                if len(ns) == 1:
                    out.setdefault(ns[0], set()).update(look)
                elif not ns:
                    dflt.update(look)
        return out, dflt


def place_key(t):
    """place path without its root variable (self / ctx)"""
    if t[0] == 'field':
        return place_key(t[1]) + '.' + t[2]
    if t[0] == 'index':
        return place_key(t[1]) + '[' + show(t[2]) + ']'
    if t[0] in ('var', 'arg'):
        return ''
    if t[0] == 'vfield' and t[2] == '0' and 'raw' in show(t[3]):
        return ''   # the payload of MinidumpRawContext::V(ctx)
    if t[0] == 'cast':
        return place_key(t[2])
    if t[0] == 'call' and re.search(r'(From|Into)<.*>>::(from|into)$', t[1]) and len(t) == 3:
        return place_key(t[2])
    return '?' + show(t)


def is_pure_place(t):
    if t[0] in ('var', 'arg'):
        return True
    if t[0] == 'field':
        return is_pure_place(t[1])
    if t[0] == 'index':
        return is_pure_place(t[1]) and t[2][0] == 'int'
    return False


def check_context(res, T, ctx, fns, O):
    prog = T.prog
    c = T.crate

    def ob(ok, key, fn, msg):
        O['n'] += 1
        if ok:
            O['ok'] += 1
        else:
            res.violation('C18', 'C18|%s|%s' % (ctx, key), fn, fn.line if fn else None, msg)

    g = fns.get('get_register_always')
    s = fns.get('set_register')
    if g is None or s is None:
        res.error('C18', '%s: get_register_always / set_register not found' % ctx)
        return None
    regs = const_str_list(prog, 'minidump', '<minidump_common::format::%s as context::CpuContext>::REGISTERS' % ctx)
    if not regs:
        res.error('C18', '%s: REGISTERS list not found' % ctx)
        return None
    gt, gdef = T.get_table(g)
    st, sother, sdef = T.set_table(s)
    # 1. names(get) = names(set) ⊇ REGISTERS
    ob(set(gt) == set(st), 'names', g, 'get_register_always knows %s, set_register knows %s' % (sorted(set(gt) - set(st)), sorted(set(st) - set(gt))))
    ob(len(set(regs)) == len(regs), 'dupes', g, 'REGISTERS has duplicates')
    for r in regs:
        ob(r in gt, 'reg-get|' + r, g, 'REGISTERS lists `%s` but get_register_always has no arm for it' % r)
    aliases = sorted(set(gt) - set(regs))
    # 2. same place, pure bodies
    places = {}
    for n in sorted(gt):
        gv = gt[n]
        ob(len(gv) == 1, 'get-ambiguous|' + n, g, '`%s` maps to several values: %s' % (n, [show(x) for x in gv]))
        gp = next(iter(gv))
        ob(is_pure_place(gp), 'get-pure|' + n, g, 'arm `%s` of get_register_always is not a plain field read: %s' % (n, show(gp)))
        places[n] = place_key(gp)
        if n in st:
            sv = st[n]
            ob(len(sv) == 1, 'set-ambiguous|' + n, s, '`%s` assigns several places: %s' % (n, [show(x[0]) for x in sv]))
            sp, rv = next(iter(sv))
            ob(place_key(sp) == place_key(gp), 'same-place|' + n, s, 'get reads %s for `%s` but set writes %s' % (show(gp), n, show(sp)))
            ob(rv[0] == 'var' and rv[1] == 'val', 'set-pure|' + n, s, 'arm `%s` of set_register stores %s, not `val`' % (n, show(rv)))
    ob(not sother, 'set-default-writes', s, 'set_register writes a field outside a named arm: %s' % [show(x[0]) for x in sother][:3])
    ob(all('Option::None' in show(d) for d in sdef) and bool(sdef), 'set-default', s, 'default arm of set_register does not return None: %s' % [show(d) for d in sdef][:2])
    ob(not gdef, 'get-default', g, 'default arm of get_register_always returns a value (%s) instead of being unreachable' % [show(d) for d in gdef][:2])
    # 3. canonical names map to distinct places; aliases through memoize
    seen = {}
    for r in regs:
        if r in places:
            ob(places[r] not in seen, 'distinct|' + r, g, '`%s` and `%s` read the same place %s' % (r, seen.get(places[r]), places[r]))
            seen[places[r]] = r
    m = fns.get('memoize_register')
    memo = {}
    if m is not None:
        mt, mdef = T.get_table(m)
        for n, vs in mt.items():
            v = next(iter(vs))
            ok = v[0] == 'adt' and v[1].endswith('Option::Some') and len(v) == 3 and v[2][0] == 'str'
            ob(ok and len(vs) == 1, 'memo-shape|' + n, m, 'memoize_register arm `%s` returns %s' % (n, [show(x) for x in vs]))
            if ok:
                memo[n] = v[2][1]
        ok = len(mdef) >= 1 and all(is_call(d, 'default_memoize_register') for d in mdef)
        ob(ok, 'memo-default', m, 'memoize_register does not fall through to default_memoize_register(REGISTERS, reg)')
    ob(set(memo) == set(aliases), 'alias-set', m or g, 'get/set accept the aliases %s but memoize_register maps %s' % (aliases, sorted(memo)))
    for a in aliases:
        cn = memo.get(a)
        if cn is None:
            continue
        ob(cn in regs, 'alias-canon|' + a, m, 'alias `%s` memoizes to `%s`, which is not in REGISTERS' % (a, cn))
        ob(places.get(a) == places.get(cn), 'alias-place|' + a, g, 'alias `%s` reads %s but its canonical name `%s` reads %s' % (a, places.get(a), cn, places.get(cn)))
    # 4. register_is_valid honours aliases
    v = fns.get('register_is_valid')
    if v is not None:
        vt, vdef = T.valid_table(v)
        ob(vdef == {'<reg>'}, 'valid-default', v, 'default arm of register_is_valid looks up %s instead of `reg`' % sorted(vdef))
        for a in aliases:
            cn = memo.get(a)
            for n in (a, cn):
                if n is None:
                    continue
                look = vt.get(n)
                ob(look is not None and cn in look and (a in look or '<reg>' in look), 'valid-alias|%s' % n, v,
                   'register_is_valid("%s", Some(set)) looks up %s; it must accept the canonical spelling `%s` and the alias `%s`' % (n, sorted(look) if look else 'only the default', cn, a))
        for n in vt:
            ob(n in aliases or n in memo.values(), 'valid-extra|' + n, v, 'register_is_valid special-cases `%s`, which is not an alias pair' % n)
    else:
        ob(not aliases, 'valid-missing', g, 'aliases %s exist but register_is_valid is the default (exact spelling only)' % aliases)
    # 5. sp / ip names
    out = {'regs': regs, 'places': places, 'aliases': dict(memo)}
    for which in ('stack_pointer_register_name', 'instruction_pointer_register_name'):
        f = fns.get(which)
        if f is None:
            res.error('C18', '%s: %s not found' % (ctx, which))
            continue
        vals = [t for (b, i, t) in ret_assigns(f)]
        ok = len(vals) == 1 and vals[0][0] == 'str'
        ob(ok, which, f, '%s does not return one literal' % which)
        if ok:
            nm = vals[0][1]
            ob(nm in regs or nm in memo, which + '-known', f, '%s returns `%s`, not a register of this context' % (which, nm))
            out[which] = nm
    res.sample({'rule': 'C18', 'context': ctx, 'registers': len(regs), 'aliases': memo, 'sp': out.get('stack_pointer_register_name'), 'ip': out.get('instruction_pointer_register_name')})
    return out


def check_dispatch(res, T, per_ctx, O):
    c = T.crate
    prog = T.prog
    raw = c.adts.get('minidump::context::MinidumpRawContext')
    if raw is None:
        res.error('C18', 'enum MinidumpRawContext not found')
        return
    variants = {}
    for i, v in enumerate(raw['variants']):
        variants[v.get('discr', i)] = v['name']
        ty = v['fields'][0][1] if v['fields'] else ''
        O['n'] += 1
        if ty.endswith('::' + VARIANT_TYPE.get(v['name'], '?')):
            O['ok'] += 1
        else:
            res.violation('C18', 'C18|variant|' + v['name'], None, None, 'MinidumpRawContext::%s carries %s' % (v['name'], ty), file='minidump/src/context.rs')

    def ob(ok, key, fn, msg):
        O['n'] += 1
        if ok:
            O['ok'] += 1
        else:
            res.violation('C18', 'C18|dispatch|%s' % key, fn, fn.line if fn else None, msg)

    def arms(fn):
        """variant name -> list of (kind, tree) events under that arm"""
        ex = PathExplorer(fn, keep=lambda cnd: cnd[0] == 'discr' and 'raw' in show(cnd), track=[])
        ex.tracked = set()
        ex.run()
        out = {}
        for b in sorted(fn.reach):
            t = fn.blocks[b]['t']
            evs = []
            if t['k'] == 'call':
                evs.append(('call', t, fn.call_tree(t)))
                if t['dest']['l'] == 0 and not t['dest'].get('p'):
                    evs.append(('ret', t, fn.call_tree(t)))   # a value returned straight out of a call
            for i, s in enumerate(fn.blocks[b]['s']):
                if s['k'] == 'assign' and s['lhs']['l'] == 0 and not s['lhs'].get('p'):
                    evs.append(('ret', s, fn.rvalue_tree(s['rv'])))
            if not evs:
                continue
            for facts, env in ex.states.get(b, ()):
                vs = [v for cnd, v in facts if isinstance(v, int) and not isinstance(v, bool)]
                if len(vs) == 1:
                    out.setdefault(variants.get(vs[0], '?%s' % vs[0]), []).extend(evs)
        return out

    # the enumeration of valid registers: registers() filtered by the per-CPU register_is_valid (which maps aliases in
    # the validity set), either dispatched in the filter closure or through MinidumpContext::register_is_valid
    VR = 'minidump::context::MinidumpContext::valid_registers'
    fv, fc = c.fn(VR), c.fn(VR + '::{closure#0}')
    via_dispatcher = False
    if fv is None:
        res.error('C18', '%s not found' % VR)
    else:
        cs = [fv.callee(t) for b, t in fv.calls()]
        ob('minidump::context::MinidumpContext::registers' in cs and any(x.endswith('Iterator::filter') for x in cs) and fc is not None, VR + '|shape', fv,
           'MinidumpContext::valid_registers is not registers() filtered by a validity test (calls: %s)' % cs)
        if fc is not None:
            cc = [fc.callee(t) for b, t in fc.calls()]
            via_dispatcher = cc == ['minidump::context::MinidumpContext::register_is_valid']
            ob(via_dispatcher or any(x.endswith('CpuContext::register_is_valid') or x.endswith('CpuContext>::register_is_valid') for x in cc), VR + '|test', fc,
               'the filter of MinidumpContext::valid_registers does not ask the per-CPU register_is_valid (calls: %s): names in the validity set may be aliases, so a raw set lookup loses registers that get_register reports' % cc)
            ob(not any(re.search(r'hash_set|HashSet', x or '') for x in cc), VR + '|raw-set', fc, 'the filter of MinidumpContext::valid_registers looks names up in the validity set itself')
    for meth in ('get_register_always', 'register_is_valid', 'format_register'):
        for disp in ('minidump::context::MinidumpContext::' + meth, 'minidump::context::MinidumpContext::get_register') + ((VR + '::{closure#0}',) if meth == 'register_is_valid' and not via_dispatcher else ()):
            f = c.fn(disp)
            if f is None:
                continue
            a = arms(f)
            calls = {}
            for vn, evs in a.items():
                for k, t, tree in evs:
                    if k == 'call':
                        m = re.match(r'^<minidump_common::format::(CONTEXT_\w+) as context::CpuContext>::(\w+)$', f.callee(t))
                        if m:
                            calls.setdefault(vn, set()).add((m.group(1), m.group(2)))
                        else:
                            m = re.match(r'^minidump::context::CpuContext::(\w+)$', f.callee(t))
                            ta = (t.get('targs') or [''])[0]
                            if m and ta.startswith('minidump_common::format::CONTEXT_'):
                                calls.setdefault(vn, set()).add((ta.split('::')[-1], m.group(1)))
            if not calls:
                continue
            ob(set(calls) == set(VARIANT_TYPE), disp + '|arms', f, '%s dispatches for %s, expected all nine variants' % (disp, sorted(calls)))
            for vn, cs in calls.items():
                for (ty, m2) in cs:
                    ob(ty == VARIANT_TYPE.get(vn), '%s|%s' % (disp, vn), f, 'arm %s of %s calls the %s implementation' % (vn, disp, ty))
    # general_purpose_registers returns the variant's own REGISTERS (or an equal list)
    f = c.fn('minidump::context::MinidumpContext::general_purpose_registers')
    if f is not None:
        a = arms(f)
        ob(set(a) >= set(VARIANT_TYPE), 'general_purpose_registers|arms', f, 'general_purpose_registers has arms for %s, expected all nine variants' % sorted(a))
        for vn, evs in a.items():
            for k, t, tree in evs:
                if k != 'ret' or t.get('k') != 'assign':
                    continue
                kk = t['rv'].get('x', {}).get('k') if t['rv'].get('k') == 'use' else None
                if not (isinstance(kk, dict) and str(kk.get('item', '')).endswith('CpuContext::REGISTERS')):
                    ob(False, 'general_purpose_registers|' + vn, f, 'arm %s of general_purpose_registers returns %s, not a CpuContext::REGISTERS table' % (vn, show(f.expand(tree))[:120]))
                    continue
                self_ty = (kk.get('iargs') or ['?'])[0].split('::')[-1]
                want = VARIANT_TYPE.get(vn)
                # another context's table is accepted only when it is the same list of names
                same = self_ty == want or (per_ctx.get(self_ty, {}).get('regs') is not None and per_ctx.get(self_ty, {}).get('regs') == per_ctx.get(want, {}).get('regs'))
                ob(same, 'general_purpose_registers|' + vn, f, 'arm %s of general_purpose_registers returns <%s as CpuContext>::REGISTERS; the context of that variant is %s, whose register names differ' % (vn, self_ty, want))
    # get_stack_pointer / get_instruction_pointer read the place the names map to
    for disp, which in (('minidump::context::MinidumpContext::get_stack_pointer', 'stack_pointer_register_name'),
                        ('minidump::context::MinidumpContext::get_instruction_pointer', 'instruction_pointer_register_name')):
        f = c.fn(disp)
        if f is None:
            res.error('C18', '%s not found' % disp)
            continue
        a = arms(f)
        ob(set(a) >= set(VARIANT_TYPE), disp + '|arms', f, '%s has arms for %s' % (disp, sorted(a)))
        for vn, evs in a.items():
            info = per_ctx.get(VARIANT_TYPE.get(vn))
            if not info or which not in info:
                continue
            nm = info[which]
            canon = info['aliases'].get(nm, nm)
            want = info['places'].get(nm) or info['places'].get(canon)
            rets = [T.norm(f, tree) for k, t, tree in evs if k == 'ret']
            got = set(place_key(r) for r in rets)
            ob(got == {want}, '%s|%s' % (disp, vn), f, '%s for %s reads %s but register `%s` is %s' % (disp.split('::')[-1], vn, sorted(got), nm, want))


def check_unknown(res, T, O):
    """obligation 7: get_register reaches get_register_always only under register_is_valid"""
    c = T.crate
    f = c.fn('minidump::context::CpuContext::get_register')
    if f is None:
        res.error('C18', 'default method CpuContext::get_register not found')
        return
    O['n'] += 1
    ok = False
    for b, t in f.calls():
        if f.callee_decl(t).endswith('CpuContext::get_register_always') or f.callee(t).endswith('get_register_always'):
            for rel, g, s in panics.dominating_facts(f, b):
                if rel[0] == 'true' and is_call(rel[1], 'register_is_valid'):
                    ok = True
    if not ok:
        # the lazy spelling: self.register_is_valid(reg, valid).then(|| self.get_register_always(reg)) - bool::then
        # runs its closure only for `true`
        for (b, i, t) in ret_assigns(f):
            e = f.expand(t)
            if is_call(e, 'core::bool::then') and len(e) == 4 and is_call(e[2], 'register_is_valid') and e[3][0] == 'closure':
                g = c.fn(e[3][1])
                direct = [1 for b2, t2 in f.calls() if (f.callee_decl(t2) or '').endswith('CpuContext::get_register_always')]
                if g is not None and not direct and all(is_call(g.expand(t2), 'get_register_always') for (_, _, t2) in ret_assigns(g)):
                    ok = True
    if ok:
        O['ok'] += 1
    else:
        res.violation('C18', 'C18|get_register|guard', f, f.line, 'get_register calls get_register_always without the register_is_valid guard')
    # validity sets in the unwinder only receive names through memoize / literals checked elsewhere (C04.6)
    d = c.fn('minidump::context::default_memoize_register')
    cl = c.fn('minidump::context::default_memoize_register::{closure#0}')
    O['n'] += 3
    # (a) the search is registers.iter().position(closure(reg)) over the first argument
    ok_a = ok_b = ok_c = False
    if d is not None:
        iters = [show(d.expand(d.call_tree(t2))) for _, t2 in d.calls() if (d.callee(t2) or '').endswith('slice::iter')]
        for b_, t in d.calls():
            n = d.callee(t) or ''
            dn = d.callee_decl(t) or ''
            if n.endswith('Iterator>::position') or dn.endswith('Iterator::position') or n.endswith('Iterator>::find') or dn.endswith('Iterator::find'):
                cl_arg = show(d.expand(d.operand_tree(t['args'][1])))
                # (a) a left-to-right search over the table handed in, with a predicate that captures the queried name
                ok_a = iters == ['(core::slice::iter registers)'] and cl_arg == '(closure minidump::context::default_memoize_register::{closure#0} reg)'
                kind = 'find' if 'find' in (n + dn).split('::')[-1] else 'position'
                rets = [show(d.expand(t3)) for (_, _, t3) in ret_assigns(d)]
                if kind == 'position':
                    ok_c = any(re.match(r"^\(adt std::option::Option::Some \(index registers \(Continue\.0 \(trybranch \(<std::slice::Iter<'a, T> as std::iter::Iterator>::position (_\d+|\(core::slice::iter registers\)) \(closure minidump::context::default_memoize_register::\{closure#0\} reg\)\)\)\)\)\)$", r) for r in rets)
                else:
                    # (c') the element found, copied out: the table's own spelling
                    ok_c = any(re.match(r"^\(std::option::Option::(copied|cloned) \(<std::slice::Iter<'a, T> as std::iter::Iterator>::find (_\d+|\(core::slice::iter registers\)) \(closure minidump::context::default_memoize_register::\{closure#0\} reg\)\)\)$", r) for r in rets) and len(rets) == 1
    # (b) the predicate is exact string equality between the table entry (the closure's argument) and the queried name -
    #     the match arms of get / set / is_valid are exact literals, so any looser predicate (case-insensitive, prefix,
    #     trimmed) lets a name be "known" that no arm handles
    if cl is not None:
        rets = [cl.expand(t) for (b, i, t) in ret_assigns(cl)]
        ok_b = len(rets) == 1 and rets[0][0] == 'call' and rets[0][1] in ('std::cmp::impls::eq', 'core::str::traits::eq', 'core::cmp::impls::eq') and len(rets[0]) == 4 \
            and show(rets[0][3]) == 'reg' and rets[0][2] in (('arg', 2),) or (len(rets) == 1 and rets[0][0] == 'call' and rets[0][1] in ('std::cmp::impls::eq', 'core::str::traits::eq', 'core::cmp::impls::eq') and len(rets[0]) == 4 and show(rets[0][3]) == 'reg' and rets[0][2][0] == 'var' and cl.argc == 2 and rets[0][2][2] in (2,))
    for okx, key, msg in ((ok_a, 'search', 'default_memoize_register is not registers.iter().position(|val| ..)'),
                          (ok_b, 'predicate', 'default_memoize_register does not compare names with exact equality (*val == reg): a name can then be memoized that the exact-literal arms of get_register / set_register do not handle'),
                          (ok_c, 'result', 'default_memoize_register does not return registers[idx] for the found index')):
        if okx:
            O['ok'] += 1
        else:
            res.violation('C18', 'C18|default_memoize|%s' % key, d, d.line if d else None, msg)


def check_enumeration(res, T, O):
    """obligation 8: the enumeration of valid registers (trait default CpuContext::valid_registers) lists exactly the
    named registers: for All it walks REGISTERS; for Some(_) it walks REGISTERS too and keeps the names that
    register_is_valid reports valid - never the strings stored in the validity set (aliases, hash order)."""
    c = T.crate
    f = c.fn('minidump::context::CpuContext::valid_registers')
    nx = [g for g in c.fns if re.search(r"CpuRegisters<'_, T> as std::iter::Iterator>::next$", g.path)]
    O['n'] += 2
    if f is None or len(nx) != 1:
        res.error('C18', 'CpuContext::valid_registers / CpuRegisters::next not found')
        return
    aggs = []
    for b in sorted(f.reach):
        for s_ in f.blocks[b]['s']:
            if s_['k'] == 'assign' and s_['rv']['k'] == 'agg' and s_['rv'].get('ak') == 'adt' and s_['rv']['adt'].endswith('CpuRegistersInner'):
                aggs.append((s_['rv'].get('variant'), [show(f.expand(f.operand_tree(x))) for x in s_['rv']['xs']], s_.get('line')))
    REG = '(core::slice::iter (item minidump::context::CpuContext::REGISTERS))'
    ok1 = bool(aggs) and all(xs and xs[0] == REG for v, xs, ln in aggs) and any(len(xs) == 2 and xs[1] == 'valid' for v, xs, ln in aggs)
    if ok1:
        O['ok'] += 1
    else:
        res.violation('C18', 'C18|valid_registers|set', f, f.line, 'CpuContext::valid_registers does not enumerate REGISTERS for both kinds of validity: %s (names taken from the validity set itself may be aliases, and come in hash order)' % [(v, xs) for v, xs, ln in aggs])
    # ... and the choice between the two is the validity itself: the plain slice walk for `All` only, the filtered walk
    # for every `Some(_)` (a set may have as many entries as there are registers without naming each of them: aliases,
    # names of no register)
    import normal
    O['n'] += 1
    vadt = c.adts.get('minidump::context::MinidumpContextValidity')
    if vadt is None:
        res.error('C18', 'enum MinidumpContextValidity not found')
    else:
        where = {}
        for b in sorted(f.reach):
            for s_ in f.blocks[b]['s']:
                if s_['k'] == 'assign' and s_['rv']['k'] == 'agg' and s_['rv'].get('ak') == 'adt' and s_['rv']['adt'].endswith('CpuRegistersInner'):
                    where.setdefault(s_['rv'].get('variant'), []).append(b)
        is_valid = lambda x: isinstance(x, tuple) and len(x) == 3 and x[0] == 'var' and x[2] == 2
        got = dict((k, normal.variants_reaching(f, vadt, is_valid, bs)[0]) for k, bs in where.items())
        if got.get('Slice') == {'All'} and got.get('Valid') == {'Some'} and set(got) == {'Slice', 'Valid'}:
            O['ok'] += 1
        else:
            res.violation('C18', 'C18|valid_registers|choice', f, f.line, 'CpuContext::valid_registers must walk the plain REGISTERS slice for All only and filter by register_is_valid for every Some(_); the iterator kinds are built for %s' % dict((k, sorted(v)) for k, v in got.items()))
    g = nx[0]
    ok2 = False
    for b, t in g.calls():
        if g.callee(t).endswith('Iterator>::find'):
            tr = g.expand(g.call_tree(t))
            if tr[3][0] == 'closure':
                h = c.fn(tr[3][1])
                rets = [show(h.expand(t2)) for (_, _, t2) in ret_assigns(h)] if h is not None else []
                ok2 = rets == ['(minidump::context::CpuContext::register_is_valid context reg valid)'] and [show(x) for x in tr[3][2:]] == ['self.context', '(Valid.1 self.regs)']
    others = [g.callee(t) for b, t in g.calls() if re.search(r'hash_set|HashSet', g.callee(t) or '')]
    if ok2 and not others:
        O['ok'] += 1
    else:
        res.violation('C18', 'C18|valid_registers|next', g, g.line, 'CpuRegisters::next does not filter REGISTERS with register_is_valid(context, reg, valid)')


def run(tier, t0):
    res = harness.Result(PID)
    prog = program()
    T = Tables(prog)
    byctx = {}
    for f in T.crate.fns:
        m = CTX_RE.match(f.path)
        if m:
            byctx.setdefault(m.group(1), {})[m.group(2)] = f
    O = {'n': 0, 'ok': 0}
    per = {}
    for ctx in sorted(VARIANT_TYPE.values()):
        if ctx not in byctx:
            res.error('C18', 'impl CpuContext for %s not found' % ctx)
            continue
        per[ctx] = check_context(res, T, ctx, byctx[ctx], O) or {}
    check_dispatch(res, T, per, O)
    check_unknown(res, T, O)
    check_enumeration(res, T, O)
    nreg = sum(len(v.get('regs', [])) + len(v.get('aliases', {})) for v in per.values())
    res.rule('C18', O['n'], floor=900, discharged=O['ok'], note='per-name, per-context and dispatcher obligations over %d register names of %d contexts' % (nreg, len(per)))
    res.extra['register_names'] = nreg
    res.extra['contexts'] = sorted(per)
    res.assumptions += ['Rust field-assignment / match semantics; rustc MIR construction; the mirfacts extractor']
    all_ok = (O['n'] == O['ok'])
    return harness.finish(res, tier, t0, level='proof' if (all_ok and not res.errors and not res.violations) else 'other', distinct=nreg, proof=True, trusted=['rustc nightly MIR construction (string match lowering)', 'engines/mirfacts', 'py/mirq.py PathExplorer'], explanation=(
        'Exhaustive check of finite tables: for each of the nine CpuContext impls the name->place maps of get_register_always and set_register, the alias map of memoize_register, '
        'the alias groups of register_is_valid, the REGISTERS list and the sp/ip names are extracted from MIR and compared name by name; the MinidumpContext dispatchers are checked arm by arm, including the enumeration of valid registers (registers() filtered by the per-CPU validity test) and the REGISTERS table each variant hands out; '
        'get_register is checked to guard get_register_always with register_is_valid. Every obligation is enumerated (obligations/discharged).'))
