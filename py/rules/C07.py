"""C07 — STACK WIN records evaluate as documented (structural clauses)."""
from .common import *
from . import totality, cfiwin
from .C06 import check_operator_table
import panics

PID = 'C07'
W = cfiwin.WALKER
X86_REGS = None


def x86_names(prog):
    regs = const_str_list(prog, 'minidump', '<minidump_common::format::CONTEXT_X86 as context::CpuContext>::REGISTERS')
    return set(regs or [])


def run(tier, t0):
    res = harness.Result(PID)
    prog = program()
    c = prog.crate('breakpad_symbols')
    scope = [f for f in c.fns if f.path.startswith(W + 'eval_win_expr') or f.path.startswith(W + 'walk_with_stack_win') or f.path.startswith(W + 'win_frame_size')
             or f.path.startswith(W + 'clear_stack_win_caller_registers') or f.path.startswith(W + 'WinVal') or f.path.startswith(W + '<impl')
             or 'insert_win_stack_info' in f.path or f.path.startswith('breakpad_symbols::sym_file::parser::stack_win')]
    from . import fpo
    fpo.fpo_formulas(res, prog, 'C07.6')
    # C07.8 literals are read with i64 precision in both evaluators (documented), then squashed into the evaluator's width
    res.rule('C07.8', 0, floor=2, note='decimal literals are parsed as i64 in eval_win_expr and eval_cfi_expr')
    for nm in ('eval_win_expr', 'eval_cfi_expr'):
        fx = c.fn(W + nm)
        if fx is None:
            res.error('C07.8', '%s not found' % nm)
            continue
        tys = [(t.get('targs') or ['?'])[0] for b, t in fx.calls() if fx.callee(t) == 'core::num::from_str']
        res.rule('C07.8', 1)
        if tys != ['i64']:
            res.violation('C07.8', 'C07.8|%s' % nm, fx, fx.line, 'literals of %s are parsed as %s, not i64: a program with a literal outside that type fails as a whole (`4294967295` is rejected by i32)' % (nm, tys))
    # the FPO return-address skip and .cbParams/.cbCalleeParams rest on what the real walker reports about the grand-callee
    from .C04 import cfi_walker
    cfi_walker(res, prog, prog.crate('minidump_unwind'), 'C07.7')
    nontrivial = totality.run_panics(res, prog, scope, 'C07.1', floor_sites=20)
    ev = need_fn(res, c, W + 'eval_win_expr', 'C07.2')
    res.rule('C07.2', 0, floor=12, note='operator table on u32 (as C06.2) plus `=`, `.undef`, the predefined constants and the `@` search-start rule')
    names = x86_names(prog)
    if not names:
        res.error('C07.4', 'x86 REGISTERS list not found')
    if ev is not None:
        tab = check_operator_table(res, ev, 'C07.2', wrap='WinVal::Int', width='u32')
        # `=`: pops rhs then lhs.into_var(); Undef removes, else inserts into_int
        res.rule('C07.2', 1)
        e = tab.get('=')
        ok = False
        if e and len(e['pops']) == 2 and not e['pushes']:
            calls = [nm for b, nm, t in e['calls']]
            ok = any(nm.endswith('WinVal::into_var') for nm in calls) and any(nm.endswith('HashMap::remove') for nm in calls) and any(nm.endswith('HashMap::insert') for nm in calls)
            for b, nm, t in e['calls']:
                if nm.endswith('HashMap::insert'):
                    if show(ev.operand_tree(t['args'][1])) != 'lhs' or not contains(ev.expand(ev.operand_tree(t['args'][2])), lambda x: is_call(x, 'WinVal::into_int')):
                        ok = False
                if nm.endswith('HashMap::remove'):
                    facts = cfiwin.guard_facts(ev, b)
                    adt = c.adts.get('breakpad_symbols::sym_file::walker::WinVal')
                    und = [v.get('discr', i) for i, v in enumerate(adt['variants']) if v['name'] == 'Undef'][0] if adt else None
                    if not any(r[0] == 'switch' and show(r[1]) == '(discr rhs)' and r[2] == und for r in facts):
                        ok = False
        if not ok:
            res.violation('C07.2', 'C07.2|assign', ev, ev.line, '`=` must pop rhs then lhs (a variable); Undef removes the variable, anything else stores rhs.into_int()')
        # ... on every path: once both operands are popped, the next token is reached only through the remove or the insert
        # (reading the right-hand side first, so that an undefined variable fails the record); no shortcut past them
        if e and len(e['pops']) == 2:
            res.rule('C07.2', 1)
            eff = [b for b, nm, t in e['calls'] if nm.endswith('HashMap::remove') or nm.endswith('HashMap::insert')]
            start = max(e['pops'], key=lambda b: len(ev.dom_chain(b)))
            loops = [(len(body), h) for h, body in ev.loops().items() if start in body]
            if not loops or not eff:
                res.error('C07.2', 'the token loop or the effects of `=` were not found')
            else:
                h = min(loops)[1]
                if h in ev.reachable_from(list(ev.succ[start]), avoid=eff):
                    res.violation('C07.2', 'C07.2|assign-skip', ev, ev.blocks[start]['t'].get('line'), 'after popping both operands of `=` the next token can be reached without removing or storing the variable: such a shortcut neither reads the right-hand side (an undefined variable must fail the record) nor assigns')
        res.rule('C07.2', 1)
        e = tab.get('.undef')
        if not e or len(e['pushes']) != 1 or 'WinVal::Undef' not in show(e['pushes'][0][1]):
            res.violation('C07.2', 'C07.2|undef', ev, ev.line, '`.undef` must push the Undef marker')
        # predefined constants
        want = {'.cbParams': 'info.parameter_size', '.cbCalleeParams': 'grand_callee_param_size', '.cbSavedRegs': 'info.saved_register_size',
                '.cbLocals': 'info.local_size', '.raSearch': 'search_start', '.raSearchStart': 'search_start', '$esp': 'callee_esp', '$ebp': 'callee_ebp',
                '$ebx': '(cast u32 callee_ebx)'}
        got = {}
        for b, t in ev.calls():
            if ev.callee(t) == 'std::collections::HashMap::insert' and show(ev.operand_tree(t['args'][0])) == 'vars':
                k = ev.operand_tree(t['args'][1])
                if k[0] == 'str':
                    got[k[1]] = show(ev.operand_tree(t['args'][2]))
        for k, v in want.items():
            res.rule('C07.2', 1)
            if got.get(k) != v:
                res.violation('C07.2', 'C07.2|const|%s' % k, ev, ev.line, 'predefined variable `%s` is initialised from %s, expected %s' % (k, got.get(k), v))
        for k in got:
            if k not in want:
                res.violation('C07.2', 'C07.2|const-extra|%s' % k, ev, ev.line, 'unexpected predefined variable `%s`' % k)
        # callee_esp / callee_ebp come from the walker's esp / ebp
        for var, reg in (('callee_esp', 'esp'), ('callee_ebp', 'ebp'), ('callee_ebx', 'ebx')):
            res.rule('C07.2', 1)
            ds = [ev.expand(('var', var, l)) for l in range(len(ev.locals)) if ev.local_name(l) == var]
            if not any(contains(d, lambda x: is_call(x, 'FrameWalker::get_callee_register') and x[3] == ('str', reg)) for d in ds):
                res.violation('C07.2', 'C07.2|%s' % var, ev, ev.line, '%s is not walker.get_callee_register("%s")' % (var, reg))
        # search_start: `@` in the program => ebp + 4, else esp + frame size
        res.rule('C07.2', 1)
        defs = []
        for l, dd in ev.defs.items():
            if ev.local_name(l) == 'search_start':
                for d in dd:
                    if d['kind'] == 'assign':
                        facts = cfiwin.guard_facts(ev, d['bb'])
                        at = [r[0] for r in facts if r[0] in ('true', 'false') and is_call(r[1], 'contains') and "64" in show(r[1]) or (r[0] in ('true', 'false') and 'str::contains' in show(r[1]))]
                        defs.append((at[0] if at else None, show(ev.expand(ev.rvalue_tree(d['rv'])))))
        ok = len(defs) == 2
        for flag, tr in defs:
            if flag == 'true':
                ok = ok and 'checked_add' in tr and 'ebp' in tr and tr.rstrip(')').endswith(' 4')
            elif flag == 'false':
                ok = ok and 'checked_add' in tr and 'esp' in tr and 'win_frame_size' in tr
            else:
                ok = False
        if not ok:
            res.violation('C07.2', 'C07.2|raSearch', ev, ev.line, 'search start is not (`@` used: ebp + 4, else esp + frame size): %s' % defs)
    # C07.3 / C07.4 names handed to the walker from STACK WIN code
    res.rule('C07.3', 0, floor=4, note='only eip esp ebp ebx esi edi are reported')
    res.rule('C07.4', 0, floor=8, note='every register name handed to FrameWalker from walker.rs is a plain context register name (no `$`)')
    reported = set()
    for f in c.fns:
        if not f.path.startswith(W) or '::test' in f.path:
            continue
        for b, t in f.calls():
            m = re.search(r'FrameWalker::(get_callee_register|set_caller_register|clear_caller_register)$', f.callee_decl(t))
            if not m:
                continue
            arg = f.expand(f.operand_tree(t['args'][1]))
            lits = []
            if arg[0] == 'str':
                lits = [arg[1]]
            else:
                # a name taken from a literal table in the same function: (index (array ..) ..) / iterator over an array literal
                # ... or a `const` table of the module that the function iterates over.  Exactly one such table per function.
                tables = []
                for b2 in sorted(f.reach):
                    for s in f.blocks[b2]['s']:
                        if s['k'] != 'assign':
                            continue
                        if s['rv']['k'] == 'agg' and s['rv'].get('ak') == 'array':
                            vals = [f.operand_tree(x) for x in s['rv']['xs']]
                            if vals and all(v[0] == 'str' for v in vals):
                                tables.append([v[1] for v in vals])
                        for x in walk(f.rvalue_tree(s['rv'])):
                            if isinstance(x, tuple) and x and x[0] == 'item' and str(x[1]).startswith('breakpad_symbols::'):
                                lst = const_str_list(prog, 'breakpad_symbols', x[1])
                                if lst and lst not in tables:
                                    tables.append(lst)
                if len(tables) == 1:
                    sub = 'RangeFrom 1' in show(arg) or 'RangeFrom::RangeFrom 1' in show(arg)
                    lits = [v[1:] if sub else v for v in tables[0]]
                if not lits:
                    if f.path.startswith(W + 'eval_cfi_expr') or f.path.startswith(W + 'walk_with_stack_cfi'):
                        continue  # CFI: names come from the symbol file, resolved by the context's own tables
                    res.rule('C07.4', 1)
                    res.violation('C07.4', 'C07.4|dynamic|%s|%s' % (f.qual, m.group(1)), f, t.get('line'), 'register name %s is not a literal' % show(arg)[:80])
                    continue
            is_win = 'win' in f.path
            for lit in lits:
                res.rule('C07.4', 1)
                if lit not in names:
                    res.violation('C07.4', 'C07.4|%s|%s|%s' % (f.qual.split('::')[-1], m.group(1), lit), f, t.get('line'),
                                  '%s("%s"): `%s` is not a register name of the x86 context (the walker compares plain names; a `$`-prefixed name never matches, so nothing is cleared)' % (m.group(1), lit, lit))
                if is_win and m.group(1) == 'set_caller_register':
                    reported.add(lit)
    res.rule('C07.3', len(reported))
    if not reported <= {'eip', 'esp', 'ebp', 'ebx', 'esi', 'edi'}:
        res.violation('C07.3', 'C07.3|alphabet', None, None, 'STACK WIN code reports %s' % sorted(reported), file='breakpad-symbols/src/sym_file/walker.rs')
    else:
        res.sample({'rule': 'C07.3', 'reported': sorted(reported)})
    # both WIN entry points clear before evaluating
    res.rule('C07.5', 0, floor=2, note='framedata and fpo clear the caller registers before evaluating; walk_frame prefers framedata, then fpo, then CFI')
    for nm in ('walk_with_stack_win_framedata', 'walk_with_stack_win_fpo'):
        f = c.fn(W + nm)
        if f is None:
            res.error('C07.5', nm + ' not found')
            continue
        res.rule('C07.5', 1)
        cl = [b for b, t in f.calls() if f.callee(t) == W + 'clear_stack_win_caller_registers']
        work = [b for b, t in f.calls() if f.callee(t) == W + 'eval_win_expr' or f.callee_decl(t).endswith('FrameWalker::set_caller_register')]
        if not cl or not all(any(f.dominates(x, w) for x in cl) for w in work):
            res.violation('C07.5', 'C07.5|clear|' + nm, f, f.line, '%s does not clear the caller registers before evaluating' % nm)
    wfm = c.fn('breakpad_symbols::sym_file::<impl sym_file::types::SymbolFile>::walk_frame')
    if wfm is not None:
        res.rule('C07.5', 1)
        order = []
        for b, t in sorted(wfm.calls()):
            s = show(wfm.expand(wfm.operand_tree(t['args'][0]))) if t['args'] else ''
            if wfm.callee(t).endswith('RangeMap::get'):
                order.append((b, 'framedata' if 'framedata' in s else 'fpo' if 'fpo' in s else 'cfi' if 'cfi' in s else '?'))
        fd = [b for b, k in order if k == 'framedata']
        fp = [b for b, k in order if k == 'fpo']
        if not fd or not fp or not wfm.dominates(fd[0], fp[0]):
            res.violation('C07.5', 'C07.5|priority', wfm, wfm.line, 'STACK WIN framedata lookup does not dominate the fpo lookup: %s' % order)
    res.assumptions += ['32-bit wrapping semantics are those of u32::wrapping_*', 'registers not set by a record are unknown in the caller only if clear_caller_register is handed names the walker knows (C07.4)']
    return harness.finish(res, tier, t0, distinct=len(nontrivial) + 10, explanation=(
        'Operator/constant table of eval_win_expr extracted from MIR (same rules as C06.2 on u32, plus `=`, `.undef`, the six predefined constants and the `@` search-start rule), the alphabet of register names handed '
        'to the FrameWalker interface checked against the x86 context table, clearing before evaluation, framedata-before-fpo priority, the FPO formula table with the inputs each path may demand, literal precision, and the panic-edge inventory of the STACK WIN code.'))
