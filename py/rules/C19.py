"""C19 — reported bit-flip candidates are genuine single-bit neighbours in mapped memory."""
from .common import *
import panics
import normal

PID = 'C19'
TBF = 'minidump_processor::processor::bitflip::try_bit_flips'
CHECK = "minidump_processor::processor::MinidumpInfo::<'a>::check_for_bitflips"


def one_bit(res, prog, c):
    res.rule('C19.1', 0, floor=6, note='every candidate is address ^ (1 << i), i ranging over one of the constant ranges 0..64 / 0..48 / 48..64')
    f = need_fn(res, c, TBF, 'C19.1')
    if f is None:
        return None
    pushes = [(b, t) for b, t in f.calls() if f.callee(t) == 'std::vec::Vec::push' and show(f.operand_tree(t['args'][0])) == 'addresses']
    if not pushes:
        res.error('C19.1', 'no push into `addresses` found')
    for b, t in pushes:
        res.rule('C19.1', 1)
        v = f.expand(f.operand_tree(t['args'][1]))
        # v = call_once/ call of the create_possible_address closure with (possible_address,)
        arg = None
        for x in walk(v):
            if isinstance(x, tuple) and x and x[0] == 'bin' and x[1] == 'BitXor':
                arg = x
        ok = False
        why = show(v)[:160]
        if arg is not None:
            a, sh = arg[2], arg[3]
            a = f.expand(a)
            sh = f.expand(sh)
            if a[0] == 'var' and a[1] == 'address' and sh[0] == 'bin' and sh[1] == 'Shl' and strip_casts(sh[2]) == ('int', 1):
                i = f.expand(sh[3])
                si = show(i)
                if 'iter::range' in si and 'next' in si or (i[0] == 'vfield' and i[1] == 'Some'):
                    # the loop variable of `for i in bit_range.range()`
                    src = show(f.expand(i))
                    ok = True
                    why = 'address ^ (1 << i), i from %s' % src[:80]
        if not ok:
            res.violation('C19.1', 'C19.1|push|%s' % why[:80], f, t.get('line'), 'a pushed candidate is not `address ^ (1 << i)` for the loop variable i: %s' % why)
        else:
            res.sample({'rule': 'C19.1', 'push': why})
    # the for loop iterates bit_range.range()
    res.rule('C19.1', 1)
    it = [t for b, t in f.calls() if f.callee_decl(t).endswith('IntoIterator::into_iter')]
    src_ok = any('BitRange::range' in show(f.expand(f.operand_tree(t['args'][0]))) for t in it)
    if not src_ok:
        res.violation('C19.1', 'C19.1|loop-source', f, f.line, 'the candidate loop does not iterate bit_range.range()')
    # BitRange::range
    r = need_fn(res, c, 'minidump_processor::processor::bitflip::BitRange::range', 'C19.1')
    ranges = {}
    if r is not None:
        adt = c.adts.get('minidump_processor::processor::bitflip::BitRange')
        names = {v.get('discr', i): v['name'] for i, v in enumerate(adt['variants'])} if adt else {}
        ex = PathExplorer(r, track=[])
        ex.tracked = set()
        ex.run()
        for (b, i, tree) in ret_assigns(r):
            tx = panics.resolve_items(prog, 'minidump_processor', r.expand(tree))
            for facts, env in ex.states.get(b, ()):
                for cnd, v in facts:
                    if cnd[0] == 'discr' and isinstance(v, int) and not isinstance(v, bool):
                        if tx[0] == 'adt' and tx[1].endswith('ops::Range::Range'):
                            ranges[names.get(v, v)] = (tx[2], tx[3])
        want = {'All': (0, 64), 'Amd64Canononical': (0, 48), 'Amd64NonCanonical': (48, 64)}
        for k, (lo, hi) in want.items():
            res.rule('C19.1', 1)
            got = ranges.get(k)
            if got is None or got[0] != ('int', lo) or got[1] != ('int', hi):
                res.violation('C19.1', 'C19.1|range|%s' % k, r, r.line, 'BitRange::%s is %s, expected %d..%d' % (k, got and (show(got[0]), show(got[1])), lo, hi))
        res.sample({'rule': 'C19.1', 'ranges': {k: (show(a), show(b)) for k, (a, b) in ranges.items()}})
    return f


def accessible_closure(c, f, tree):
    """`tree` is a call of a closure local to `f` whose body returns true only when memory_info_at_address(<its
    parameter>) is Some and is_possibly_allowed_for holds for that region: return the argument tree, else None.
    (The two nested tests of try_bit_flips may be factored into one local predicate.)"""
    if not (isinstance(tree, tuple) and tree and tree[0] == 'call' and isinstance(tree[1], str)):
        return None
    if not re.match(re.escape(f.qual) + r'::\{closure#\d+\}$', tree[1]) or len(tree) != 4:
        return None
    g = c.fn(tree[1])
    if g is None or g.argc != 2 or g.local_ty(0) != 'bool':
        return None
    arg = tree[3]
    if not (arg[0] == 'tuple' and len(arg) == 2):
        return None

    def on_param(call):
        return is_call(call, 'memory_info_at_address') and call[3][0] == 'var' and call[3][2] == 2
    ndefs = 0
    for b in sorted(g.reach):
        facts = [r for r, gd, sc in panics.dominating_facts(g, b)]
        mapped = any(r[0] == 'switch' and r[1][0] == 'discr' and on_param(r[1][1]) and r[2] == 1 for r in facts)
        allowed = any(r[0] == 'true' and is_call(r[1], 'is_possibly_allowed_for') for r in facts)
        for st in g.blocks[b]['s']:
            if st['k'] == 'assign' and st['lhs']['l'] == 0:
                ndefs += 1
                v = g.expand(g.rvalue_tree(st['rv']))
                if v == ('int', 0):
                    continue
                if v == ('int', 1) and mapped and allowed:
                    continue
                if is_call(v, 'is_possibly_allowed_for') and mapped:
                    continue
                return None
        t = g.blocks[b]['t']
        if t['k'] == 'call' and (t.get('dest') or {}).get('l') == 0:
            ndefs += 1
            ct = g.call_tree(t)
            mi = g.expand(ct[3]) if len(ct) > 3 else None
            if not (is_call(ct, 'is_possibly_allowed_for') and mapped and mi is not None and 'memory_info_at_address' in show(mi)):
                return None
    return arg[1] if ndefs else None


def mapped_or_null(res, prog, c, f):
    res.rule('C19.2', 0, floor=2, note='each push is guarded by candidate == 0 or (mapped at the candidate and possibly allowed)')
    pushes = [(b, t) for b, t in f.calls() if f.callee(t) == 'std::vec::Vec::push' and show(f.operand_tree(t['args'][0])) == 'addresses']
    for b, t in pushes:
        res.rule('C19.2', 1)
        facts = [r for r, g, s in panics.dominating_facts(f, b)]
        null = any(r[0] == 'eq' and show(r[1]) == 'possible_address' and r[2] == ('int', 0) for r in facts)
        mapped = any(r[0] == 'switch' and r[1][0] == 'discr' and is_call(r[1][1], 'memory_info_at_address') and show(r[1][1][3]) == 'possible_address' and r[2] == 1 for r in facts)
        allowed = any(r[0] == 'true' and is_call(r[1], 'is_possibly_allowed_for') for r in facts)
        for r in facts:
            if r[0] == 'true':
                a = accessible_closure(c, f, r[1])
                if a is not None and show(a) == 'possible_address':
                    mapped = allowed = True
        if not (null or (mapped and allowed)):
            res.violation('C19.2', 'C19.2|push', f, t.get('line'), 'a candidate is pushed without `== 0` or (memory_info_at_address(candidate) is Some and is_possibly_allowed_for); facts: %s' % [show(r[1])[:60] for r in facts if len(r) > 1][:6])
        else:
            res.sample({'rule': 'C19.2', 'guard': 'null' if null else 'mapped+allowed'})


def _is_cpu(x):
    return isinstance(x, tuple) and len(x) == 3 and x[0] == 'field' and x[2] == 'cpu' and 'system_info' in str(x[1])


def gates(res, prog, c, f):
    res.rule('C19.3', 0, floor=4, note='no attempt on 32-bit or ARM64 dumps, for null-pointer-with-offset, or when the examined address is itself accessible')
    g = need_fn(res, c, CHECK, 'C19.3')
    if g is not None:
        calls = [(b, t) for b, t in g.calls() if g.callee(t) == TBF]
        if not calls:
            res.error('C19.3', 'check_for_bitflips does not call try_bit_flips')
        for b, t in calls:
            res.rule('C19.3', 1)
            # which CPUs reach the attempt, whatever the spelling of the two gates (`!=`, `matches!`, `match`, a local copy)
            ms = prog.crate('minidump')
            pw, cpu = ms.adts.get('minidump::system_info::PointerWidth'), ms.adts.get('minidump::system_info::Cpu')
            if not pw or not cpu:
                res.error('C19.3', 'enums PointerWidth / Cpu not found')
                continue
            gw, nw = normal.variants_reaching(g, pw, lambda x: isinstance(x, tuple) and x[0] == 'call' and str(x[1]).endswith('pointer_width'), [b])
            gc, nc_ = normal.variants_reaching(g, cpu, _is_cpu, [b])
            if gw != {'Bits64'}:
                res.violation('C19.3', 'C19.3|width', g, t.get('line'), 'try_bit_flips must be attempted for 64-bit CPUs only; it is reached for pointer widths %s' % sorted(gw))
            if 'Arm64' in gc or 'X86_64' not in gc:
                res.violation('C19.3', 'C19.3|arm64', g, t.get('line'), 'try_bit_flips must not be attempted on ARM64 (and must be on x86-64); it is reached for %s' % sorted(gc))
        # selector: NullPointerWithOffset => None
        res.rule('C19.3', 1)
        ex = PathExplorer(g, keep=lambda cnd: 'adjusted_address' in show(cnd) or 'cpu' in show(cnd), track=[])
        ex.tracked = set()
        ex.run()
        aa = prog.crate('minidump_processor').adts.get('minidump_processor::process_state::AdjustedAddress')
        names = {v.get('discr', i): v['name'] for i, v in enumerate(aa['variants'])} if aa else {}
        sel = {}
        plain_sites = []
        for b in sorted(g.reach):
            for s in g.blocks[b]['s']:
                if s['k'] == 'assign' and g.local_name(s['lhs']['l']) == 'bit_flip_address' and not s['lhs'].get('p'):
                    tree = g.expand(g.rvalue_tree(s['rv']))
                    for facts, env in ex.states.get(b, ()):
                        which = None
                        for cnd, v in facts:
                            if cnd[0] == 'discr' and 'adjusted_address' in show(cnd):
                                if show(cnd) in ('(discr info.adjusted_address)', '(discr (deref info).adjusted_address)') or cnd[1][0] == 'field':
                                    which = ('opt', v) if which is None else which
                                if 'Some' in show(cnd):
                                    which = ('some', names.get(v, v))
                        cpu = [v for cnd, v in facts if 'X86_64' in show(cnd) or 'cpu' in show(cnd) and isinstance(v, bool)]
                        sel.setdefault(str(which), set()).add(show(tree))
                        if which == ('opt', 0) and (b, g.rvalue_tree(s['rv'])) not in plain_sites:
                            plain_sites.append((b, g.rvalue_tree(s['rv'])))
        flat = ' '.join(sorted(x for v in sel.values() for x in v))
        nul = [v for k, v in sel.items() if 'NullPointerWithOffset' in k]
        if not nul or not all('Option::None' in x for x in nul[0]):
            res.violation('C19.3', 'C19.3|nullptr', g, g.line, 'AdjustedAddress::NullPointerWithOffset does not select None: %s' % sel)
        nc = [v for k, v in sel.items() if 'NonCanonical' in k]
        if not nc or not all('Amd64NonCanonical' in x for x in nc[0]):
            res.violation('C19.3', 'C19.3|noncanonical', g, g.line, 'AdjustedAddress::NonCanonical does not select the high bit range: %s' % sel)
        # the range chosen for an unadjusted address: All unless the CPU is x86-64 - evaluated per variant of Cpu at the
        # statement that builds the selection of the `adjusted_address == None` arm
        cpu = prog.crate('minidump').adts.get('minidump::system_info::Cpu')
        per = {}
        for (pb, ptree) in plain_sites:
            tr = g.expand(ptree)
            ex2 = normal.VariantExplorer(g, cpu, _is_cpu, watch=normal.multi_def_leaves(g, tr))
            for v in cpu['variants']:
                if not any(bb == pb for (bb, _e) in ex2.states[v['name']]):
                    continue
                val = show(g.expand(normal.value_at(ex2, v['name'], pb, tr)))
                m = re.search(r'BitRange::(\w+)', val)
                per.setdefault(v['name'], set()).add(m.group(1) if m else val[:80])
        bad = dict((k, sorted(v)) for k, v in per.items() if v != ({'Amd64Canononical'} if k == 'X86_64' else {'All'}))
        if not plain_sites or not per or bad:
            res.violation('C19.3', 'C19.3|plain', g, g.line, 'unadjusted addresses do not select All (non x86-64) / Amd64Canononical (x86-64): %s' % (bad or 'no selection found for the unadjusted address'))
        res.sample({'rule': 'C19.3', 'selector': {k: sorted(v) for k, v in sel.items()}})
    # early return when the examined address is accessible
    res.rule('C19.3', 1)
    ok = False
    for b in sorted(f.reach):
        t = f.blocks[b]['t']
        if t['k'] != 'switch':
            continue
        cond = f.expand(f.operand_tree(t['x']))
        rel = panics.relation(f.operand_tree(t['x']), True)
        via = accessible_closure(c, f, rel[1]) if rel and rel[0] == 'true' else None
        if is_call(cond, 'is_possibly_allowed_for') or via is not None:
            facts = [r for r, gd, s in panics.dominating_facts(f, b)]
            on_addr = any(r[0] == 'switch' and r[1][0] == 'discr' and is_call(r[1][1], 'memory_info_at_address') and show(r[1][1][3]) == 'address' and r[2] == 1 for r in facts)
            if via is not None:
                on_addr = show(via) == 'address'
            if not on_addr:
                continue
            true_succ = t['o']
            region = f.reachable_from(true_succ)
            has_push = any(f.blocks[x]['t']['k'] == 'call' and f.callee(f.blocks[x]['t']) == 'std::vec::Vec::push' for x in region)
            loops = f.loops()
            in_loop = any(h in region for h in loops)
            if not has_push and not in_loop:
                ok = True
    if not ok:
        res.violation('C19.3', 'C19.3|accessible', f, f.line, 'try_bit_flips does not return before the loop when the examined address is mapped and permitted')


def operands(res, prog, c, f):
    """C19.6: which memory map and which access kind the candidates are judged against"""
    res.rule('C19.6', 0, floor=8, note='try_bit_flips is always handed the dump\'s memory map, the selected bit range and the access kind derived from the crash reason; inside, the lookups use exactly those')
    g = need_fn(res, c, CHECK, 'C19.6')
    if g is not None:
        for b, t in g.calls():
            if g.callee(t) != TBF:
                continue
            a = [g.expand(g.operand_tree(x)) for x in t['args']]
            if len(a) != 6:
                res.error('C19.6', 'try_bit_flips no longer takes 6 arguments')
                continue
            res.rule('C19.6', 1)
            op = a[5]
            ok = is_call(op, 'MemoryOperation::from_crash_reason') and re.search(r'(^|[ .(])info\)?\.reason$|exception_details\.info\.reason$', show(op[2]))
            if not ok:
                res.violation('C19.6', 'C19.6|operation', g, t.get('line'), 'try_bit_flips is not given MemoryOperation::from_crash_reason(&info.reason) as the access kind, but %s' % show(op)[:160])
            res.rule('C19.6', 1)
            if show(a[4]) not in ('self.memory_info', '(deref self).memory_info'):
                res.violation('C19.6', 'C19.6|map', g, t.get('line'), 'try_bit_flips is not given self.memory_info, but %s' % show(a[4])[:160])
            res.rule('C19.6', 1)
            if not re.match(r'^\(Some\.0 \w+\)\.1$', show(a[2])):
                res.violation('C19.6', 'C19.6|range', g, t.get('line'), 'try_bit_flips is not given the selected bit range, but %s' % show(a[2])[:160])
    # inside: receivers are the parameters
    bodies = [(f, None)]
    for cl in c.fns:
        if re.match(re.escape(f.qual) + r'::\{closure#\d+\}$', cl.qual):
            par, env = closure_env(prog, cl)
            bodies.append((cl, env))

    def param(h, env, tree, idx):
        tree = h.expand(tree)
        if env is not None:
            tree = resolve_upvars(h, tree, env)
        while isinstance(tree, tuple) and tree and tree[0] in ('ref', 'deref', 'copy') and len(tree) == 2:
            tree = tree[1]
        return isinstance(tree, tuple) and tree and tree[0] == 'var' and tree[2] == idx
    for h, env in bodies:
        for b, t in h.calls():
            nm = h.callee(t)
            if nm.endswith('memory_info_at_address'):
                res.rule('C19.6', 1)
                if not param(h, env, h.operand_tree(t['args'][0]), 5):
                    res.violation('C19.6', 'C19.6|lookup-map', h, t.get('line'), 'memory_info_at_address is not asked of the memory_info parameter: %s' % show(h.expand(h.call_tree(t)))[:160])
            elif nm.endswith('is_possibly_allowed_for') or nm.endswith('MemoryOperation::is_allowed_for'):
                res.rule('C19.6', 1)
                if not param(h, env, h.operand_tree(t['args'][0]), 6):
                    res.violation('C19.6', 'C19.6|lookup-op', h, t.get('line'), 'the permission test is not made with the memory_operation parameter: %s' % show(h.expand(h.call_tree(t)))[:160])
                region = h.expand(h.operand_tree(t['args'][1]))
                if 'memory_info_at_address' not in show(region):
                    res.violation('C19.6', 'C19.6|lookup-region', h, t.get('line'), 'the permission test is not made on the region found by memory_info_at_address: %s' % show(region)[:160])


def feval(tree, consts):
    """constant-fold a float expression tree"""
    if tree[0] == 'float':
        return float(tree[1])
    if tree[0] == 'item':
        return consts.get(tree[1])
    if tree[0] == 'bin' and tree[1] in ('Add', 'Sub', 'Mul'):
        a, b = feval(tree[2], consts), feval(tree[3], consts)
        if a is None or b is None:
            return None
        return a + b if tree[1] == 'Add' else a - b if tree[1] == 'Sub' else a * b
    return None


def confidence(res, prog, c):
    res.rule('C19.4', 0, floor=10, note='confidence constants lie in [0,1]; combine is 1 - prod(1 - v); other operations are products with those constants')
    consts = {}
    for k, v in c.consts.items():
        if k.startswith('minidump_processor::process_state::confidence::') and 'float' in v:
            consts[k] = float(v['float'])
    for k, v in consts.items():
        res.rule('C19.4', 1)
        if not (0.0 <= v <= 1.0):
            res.violation('C19.4', 'C19.4|const|%s' % k, None, None, 'confidence constant %s = %s is outside [0,1]' % (k, v), file='minidump-processor/src/process_state.rs')
    nr = c.fn('minidump_processor::process_state::confidence::NEARBY_REGISTER')
    if nr is None:
        res.error('C19.4', 'NEARBY_REGISTER const body not found')
    else:
        for b in sorted(nr.reach):
            for s in nr.blocks[b]['s']:
                if s['k'] == 'assign' and s['rv']['k'] == 'agg' and s['rv'].get('ak') == 'array':
                    for i, x in enumerate(s['rv']['xs']):
                        res.rule('C19.4', 1)
                        v = feval(nr.expand(nr.operand_tree(x)), consts)
                        if v is None or not (0.0 <= v <= 1.0):
                            res.violation('C19.4', 'C19.4|nearby|%d' % i, nr, nr.line, 'NEARBY_REGISTER[%d] = %s is outside [0,1]' % (i, v))
                        else:
                            res.sample({'rule': 'C19.4', 'NEARBY_REGISTER[%d]' % i: round(v, 4)})
    comb = c.fn('minidump_processor::process_state::confidence::combine')
    cl = c.fn('minidump_processor::process_state::confidence::combine::{closure#0}')
    res.rule('C19.4', 1)
    ok = False
    if comb is not None and cl is not None:
        r1 = [cl.expand(t) for (b, i, t) in ret_assigns(cl)]
        r2 = [comb.expand(t) for (b, i, t) in ret_assigns(comb)]
        inner = len(r1) == 1 and is_call(r1[0], 'sub') and r1[0][2] == ('float', '1') or (len(r1) == 1 and r1[0][0] == 'bin' and r1[0][1] == 'Sub' and r1[0][2] == ('float', '1'))
        outer = len(r2) == 1 and r2[0][0] == 'bin' and r2[0][1] == 'Sub' and r2[0][2] == ('float', '1') and 'Iterator::product' in show(r2[0][3])
        ok = bool(inner and outer)
        if not ok:
            res.violation('C19.4', 'C19.4|combine', comb, comb.line, 'combine is not 1 - product(1 - v): %s / %s' % ([show(x) for x in r2], [show(x) for x in r1]))
    else:
        res.error('C19.4', 'confidence::combine not found')
    conf = c.fn('minidump_processor::process_state::BitFlipDetails::confidence')
    if conf is not None:
        for b in sorted(conf.reach):
            for s in conf.blocks[b]['s']:
                if s['k'] == 'assign' and s['rv']['k'] == 'bin' and s['rv'].get('ty') in ('f32', 'f64'):
                    res.rule('C19.4', 1)
                    tr = conf.rvalue_tree(s['rv'])
                    if not (tr[1] == 'Mul' and (tr[2][0] == 'item' or tr[3][0] == 'item') and all(x[0] != 'item' or x[1] in consts for x in (tr[2], tr[3]))):
                        res.violation('C19.4', 'C19.4|arith|%s' % show(tr), conf, s.get('line'), 'confidence arithmetic other than a product with a [0,1] constant: %s' % show(tr))
        for b, t in conf.calls():
            if conf.callee(t) == 'std::vec::Vec::push':
                res.rule('C19.4', 1)
                v = conf.expand(conf.operand_tree(t['args'][1]))
                sv = show(v)
                if not (v[0] == 'item' and v[1] in consts or v[0] == 'var' and v[1] == 'val' or 'NEARBY_REGISTER' in sv):
                    res.violation('C19.4', 'C19.4|push|%s' % sv[:60], conf, t.get('line'), 'value pushed into the confidence list is not a confidence constant: %s' % sv[:100])


def permission_table(res, prog, c):
    """C19.5: "a region that permits the access" is a finite table: Read -> readable, Write -> writable, Execute ->
    executable, Undetermined -> anything (possibly-allowed) / nothing (allowed); and the access kind comes from the crash
    reason: Windows access violation READ / WRITE / EXEC, everything else undetermined."""
    res.rule('C19.5', 0, floor=13, note='MemoryOperation permission table and its derivation from the crash reason, arm by arm')
    adt = c.adts.get('minidump_processor::processor::memory_operation::MemoryOperation')
    names = {v['discr']: v['name'] for v in (adt or {}).get('variants', [])}
    WANT = {
        'is_possibly_allowed_for': {'Undetermined': '1', 'Read': '(minidump::UnifiedMemoryInfo::is_readable memory_info)', 'Write': '(minidump::UnifiedMemoryInfo::is_writable memory_info)', 'Execute': '(minidump::UnifiedMemoryInfo::is_executable memory_info)'},
        'is_allowed_for': {'Undetermined': '0', 'Read': '(minidump::UnifiedMemoryInfo::is_readable memory_info)', 'Write': '(minidump::UnifiedMemoryInfo::is_writable memory_info)', 'Execute': '(minidump::UnifiedMemoryInfo::is_executable memory_info)'},
    }
    for meth, want in WANT.items():
        f = need_fn(res, c, 'minidump_processor::processor::memory_operation::MemoryOperation::' + meth, 'C19.5')
        if f is None:
            continue
        ex = PathExplorer(f, keep=lambda cnd: True)
        ex.run()
        got = {}
        for (b, i, t) in ret_assigns(f):
            for facts, env in ex.states.get(b, ()):
                d = [v for cc, v in facts if show(cc) == '(discr self)' and not isinstance(v, (bool, tuple))]
                extra = [show(cc) for cc, v in facts if show(cc) != '(discr self)']
                key = names.get(d[0], '?') if len(d) == 1 else '?'
                got.setdefault(key, set()).add(show(f.expand(t)) + (' under ' + ';'.join(extra) if extra else ''))
        for k, w in want.items():
            res.rule('C19.5', 1)
            if got.get(k) != {w}:
                res.violation('C19.5', 'C19.5|%s|%s' % (meth, k), f, f.line, '%s for %s is %s; documented: %s' % (meth, k, sorted(got.get(k, [])), w))
        for k in set(got) - set(want):
            res.violation('C19.5', 'C19.5|%s|extra|%s' % (meth, k), f, f.line, '%s has an unexpected arm %s: %s' % (meth, k, sorted(got[k])))
    f = need_fn(res, c, 'minidump_processor::processor::memory_operation::MemoryOperation::from_crash_reason', 'C19.5')
    if f is not None:
        cr = prog.crate('minidump').adts.get('minidump::minidump::CrashReason') or {}
        av = [v['discr'] for v in cr.get('variants', []) if v['name'] == 'WindowsAccessViolation']
        ex = PathExplorer(f, keep=lambda cnd: True)
        ex.run()
        table = {}
        for (b, i, t) in ret_assigns(f):
            for facts, env in ex.states.get(b, ()):
                fs = dict((show(cc), v) for cc, v in facts)
                r = fs.get('(discr reason)')
                k = fs.get('(discr (WindowsAccessViolation.0 reason))')
                val = show(f.expand(t)).split('::')[-1].rstrip(')')
                table[(r if not isinstance(r, tuple) else 'other', k if not isinstance(k, tuple) else 'other')] = val
        want = {(av[0] if av else None, 0): 'Read', (av[0] if av else None, 1): 'Write', (av[0] if av else None, 8): 'Execute'}
        for k, w in want.items():
            res.rule('C19.5', 1)
            if table.get(k) != w:
                res.violation('C19.5', 'C19.5|from_crash_reason|%s' % w, f, f.line, 'access kind for WindowsAccessViolation(%s) is %s; documented: %s' % (k[1], table.get(k), w))
        res.rule('C19.5', 1)
        others = {k: v for k, v in table.items() if k not in want}
        if not others or any(v not in ('default',) for v in others.values()):
            res.violation('C19.5', 'C19.5|from_crash_reason|default', f, f.line, 'crash reasons other than a Windows READ/WRITE/EXEC access violation do not map to the undetermined access: %s' % others)
        d = c.fn('<processor::memory_operation::MemoryOperation as std::default::Default>::default')
        res.rule('C19.5', 1)
        if d is None or [show(d.expand(t)) for (_, _, t) in ret_assigns(d)] != ['(adt minidump_processor::processor::memory_operation::MemoryOperation::Undetermined)']:
            res.violation('C19.5', 'C19.5|default', d or f, (d or f).line, 'MemoryOperation::default() is not Undetermined')


def run(tier, t0):
    res = harness.Result(PID)
    prog = program()
    c = prog.crate('minidump_processor')
    f = one_bit(res, prog, c)
    if f is not None:
        mapped_or_null(res, prog, c, f)
        gates(res, prog, c, f)
        operands(res, prog, c, f)
    confidence(res, prog, c)
    permission_table(res, prog, c)
    res.assumptions += [
        'memory_info_at_address returns an entry whose range contains the address (C08 behaviour, not decided here)',
        'f32 arithmetic: products and 1 - x of values in [0,1] stay in [0,1] (monotone rounding)',
    ]
    return harness.finish(res, tier, t0, distinct=5, explanation=(
        'Value-shape dataflow and gating dominance over the MIR of bitflip::try_bit_flips, BitRange::range, check_for_bitflips and the confidence code: every pushed candidate is address ^ (1 << i) '
        'with i the induction variable of the loop over one of the constant ranges 0..64 / 0..48 / 48..64, each push is guarded by `== 0` or mapped-and-permitted, the attempt is gated on 64-bit non-ARM64 and '
        'on the adjusted-address kind, the function returns before the loop when the examined address is accessible, and every confidence is built from constants in [0,1] by products and 1 - prod(1 - v).'))
