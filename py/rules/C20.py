"""C20 — the command-line tool exits cleanly and prints what the library computes."""
from .common import *
from . import totality
import panics

PID = 'C20'
MAIN = 'minidump_stackwalk::main_result::{closure#0}'
PRINTERS = {
    'minidump_processor::ProcessState::print': 'print',
    'minidump_processor::ProcessState::print_brief': 'print_brief',
    'minidump_processor::ProcessState::print_json': 'print_json',
    'minidump_stackwalk::print_minidump_dump': 'print_minidump_dump',
}
WRITER_VARS = {'output', 'cyborg_output_f', 'output_f', 'stdout'}


def printer_name(f, t):
    nm = f.callee(t)
    nm = re.sub(r'^minidump_processor::process_state::', 'minidump_processor::', nm)
    return PRINTERS.get(nm)


def root_var(tree):
    t = tree
    while isinstance(t, tuple) and t and t[0] in ('field', 'vfield', 'index', 'cast'):
        t = t[1] if t[0] in ('field', 'index') else (t[3] if t[0] == 'vfield' else t[2])
    if isinstance(t, tuple) and t and t[0] == 'var':
        return t[1]
    return None


def writer_of(f, tree):
    """name of the writer variable an argument denotes (following the unnamed `if` temporary)"""
    r = root_var(tree)
    if r in WRITER_VARS:
        return r
    t = tree
    if isinstance(t, tuple) and t and t[0] == 'var' and isinstance(t[2], int):
        names = set()
        for d in f.defs.get(t[2], []):
            if d['kind'] == 'assign':
                names.add(root_var(f.rvalue_tree(d['rv'])))
            else:
                names.add(None)
        if names and names <= {'output_f', 'stdout', 'output'}:
            return 'output'
    return None


def features_table(res, prog, f):
    c = prog.crate('minidump_stackwalk')
    res.rule('C20.1f', 0, floor=1, note='--features value_parser list equals the literal arms of the features match')
    lists = []
    for g in c.fns:
        if 'augment_args' not in g.path:
            continue
        for b in sorted(g.reach):
            for s in g.blocks[b]['s']:
                if s['k'] == 'assign' and s['rv']['k'] == 'agg' and s['rv'].get('ak') == 'array':
                    vals = [g.operand_tree(x) for x in s['rv']['xs']]
                    if vals and all(v[0] == 'str' for v in vals):
                        lists.append(sorted(v[1] for v in vals))
    feat = [l for l in lists if any(x.startswith('stable-') or x.startswith('unstable-') for x in l)]
    arms = set()
    for b, t in f.calls():
        if (re.search(r'PartialEq.*>::eq$', f.callee(t)) or f.callee(t) == 'core::str::traits::eq') and len(t['args']) == 2:
            a0 = show(f.expand(f.operand_tree(t['args'][0])))
            a1 = f.operand_tree(t['args'][1])
            if 'features' in a0 and a1[0] == 'str':
                arms.add(a1[1])
    if not feat:
        res.error('C20.1f', 'value_parser list of --features not found in clap\'s augment_args')
        return
    res.rule('C20.1f', 1)
    allowed = set(feat[0])
    if allowed != arms:
        res.violation('C20.1f', 'C20.1f|features', f, f.line, '--features accepts %s but main_result handles %s: an accepted value would hit unimplemented!()' % (sorted(allowed), sorted(arms)))
    else:
        res.sample({'rule': 'C20.1f', 'values': sorted(allowed)})
    # the value the exact-match arms see is the value clap validated: no argument modifier may relax the matching or
    # substitute another string (ignore_case, aliases, default_missing_value, env, delimiters ...)
    RELAX = re.compile(r'^clap(_builder)?::(builder::)?Arg::(ignore_case|alias|aliases|visible_alias|visible_aliases|short_alias|short_aliases|default_missing_value|default_missing_values|default_missing_value_os|default_value_if|default_value_ifs|env|env_os|value_delimiter|value_terminator|allow_hyphen_values|allow_negative_numbers|trailing_var_arg|last|raw)$')
    aug = [g for g in prog.crate('minidump_stackwalk').fns if re.search(r'<Cli as clap::Args>::augment_args(_for_update)?$', g.qual)]
    if not aug:
        res.error('C20.1f', 'clap-derived augment_args of Cli not found')
    for g in aug:
        res.rule('C20.1f', 1)
        for b, t in g.calls():
            n = g.callee(t) or ''
            if RELAX.search(n):
                res.violation('C20.1f', 'C20.1f|modifier|%s' % n.split('::')[-1], g, t.get('line'), 'an option of the CLI is declared with %s: clap then accepts / substitutes strings that the exact-match arms in main_result do not handle (an accepted --features spelling would hit unimplemented!())' % n.split('::')[-1])


def exit_rules(res, prog, c):
    res.rule('C20.2', 0, floor=6, note='every process::exit has status 1 and follows an error!/eprintln!')
    for f in c.fns:
        for b, t in f.calls():
            if f.callee(t) != 'std::process::exit':
                continue
            res.rule('C20.2', 1)
            code = f.expand(f.operand_tree(t['args'][0]))
            if code != ('int', 1):
                res.violation('C20.2', 'C20.2|code|%s' % f.qual, f, t.get('line'), 'process::exit(%s): failure status must be 1' % show(code))
            # a diagnostic on stderr dominates the exit
            ok = False
            for d in f.dom_chain(b):
                tt = f.blocks[d]['t']
                ch = mac_chain(tt)
                if any(m.split('::')[-1] in ('error!', 'eprintln!', 'eprint!') for m in ch):
                    ok = True
                    break
                if any(any(m.split('::')[-1] in ('error!', 'eprintln!', 'eprint!') for m in mac_chain(s)) for s in f.blocks[d]['s'] if s['k'] == 'assign'):
                    ok = True
                    break
            if not ok:
                res.violation('C20.2', 'C20.2|silent|%s' % f.qual, f, t.get('line'), 'process::exit not preceded by a diagnostic (error!/eprintln!)')
            else:
                res.sample({'rule': 'C20.2', 'fn': f.qual, 'line': t.get('line')})


def wiring(res, prog, f):
    def cn(t):
        """a tree's text with single-definition locals expanded; the parsed command line is called `cli` again"""
        import normal
        return show(normal.simplify(f.expand(t))).replace('(clap::Parser::parse)', 'cli')
    res.rule('C20.3', 0, floor=4, note='no failure exit is reachable after something was written to the primary output')
    res.rule('C20.4', 0, floor=5, note='the output writers are only handed to the library printers')
    res.rule('C20.5', 0, floor=5, note='each printer call is control-dependent on the option that selects it, with the right flag / writer')
    exits = [b for b, t in f.calls() if f.callee(t) == 'std::process::exit']
    KEEP = ('human', 'json', 'raw_dump', 'cli.brief', 'cli.pretty', 'cyborg')
    ex = PathExplorer(f, keep=lambda cond: any(w in show(cond) or w in cn(cond) for w in KEEP), track=[])
    ex.tracked = set()
    ex.run()
    if ex.truncated:
        res.error('C20.5', 'state budget exceeded in main_result')
        return
    read_path = [b for b, t in f.calls() if f.callee(t).endswith('Minidump::read_path')]
    seen = set()
    for b, t in f.calls():
        p = printer_name(f, t)
        args = [f.operand_tree(a) for a in t['args']]
        uses_writer = [writer_of(f, a) for a in args]
        if p is None:
            if any(u in WRITER_VARS for u in uses_writer):
                nm = f.callee(t)
                if re.search(r'(File::create|io::stdout|Option::map|Option::transpose|ops::Try|FromResidual|deref|Deref)', nm) or f.callee_decl(t).endswith('Try::branch'):
                    continue
                res.rule('C20.4', 1)
                res.violation('C20.4', 'C20.4|%s' % nm, f, t.get('line'), 'output writer passed to %s (only print / print_brief / print_json / print_minidump_dump may write the report)' % nm)
            continue
        seen.add(p)
        res.rule('C20.3', 1)
        res.rule('C20.4', 1)
        res.rule('C20.5', 1)
        # C20.3
        fwd = f.reachable_from(f.succ[b]) if f.succ[b] else set()
        bad = [e for e in exits if e in fwd]
        if bad:
            res.violation('C20.3', 'C20.3|%s' % p, f, t.get('line'), 'a process::exit(1) is reachable after %s wrote to the primary output' % p)
        # C20.5
        states = ex.states.get(b, set())
        def holds(pred):
            # conditions are compared after expanding single-definition locals: `let brief = cli.brief; if brief ..`
            return all(any(isinstance(v, bool) and (pred(show(c), v) or pred(cn(c), v)) for c, v in facts) for facts, env in states) and bool(states)
        problems = []
        if p == 'print_brief':
            if not holds(lambda c, v: c == 'human' and v):
                problems.append('not guarded by `human`')
            if not holds(lambda c, v: c == 'cli.brief' and v):
                problems.append('not guarded by cli.brief')
        elif p == 'print':
            if not holds(lambda c, v: c == 'human' and v):
                problems.append('not guarded by `human`')
            if not holds(lambda c, v: c == 'cli.brief' and not v):
                problems.append('not on the !cli.brief edge')
        elif p == 'print_json':
            if not holds(lambda c, v: c == 'json' and v):
                problems.append('not guarded by `json`')
            if cn(args[2]) != 'cli.pretty':
                problems.append('pretty flag is %s, not cli.pretty' % cn(args[2]))
            w = writer_of(f, args[1]) or show(args[1])
            cy = 'cyborg_output_f' in w
            has_some = all(any(('cyborg_output_f' in show(c)) and (v == 1 or v is True) for c, v in facts) for facts, env in states)
            if cy and not has_some:
                problems.append('cyborg writer used without the Some(..) match')
            if not cy and 'output' not in w:
                problems.append('unexpected writer %s' % w)
        elif p == 'print_minidump_dump':
            if not holds(lambda c, v: c == 'raw_dump' and v):
                problems.append('not guarded by `raw_dump`')
            if cn(args[2]) != 'cli.brief':
                problems.append('brief flag is %s, not cli.brief' % cn(args[2]))
        if p in ('print', 'print_brief', 'print_minidump_dump'):
            w = writer_of(f, args[1]) or show(args[1])
            if 'cyborg' in w or 'output' not in w:
                problems.append('human/dump report written to %s instead of the primary output' % w)
        if problems:
            res.violation('C20.5', 'C20.5|%s|%s' % (p, ';'.join(problems)), f, t.get('line'), '%s: %s' % (p, '; '.join(problems)))
        else:
            res.sample({'rule': 'C20.5', 'printer': p, 'states': len(states)})
    for p in ('print', 'print_brief', 'print_json', 'print_minidump_dump'):
        if p not in seen:
            res.error('C20.5', 'printer call %s not found in main_result' % p)
    # mode variables
    res.rule('C20.5v', 0, floor=3, note='definitions of the mode variables raw_dump / json / human')
    want = {
        'raw_dump': [lambda t, fs: show(t) == 'cli.dump'],
        'json': [lambda t, fs: show(t) == 'cli.json', lambda t, fs: t == ('int', 1) and any('cyborg' in x for x in fs)],
    }
    for name, preds in want.items():
        defs = []
        for l, ds in f.defs.items():
            if f.local_name(l) == name:
                for d in ds:
                    if d['kind'] == 'assign':
                        defs.append(d)
        if not defs:
            res.error('C20.5v', 'mode variable %s not found' % name)
            continue
        res.rule('C20.5v', 1)
        for d in defs:
            tree = f.rvalue_tree(d['rv'])
            fs = [show(r[1]) if len(r) > 1 else '' for r, g, s in panics.dominating_facts(f, d['bb']) if r[0] == 'true']
            if not any(p(tree, fs) for p in preds):
                res.violation('C20.5v', 'C20.5v|%s|%s' % (name, show(tree)), f, d['st'].get('line'), 'mode variable `%s` assigned %s (under %s)' % (name, show(tree), fs[:3]))
    # `human`: besides `human = true` under --cyborg, its value is !json && !raw_dump - as a truth table over
    # (cli.json, cli.dump), whatever boolean spelling and whatever temporaries the compiler introduced
    res.rule('C20.5v', 1)
    exh = PathExplorer(f, keep=lambda cond: any(w in cn(cond) for w in ('cli.json', 'cli.dump', 'cli.cyborg')), track='all')
    exh.run()

    def ev(t, val):
        if t[0] == 'int':
            return bool(t[1])
        if t[0] == 'un' and t[1] == 'Not':
            x = ev(t[2], val)
            return None if x is None else (not x)
        if t[0] == 'bin' and t[1] in ('BitAnd', 'BitOr'):
            a, b2 = ev(t[2], val), ev(t[3], val)
            if t[1] == 'BitAnd':
                return False if (a is False or b2 is False) else (None if (a is None or b2 is None) else True)
            return True if (a is True or b2 is True) else (None if (a is None or b2 is None) else False)
        return val.get(cn(t))
    hdefs = [(d['bb'], d) for l, ds in f.defs.items() if f.local_name(l) == 'human' for d in ds if d['kind'] == 'assign']
    if not hdefs:
        res.error('C20.5v', 'mode variable human not found')
    table = {}
    for bb, d in hdefs:
        for facts, env in exh.states.get(bb, ()):
            envd = exh.env_at_term(bb, env)
            val = {}
            for cnd, v in facts:
                if isinstance(v, bool):
                    e = f.expand(cnd)
                    neg = False
                    while e[0] == 'un' and e[1] == 'Not':
                        e, neg = e[2], not neg
                    val[show(e).replace('(clap::Parser::parse)', 'cli')] = (not v) if neg else v
            hl = [l for l in f.defs if f.local_name(l) == 'human']
            hv = envd.get(hl[0]) if hl else None
            if hv is None:
                continue
            cy = [v for k, v in val.items() if 'cli.cyborg' in k]
            if cy and cy[0] and hv == ('int', 1):
                continue    # the --cyborg override
            if any(isinstance(v, bool) and 'cli.cyborg' in cn(cnd) and v for cnd, v in facts):
                continue
            # atoms the path did not decide are enumerated: the value must be right for every completion
            import itertools
            und = [a for a in ('cli.json', 'cli.dump') if a not in val]
            for combo in itertools.product((False, True), repeat=len(und)):
                v2 = dict(val)
                v2.update(dict(zip(und, combo)))
                r = ev(hv, v2)
                table.setdefault((v2['cli.json'], v2['cli.dump']), set()).add(r)
    bad = []
    for (j, dmp), rs in table.items():
        exp = (not j) and (not dmp)
        for r in rs:
            if r is None or r != exp:
                bad.append('json=%s dump=%s -> human=%s' % (j, dmp, r))
    if bad or not table:
        res.violation('C20.5v', 'C20.5v|human|table', f, f.line, 'the default of `human` is not !json && !raw_dump: %s' % (bad or 'no definition explored'))
    # rejected combinations exit before the dump is read
    res.rule('C20.5r', 0, floor=2, note='--pretty without json and --brief without human/dump exit before Minidump::read_path')
    if read_path:
        rp = read_path[0]
        for e in exits:
            if rp in f.can_reach(e):
                continue  # exits after reading are the dump / processing failures
            facts = [r for r, g, s in panics.dominating_facts(f, e)]
            names = ' '.join(cn(r[1]) for r in facts if len(r) > 1 and isinstance(r[1], tuple))
            if 'cli.pretty' in names or 'cli.brief' in names:
                res.rule('C20.5r', 1)
                guards = [g for r, g, s in panics.dominating_facts(f, e) if len(r) > 1 and isinstance(r[1], tuple) and cn(r[1]) in ('cli.pretty', 'cli.brief')]
                if not all(f.dominates(g, rp) for g in guards):
                    res.violation('C20.5r', 'C20.5r|%s' % names[:80], f, f.blocks[e]['t'].get('line'), 'option check does not dominate Minidump::read_path')
    else:
        res.error('C20.5r', 'Minidump::read_path call not found')


def raw_dump(res, prog, c):
    """C20.6: the raw-dump mode prints every stream it reads, once.  (a) every stream type fetched with get_stream in
    print_minidump_dump has a print call of that type (or of the unified memory wrapper) and vice versa; (b) a stream held
    in an Option is only `take()`n lazily: the fallback of the unified memory list is taken inside the closure given to
    or_else, never as an eagerly evaluated argument (Option::or / unwrap_or / map_or), which would empty the Option and
    drop the taken stream whenever the preferred list is present."""
    res.rule('C20.6', 0, floor=20, note='raw dump: every fetched stream type is printed; Options holding streams are only emptied lazily')
    f = c.fn('minidump_stackwalk::print_minidump_dump')
    if f is None:
        res.error('C20.6', 'print_minidump_dump not found')
        return
    def base(ty):
        ty = re.sub(r"<.*$", '', ty or '')
        return ty.split('::')[-1]
    fetched = {}
    printed = {}
    for b, t in f.calls():
        n = f.callee(t) or ''
        if n == 'minidump::Minidump::get_stream':
            fetched.setdefault(base((t.get('targs') or ['', ''])[1]), t)
        elif n.endswith('::print') and n.startswith('minidump::'):
            printed.setdefault(n.split('::')[-2], t)
    for ty, t in sorted(fetched.items()):
        res.rule('C20.6', 1)
        if ty not in printed:
            res.violation('C20.6', 'C20.6|unprinted|%s' % ty, f, t.get('line'), 'stream %s is read for the raw dump but never printed' % ty)
    for ty, t in sorted(printed.items()):
        res.rule('C20.6', 1)
        if ty not in fetched and ty not in ('Minidump', 'UnifiedMemoryList'):
            res.violation('C20.6', 'C20.6|unfetched|%s' % ty, f, t.get('line'), '%s::print is called on something that was not fetched with get_stream' % ty)
    # (b) eager fallbacks that consume a stream
    EAGER = re.compile(r'(Option::(or|unwrap_or|map_or|xor|and|zip)|Result::(or|unwrap_or|and))$')
    takes = 0
    for g in c.fns:
        if not (g is f or g.qual.startswith(f.qual + '::{')):
            continue
        for b, t in g.calls():
            n = g.callee(t) or ''
            if n.endswith('Option::take') or n.endswith('mem::take') or n.endswith('mem::replace'):
                takes += 1
                res.rule('C20.6', 1)
            if EAGER.search(n):
                for a in t['args'][1:]:
                    tr = g.expand(g.operand_tree(a))
                    if contains(tr, lambda x: is_call(x, 'Option::take') or is_call(x, 'mem::take') or is_call(x, 'mem::replace')):
                        res.violation('C20.6', 'C20.6|eager-take|%s' % n.split('::')[-1], g, t.get('line'), '%s evaluates its fallback eagerly, and the fallback take()s a stream: when the preferred value is present the taken stream is dropped and never printed' % n)
    # the unified list is or_else(map(take(memory64_list), Memory64), || map(take(memory_list), Memory))
    um = [t for b, t in f.calls() if (f.callee(t) or '').endswith('Option::or_else') and 'UnifiedMemoryList' in str(t.get('targs'))]
    res.rule('C20.6', 1)
    ok = False
    if len(um) == 1:
        e = f.expand(f.call_tree(um[0]))
        ok = show(e[2]) == '(std::option::Option::map (std::option::Option::take memory64_list) (fnref minidump::UnifiedMemoryList::Memory64))' and e[3][0] == 'closure'
        if ok:
            g = c.fn(e[3][1])
            ok = g is not None and [show(g.expand(t2)) for (_, _, t2) in ret_assigns(g)] == ['(std::option::Option::map (std::option::Option::take memory_list) (fnref minidump::UnifiedMemoryList::Memory))']
    if not ok:
        res.violation('C20.6', 'C20.6|unified', f, f.line, 'the unified memory list is not memory64_list.take().map(Memory64).or_else(|| memory_list.take().map(Memory))')


UI_ONLY = {
    'human': 'the default mode: never read, it is what remains when neither --json nor --cyborg nor --dump is set',
    'verbose': 'logging level only',
    'no_color': 'terminal colouring of log lines only',
    'no_interactive': 'progress UI only',
}


def options_reach_library(res, prog, c):
    """C20.7: every option that shapes the report is consulted on every path that reaches the library: for each field
    of the clap `Cli` struct (except the UI-only ones) some read of it dominates the call of
    process_minidump_with_options.  An option read in only one arm of a branch is silently ignored on the other
    (seed: the positional symbol paths dropped whenever --symbols-path is given)."""
    res.rule('C20.7', 0, floor=15, note='every report-shaping Cli field has a read that dominates process_minidump_with_options')
    f = c.fn(MAIN)
    adt = c.adts.get('minidump_stackwalk::Cli')
    if f is None or adt is None:
        res.error('C20.7', 'main_result body or struct Cli not found')
        return
    fields = [x[0] for x in adt['variants'][0]['fields']]
    clis = [l for l in range(len(f.locals)) if (f.local_ty(l) or '').split('::')[-1] == 'Cli']
    proc = [b for b, t in f.calls() if (f.callee(t) or '').endswith('process_minidump_with_options')]
    if len(proc) != 1 or not clis:
        res.error('C20.7', 'expected one process_minidump_with_options call and a Cli local')
        return
    reads = {}

    def scan(x, b):
        if isinstance(x, dict):
            if 'l' in x and 'k' not in x and x['l'] in clis:
                for e in x.get('p') or []:
                    if isinstance(e, dict) and 'n' in e:
                        reads.setdefault(e['n'], set()).add(b)
                        break
            for v in x.values():
                scan(v, b)
        elif isinstance(x, list):
            for v in x:
                scan(v, b)
    for b in sorted(f.reach):
        for s_ in f.blocks[b]['s']:
            if s_['k'] == 'assign':
                scan(s_['rv'], b)
        scan(f.blocks[b]['t'], b)
    for fld in fields:
        if fld in UI_ONLY:
            continue
        res.rule('C20.7', 1)
        if not any(f.dominates(b, proc[0]) for b in reads.get(fld, ())):
            res.violation('C20.7', 'C20.7|%s' % fld, f, f.line, 'option field `%s` is %s: on some path to process_minidump_with_options it is ignored' % (fld, 'only read under a branch' if reads.get(fld) else 'never read'))


def diagnostics_channel(res, prog, c):
    """C20.2b: "exits with status 1 with a diagnostic on standard error".  The failure exits report through tracing's
    error!, so the diagnostic reaches standard error only if the subscriber writes there: every with_writer(..) of the
    subscriber set up in main_result must be std::io::stderr."""
    res.rule('C20.2b', 0, floor=2, note='the tracing subscriber that carries the failure diagnostics writes to standard error')
    f = c.fn(MAIN)
    if f is None:
        res.error('C20.2b', 'main_result body not found')
        return
    for b, t in f.calls():
        if (f.callee(t) or '').endswith('SubscriberBuilder::with_writer'):
            res.rule('C20.2b', 1)
            w = f.expand(f.operand_tree(t['args'][1]))
            if w != ('fnref', 'std::io::stderr'):
                opt = 'log_file' if 'log_file' in show(w) else '?'
                res.violation('C20.2b', 'C20.2b|%s' % opt, f, t.get('line'), 'with --%s the subscriber writes to %s: a run that fails (exit status 1 after error!) leaves standard error empty' % (opt.replace('_', '-'), show(w)[:100]))


def distinct_paths(res, prog, c):
    """C20.9: "never ends by panic, abort or signal".  The minidump is memory-mapped and the report files are opened with
    File::create, which truncates: if --output-file or --cyborg names the minidump itself the mapping loses its pages and
    the process dies by SIGBUS (and if the two report options name one file, one report overwrites the other).  The
    destinations must be compared with the input path (and with each other) before they are opened."""
    res.rule('C20.9', 0, floor=1, note='report destinations are checked against the minidump path and each other before File::create')
    f = c.fn(MAIN)
    if f is None:
        res.error('C20.9', 'main_result body not found')
        return
    creates = [(b, t) for b, t in f.calls() if f.callee(t) in ('std::fs::File::create', 'std::fs::File::create_new') and re.search(r'\.(output_file)\b', show(f.expand(f.call_tree(t))))]
    res.rule('C20.9', 1)
    compared = False
    for b in sorted(f.reach):
        t = f.blocks[b]['t']
        if t['k'] == 'call':
            n = f.callee(t) or ''
            if re.search(r'PartialEq.*::(eq|ne)$|fs::canonicalize$|same_file', n):
                a = show(f.expand(f.call_tree(t)))
                if ('output_file' in a or 'cyborg' in a) and ('minidump' in a or 'output_file' in a and 'cyborg' in a):
                    compared = True
    if creates and not compared:
        res.violation('C20.9', 'C20.9|same-path', f, creates[0][1].get('line'), 'the report file is created (truncated) without comparing its path with the memory-mapped minidump: `--output-file x.dmp x.dmp` kills the process with SIGBUS and destroys the input; `--cyborg p --output-file p` loses one report')


def feature_defaults(res, prog, c):
    """C20.7b: the option set picked by --features is the library's, and a command-line flag can only add to it.  After
    `options = ProcessorOptions::stable_basic() / stable_all() / unstable_all()`, a boolean feature field is written only
    as `options.f | cli.f` (never plainly overwritten with the flag, which is false when absent and would switch off
    what the feature set enabled)."""
    res.rule('C20.7b', 0, floor=1, note='boolean ProcessorOptions fields set by --features are only OR-ed with their flags')
    f = c.fn(MAIN)
    if f is None:
        res.error('C20.7b', 'main_result body not found')
        return
    pc = prog.crate('minidump_processor')
    adt = pc.adts.get('minidump_processor::processor::ProcessorOptions') or pc.adts.get('minidump_processor::ProcessorOptions')
    bools = [x[0] for x in adt['variants'][0]['fields'] if x[1] == 'bool'] if adt else []
    if not bools:
        res.error('C20.7b', 'no boolean field found in ProcessorOptions')
    for fld in bools:
        for (pb, pi, place, rv) in part_assigns(f, fld):
            if not show(place).startswith('options.'):
                continue
            res.rule('C20.7b', 1)
            v = show(rv)
            if not re.match(r'^\(BitOr options\.%s cli\.%s\)$|^\(BitOr cli\.%s options\.%s\)$' % (fld, fld, fld, fld), v) and v not in ('1',):
                res.violation('C20.7b', 'C20.7b|%s|overwrite' % fld, f, f.blocks[pb]['s'][pi].get('line'), 'options.%s is overwritten with %s after the --features defaults were picked: without the flag the feature set\'s `true` is lost and the report differs from the library\'s for the same options' % (fld, v[:80]))


def destinations(res, prog, c):
    """C20.8: the report destinations are files that hold nothing but this run's report.  In the whole binary a file is
    opened for writing only by File::create / File::create_new (called or passed as a function value) - or through an
    OpenOptions chain that truncates / insists on a new file and does not append; `--output-file` and `--cyborg` are
    opened exactly that way."""
    res.rule('C20.8', 0, floor=4, note='files are opened for writing only truncated or new: File::create[_new], or OpenOptions with truncate(true)/create_new(true) and no append')
    created = []
    for f in c.fns:
        if f.mac and f.mac.startswith('derive('):
            continue
        names = [f.callee(t) for b, t in f.calls()]
        # function values (`.map(File::create)`)
        refs = []
        for b in sorted(f.reach):
            for s_ in f.blocks[b]['s']:
                if s_['k'] == 'assign':
                    for n in walk(f.rvalue_tree(s_['rv'])):
                        if isinstance(n, tuple) and n and n[0] == 'fnref':
                            refs.append((n[1], s_.get('line'), f.rvalue_tree(s_['rv'])))
            t = f.blocks[b]['t']
            if t['k'] == 'call':
                for n in walk(f.call_tree(t)):
                    if isinstance(n, tuple) and n and n[0] == 'fnref':
                        refs.append((n[1], t.get('line'), f.call_tree(t)))
        for b, t in f.calls():
            n = f.callee(t)
            if n in ('std::fs::File::create', 'std::fs::File::create_new'):
                res.rule('C20.8', 1)
                created.append(show(f.expand(f.call_tree(t))))
            elif re.search(r'std::fs::(OpenOptions::open|File::options|File::open_buffered)$', n) or n == 'std::fs::OpenOptions::open':
                res.rule('C20.8', 1)
                chain = show(f.expand(f.operand_tree(t['args'][0])))
                fresh = re.search(r'OpenOptions::(truncate|create_new) [^)]*\) 1\)', chain) or re.search(r'OpenOptions::(truncate|create_new) .* 1\)', chain)
                writes = 'OpenOptions::write' in chain or 'OpenOptions::append' in chain or 'OpenOptions::create' in chain
                if writes and (not fresh or 'OpenOptions::append' in chain):
                    res.violation('C20.8', 'C20.8|open|%s' % f.qual, f, t.get('line'), 'a file is opened for writing without truncation (%s): what an earlier run left there would follow this run\'s report' % chain[:200])
            elif re.search(r'std::fs::(write|copy|rename|hard_link)$', n):
                res.rule('C20.8', 1)
                res.violation('C20.8', 'C20.8|fs|%s' % f.qual, f, t.get('line'), 'the binary writes files through %s; report destinations are only File::create(..) handles given to the library printers' % n)
        for n, ln, tree in refs:
            n = strip_generics(n)
            if n in ('std::fs::File::create', 'std::fs::File::create_new'):
                res.rule('C20.8', 1)
                created.append(show(f.expand(tree)))
            elif re.search(r'std::fs::(OpenOptions::open|File::options|File::open)$', n):
                res.rule('C20.8', 1)
                res.violation('C20.8', 'C20.8|open-ref|%s' % f.qual, f, ln, '%s is used as a function value to open a file' % n)
    for opt in ('output_file', 'cyborg'):
        res.rule('C20.8', 1)
        if not any(re.search(r'\.%s\b' % opt, x) for x in created):
            res.violation('C20.8', 'C20.8|dest|%s' % opt, c.fn(MAIN), None, '--%s is not opened through File::create (seen: %s)' % (opt.replace('_', '-'), [x[:80] for x in created]))


def run(tier, t0):
    res = harness.Result(PID)
    prog = program()
    c = prog.crate('minidump_stackwalk')
    fns, derived = totality.in_scope_fns(prog, ['minidump_stackwalk'])
    nontrivial = totality.run_panics(res, prog, fns, 'C20.1', floor_sites=30)
    if tier == 'thorough':
        totality.clippy_crosscheck(res, prog, fns, 'C20.1')
    f = need_fn(res, c, MAIN, 'C20.0')
    if f is not None:
        features_table(res, prog, f)
        wiring(res, prog, f)
    exit_rules(res, prog, c)
    raw_dump(res, prog, c)
    options_reach_library(res, prog, c)
    diagnostics_channel(res, prog, c)
    distinct_paths(res, prog, c)
    feature_defaults(res, prog, c)
    destinations(res, prog, c)
    # backing rule for the stats getters (C20.subscriptions)
    res.rule('C20.subscriptions', 0, floor=2, note='stat getters used by the CLI are the ones it subscribed to')
    if f is not None:
        subs = set()
        for (b, i, place, rv) in part_assigns(f, 'frame_count') + part_assigns(f, 'thread_count') + part_assigns(f, 'new_walked_frames') + part_assigns(f, 'unwalked_result'):
            if rv == ('int', 1):
                subs.add(place[2])
        used = set()
        for g in c.fns:
            for b, t in g.calls():
                m = re.search(r'PendingProcessorStats::(get_thread_count|get_frame_count|drain_new_frames|take_unwalked_result)$', g.callee(t))
                if m:
                    used.add({'get_thread_count': 'thread_count', 'get_frame_count': 'frame_count', 'drain_new_frames': 'new_walked_frames', 'take_unwalked_result': 'unwalked_result'}[m.group(1)])
        res.rule('C20.subscriptions', len(used))
        if not used <= subs:
            res.violation('C20.subscriptions', 'C20.subscriptions', f, f.line, 'stats getters %s used but only %s subscribed' % (sorted(used), sorted(subs)))
    res.assumptions += [
        'clap rejects values outside value_parser lists and the ArgGroup conflicts before main_result runs (clap is trusted)',
        'byte equality of the written report with the library\'s output is implied by C20.4/C20.5 (same call, same writer), not checked on values',
        'stdout/stderr write errors other than BrokenPipe surface as io::Error -> exit 1 through main',
    ]
    return harness.finish(res, tier, t0, distinct=len(nontrivial) + 8, explanation=(
        'Panic-edge inventory over the minidump-stackwalk binary, agreement between the --features value_parser list and the handled arms, '
        'exit discipline (constant status 1 after a diagnostic; no failure exit reachable after a printer call), who may receive the output '
        'writers, and path-sensitive control dependence of each printer call on the option that selects it.'))
