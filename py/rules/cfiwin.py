"""shared extraction for C06 / C07: operator tables of the two postfix evaluators"""
from .common import *
import panics

WALKER = 'breakpad_symbols::sym_file::walker::'


def tok_eq(cond, var='token'):
    return cond[0] == 'call' and cond[1] == 'core::str::traits::eq' and len(cond) == 4 and cond[3][0] == 'str' and show(cond[2]) == var


def operator_table(f, stack_var='stack', token_var='token'):
    """token literal -> dict(pushes=[tree], pops=[(name, def_bb)], none=bool, guards=[relations], other=[call names])
    extracted path-sensitively from the `match token { "lit" => .. }` chain"""
    ex = PathExplorer(f, keep=lambda c: tok_eq(c, token_var), track=[])
    ex.tracked = set()
    ex.run()
    table = {}

    def arm_of(facts):
        lits = [c[3][1] for c, v in facts if v is True]
        if len(lits) == 1:
            return lits[0]
        if not lits:
            return '<default>'
        return None
    for b in sorted(f.reach):
        states = ex.states.get(b, ())
        if not states:
            continue
        arms = set(arm_of(facts) for facts, env in states)
        arms.discard(None)
        if len(arms) != 1:
            continue  # shared blocks (loop header, exits)
        arm = next(iter(arms))
        # only blocks that are specific to the arm: dominated by the arm's true edge
        e = table.setdefault(arm, {'pushes': [], 'pops': [], 'none': False, 'calls': [], 'blocks': set(), 'some_ret': []})
        e['blocks'].add(b)
        t = f.blocks[b]['t']
        if t['k'] == 'call':
            nm = f.callee(t)
            if nm == 'std::vec::Vec::push' and show(f.operand_tree(t['args'][0])) == stack_var:
                e['pushes'].append((b, f.operand_tree(t['args'][1])))
            elif nm == 'std::vec::Vec::pop' and show(f.operand_tree(t['args'][0])) == stack_var:
                e['pops'].append(b)
            else:
                e['calls'].append((b, nm, t))
        for s in f.blocks[b]['s']:
            if s['k'] == 'assign' and s['lhs']['l'] == 0 and not s['lhs'].get('p'):
                tr = f.rvalue_tree(s['rv'])
                if 'Option::None' in show(tr):
                    e['none'] = True
                else:
                    e['some_ret'].append(tr)
    return table, ex


def var_def_block(f, tree):
    if tree[0] == 'var' and isinstance(tree[2], int):
        sd = f.single_def(tree[2])
        if sd is not None:
            return sd['bb']
    return None


def from_pop(f, tree, stack_var='stack'):
    """does the variable's single definition derive from stack.pop()? (possibly through `?` and into_int(..)?)"""
    t = f.expand(tree)
    return contains(t, lambda x: is_call(x, 'std::vec::Vec::pop') and show(x[2]) == stack_var)


def binary_shape(f, pushed, wrap=None):
    """(op callee, ok, why) for a pushed `lhs.op(rhs)` value; checks operand names and pop order"""
    t = pushed
    if wrap and t[0] == 'adt' and t[1].endswith(wrap) and len(t) == 3:
        t = t[2]
    te = t
    if te[0] == 'var':
        # a result bound to a name first (`let quotient = lhs.checked_div(rhs)?;`): look through that one name only, so
        # that lhs / rhs stay names
        hops = 0
        while te[0] == 'var' and te[1] not in ('lhs', 'rhs') and isinstance(te[2], int) and hops < 4:
            sd0 = f.single_def(te[2])
            if sd0 is None or sd0['kind'] != 'assign':
                break
            te = f.rvalue_tree(sd0['rv'])
            hops += 1
        if te[0] == 'var':
            te = f.expand(te)
    # `lhs.checked_div(rhs)?` / `checked_rem`: on unsigned operands the checked form fails exactly when rhs == 0 and equals
    # the wrapping form otherwise, so under `?` it is the operator *and* its zero guard
    if te[0] == 'vfield' and te[1] in ('Continue', 'Some') and str(te[2]) == '0' and isinstance(te[3], tuple):
        inner = te[3][1] if te[3][0] == 'trybranch' else te[3]
        if isinstance(inner, tuple) and inner[0] == 'call' and re.search(r'core::num::checked_(div|rem)$', inner[1]) and len(inner) == 4:
            te = ('call', inner[1].replace('checked_', 'wrapping_') + '#checked', inner[2], inner[3])
    if te[0] == 'call' and len(te) == 4:
        op = te[1]
        a, b = te[2], te[3]
    elif te[0] == 'bin':
        op = te[1]
        a, b = te[2], te[3]
    else:
        return None, False, 'not a binary operation: %s' % show(te)[:100]
    if not (a[0] == 'var' and a[1] == 'lhs' and b[0] == 'var' and b[1] == 'rhs'):
        if op == 'BitAnd' and a[0] == 'var' and a[1] == 'lhs':
            pass
        else:
            return op, False, 'operands are (%s, %s), expected (lhs, rhs)' % (show(a), show(b))
    da = var_def_block(f, a)
    if b[0] == 'var' and b[1] != 'rhs':
        sd = f.single_def(b[2])      # a mask bound to a name first (`let align_mask = !(rhs - 1)`): one level only
        if sd is not None and sd['kind'] == 'assign':
            b = f.rvalue_tree(sd['rv'])
    def find_rhs(tree, depth=2):
        for x in walk(tree):
            if isinstance(x, tuple) and x and x[0] == 'var' and x[1] == 'rhs':
                return x
        if depth:
            for x in walk(tree):
                if isinstance(x, tuple) and x and x[0] == 'var' and len(x) == 3 and isinstance(x[2], int):
                    sd2 = f.single_def(x[2])     # `let low_bits = rhs - 1;` named first
                    if sd2 is not None and sd2['kind'] == 'assign':
                        r = find_rhs(f.rvalue_tree(sd2['rv']), depth - 1)
                        if r is not None:
                            return r
        return None
    rhs_var = b if b[0] == 'var' else find_rhs(b)
    db = var_def_block(f, rhs_var) if rhs_var else None
    if da is None or db is None:
        return op, False, 'lhs / rhs are not single-definition variables'
    if not (from_pop(f, a) and from_pop(f, rhs_var)):
        return op, False, 'lhs / rhs do not come from stack.pop()'
    if not (f.dominates(db, da) and db != da):
        return op, False, 'rhs is not popped before lhs'
    return op, True, ''


def guard_facts(f, b):
    return [r for r, g, s in panics.dominating_facts(f, b)]
