"""C01 — reading a minidump is total: no panic, hang or runaway allocation."""
from .common import *
from . import totality

PID = 'C01'


# ------------------------------------------------------------------ C01.6 degree of retained memory
OWNED_LEAF = re.compile(r'(String::from_utf8(_lossy)?$|::to_owned$|::to_vec$|::to_string$|decode_without_bom_handling\w*$|::into_owned$|^std::string::String::from$'
                        r'|slice::<impl \[T\]>::to_vec$|Iterator::collect$|^std::vec::from_elem$|Vec::extend_from_slice$|String::push_str$)')
GROW_LEAF = re.compile(r'(std::vec::Vec::push$|std::collections::\w+::insert$|std::collections::btree_map::\w+::insert$|std::vec::Vec::extend$|Vec::insert$)')
ITER_ADAPTOR = re.compile(r'Iterator::(map|filter_map|flat_map|for_each|fold|filter|take_while|map_while|scan|inspect|find_map)$')
# loops whose trip count is bounded by a constant of the format, not by the file (one line of reason each)
CONST_LOOPS = {
    "<minidump::MinidumpMacCrashInfo as minidump::MinidumpStream<'_>>::read": 'iterates header.records, a fixed array of 8 location descriptors, and 0..num_strings() of the record layout (at most 6)',
}


def memory_degree(res, prog):
    """C01.6: "memory use is at most quadratic in the input size".  Every stream reader gets a degree: a copy of
    file-controlled length (a String / Vec made from file bytes) counts 1, a container grown once per iteration counts 0,
    and each enclosing loop whose trip count comes from the file - in the reader or in any function between it and the
    copy, following calls and iterator-chain closures - adds 1.  Bytes are located through RVAs that the file chooses,
    so nothing prevents every iteration from citing the same bytes: the degree is the exponent of the memory bound.
    It must not exceed 2."""
    res.rule('C01.6', 0, floor=20, note='degree of retained memory per stream reader (loops from the file around copies of file-controlled length) is at most 2')
    fns = {}
    for cn in ('minidump', 'minidump_common'):
        for f in prog.crate(cn).fns:
            fns[f.path] = f
    memo = {}

    def callee_fn(t):
        return fns.get(t.get('fn')) or fns.get(strip_generics(t.get('fn') or ''))

    def deg(f, stack=()):
        if f.path in memo:
            return memo[f.path]
        if f.path in stack:
            return (0, [])
        stack = stack + (f.path,)
        loops = {} if f.path in CONST_LOOPS else f.loops()

        def k_of(b):
            return sum(1 for h, body in loops.items() if b in body)
        best = (0, [])
        in_chain = set()
        for b, t in f.calls():
            d = strip_generics(t.get('decl') or t.get('fn') or '')
            if ITER_ADAPTOR.search(d):
                for a in t['args']:
                    for n in walk(f.expand(f.operand_tree(a))):
                        if isinstance(n, tuple) and n and n[0] == 'closure':
                            in_chain.add(n[1])
        for b, t in f.calls():
            n = f.callee(t) or ''
            k = k_of(b)
            g = callee_fn(t)
            cand = None
            if g is not None and g.kind in ('fn', 'method') and not (g.mac and g.mac.startswith('derive(')):
                d, path = deg(g, stack)
                if path:
                    cand = (k + d, ['%s [%d loop(s)] calls' % (f.path, k)] + path)
            elif OWNED_LEAF.search(n) and re.search(r'String|Vec<|Cow<', t.get('rty') or 'String'):
                cand = (k + 1, ['%s [%d loop(s)] copies via %s' % (f.path, k, n.split('::')[-1])])
            elif GROW_LEAF.search(n) and k:
                cand = (k, ['%s [%d loop(s)] grows a container' % (f.path, k)])
            if cand and cand[0] > best[0]:
                best = cand
        for b in sorted(f.reach):
            for s_ in f.blocks[b]['s']:
                if s_['k'] == 'assign' and s_['rv']['k'] == 'agg' and s_['rv'].get('ak') == 'closure':
                    g = fns.get(s_['rv'].get('def'))
                    if g is None:
                        continue
                    d, path = deg(g, stack)
                    if not path:
                        continue
                    k = k_of(b) + (1 if g.path in in_chain else 0)
                    cand = (k + d, ['%s [%d loop(s)%s] runs closure' % (f.path, k_of(b), ', iterator chain' if g.path in in_chain else '')] + path)
                    if cand[0] > best[0]:
                        best = cand
        memo[f.path] = best
        return best
    n = 0
    for pth, f in sorted(fns.items()):
        if not re.search(r"as minidump::MinidumpStream<'.*>>::read$", pth):
            continue
        n += 1
        res.rule('C01.6', 1)
        d, path = deg(f)
        if d > 2:
            res.violation('C01.6', 'C01.6|degree|%s' % re.sub(r"<'\w+>|<'_>", '', pth), f, f.line, 'retained memory of degree %d in the input size: %s' % (d, ' -> '.join(path)[:700]))
        else:
            res.sample({'rule': 'C01.6', 'reader': pth[:90], 'degree': d}) if len(res.samples) < 40 else None
    if n < 20:
        res.error('C01.6', 'only %d stream readers found' % n)
    res.extra['const_bounded_loops_reviewed'] = CONST_LOOPS


def run(tier, t0):
    res = harness.Result(PID)
    prog = program()
    fns, derived = totality.in_scope_fns(prog, ['minidump', 'minidump_common'])
    sw = prog.crate('minidump_stackwalk')
    extra = [f for f in sw.fns if f.path.startswith('minidump_stackwalk::print_minidump_dump')]
    if not extra:
        res.error('C01.0', 'anchor print_minidump_dump not found in minidump_stackwalk')
    fns += extra
    nontrivial = totality.run_panics(res, prog, fns, 'C01.1', floor_sites=900)
    if tier == 'thorough':
        totality.clippy_crosscheck(res, prog, fns, 'C01.1')
    totality.run_loops(res, prog, fns, 'C01.2', floor_l3=2)
    totality.run_allocs(res, prog, fns, 'C01.3', floor=12)
    memory_degree(res, prog)
    res.extra['derive_generated_functions_skipped'] = derived
    res.assumptions += [
        'usize is 64 bits wide (interval rule D2)',
        'dependencies (scroll, encoding_rs, num-traits, debugid, range-map, time, procfs-core, uuid) are covered only through the panicking-API table; their internals are not analysed',
        'code generated by derive macros and by third-party macro_rules (bitflags!, scroll derives) is trusted as part of the dependency; listed under third_party_macros_trusted',
        'a std Mutex is only poisoned by a previous panic, which the same inventory excludes',
        'table entries (py/tables/panic_table.json, loop_table.json) are reviewed arguments, one per site key; entries with a `backing` name the rule that checks the code they rest on',
    ]
    return harness.finish(res, tier, t0, distinct=len(nontrivial), explanation=(
        'Static inventory of every panic edge (MIR Assert terminators for overflow / bounds / division and calls to panicking '
        'APIs) in all non-derive functions of crates minidump and minidump-common plus print_minidump_dump; each edge is discharged '
        'by constant folding (D1), type-history intervals (D2), a dominating guard on the same expression trees (D3/D4), a known '
        'idiom (D5-D9), trusted third-party macro text (M) or a reviewed table entry (T); every natural loop is iterator-driven over a '
        'finite std source, an await loop, or has a reviewed variant; every allocation size is a constant, a len() of existing data or '
        'the payload of ensure_count_in_bound. Holds for every input byte string because it quantifies over code paths, not inputs. '
        'Does not decide panics inside dependencies or a numeric memory bound.'))
