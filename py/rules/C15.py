"""C15 — JSON output is valid, schema-conformant and self-consistent (structural clauses)."""
from .common import *
import jsonkeys, panics

PID = 'C15'
PJ = 'minidump_processor::process_state::ProcessState::print_json'
# emitted but not in json-schema.md: a reviewed documentation gap (the document promises backwards-compatible additions)
UNDOCUMENTED = {('proc_limits',), ('proc_limits', 'limits'), ('proc_limits', 'limits', 'name'), ('proc_limits', 'limits', 'soft'),
                ('proc_limits', 'limits', 'hard'), ('proc_limits', 'limits', 'unit')}


def hexish(c, f, tree, ty, depth=0):
    s = show(tree)
    if 'json_hex' in s or (ty and 'process_state::Address' in ty):
        return True
    if 'fmt::format' in s:
        return True
    if depth < 3:
        for x in walk(tree):
            if isinstance(x, tuple) and x and x[0] in ('closure', 'fnref'):
                g = c.fn(x[1])
                if g is not None:
                    for (b, i, t) in ret_assigns(g):
                        if hexish(c, g, g.expand(t), None, depth + 1):
                            return True
    return False


def str_returns(f):
    out = set()
    for (b, i, t) in ret_assigns(f):
        for x in walk(f.expand(t)):
            if isinstance(x, tuple) and x and x[0] == 'str':
                out.add(x[1])
    return out


def display_strings(prog, crate_name, type_suffix):
    """string literals written by the Display impl of a type (write!(f, "lit") arms)"""
    c = prog.crate(crate_name)
    out = set()
    for f in c.fns:
        if f.path.endswith('as std::fmt::Display>::fmt') and type_suffix in f.path:
            for b, t in f.calls():
                for a in t['args']:
                    for x in walk(f.expand(f.operand_tree(a))):
                        if isinstance(x, tuple) and x and x[0] == 'str':
                            out.add(x[1])
            for b in f.reach:
                for s in f.blocks[b]['s']:
                    if s['k'] == 'assign':
                        for x in walk(f.rvalue_tree(s['rv'])):
                            if isinstance(x, tuple) and x and x[0] == 'str':
                                out.add(x[1])
    return out


def pointer_width_context(res, prog, c, rid):
    """set_print_context stores this state's pointer width unconditionally into the thread-local that Address's
    Display reads, and is its only writer (shared by C15.3b and C13.6: a width left by an earlier report on the same
    thread would make identical inputs print differently)"""
    # ---- C15.3b set_print_context overwrites the thread-local width with *this* state's width, unconditionally,
    #      and Address's Display reads that same thread-local; nothing else writes it
    res.rule(rid, 0, floor=3, note='set_print_context stores Some(self.system_info.cpu.pointer_width()) unconditionally; Address::fmt reads it; no other writer')
    spc = c.fn('minidump_processor::process_state::ProcessState::set_print_context')
    cl = c.fn('minidump_processor::process_state::ProcessState::set_print_context::{closure#0}')
    if spc is None or cl is None:
        res.error(rid, 'set_print_context / its closure not found')
    else:
        res.rule(rid, 1)
        withs = [t for b, t in spc.calls() if (spc.callee(t) or '').endswith('LocalKey::with') and 'SERIALIZATION_CONTEXT' in show(spc.expand(spc.call_tree(t)))]
        if len(withs) != 1:
            res.violation(rid, rid + '|with', spc, spc.line, 'set_print_context does not enter SERIALIZATION_CONTEXT.with(..) exactly once')
        stores = [(b, i, pl, rv) for (b, i, pl, rv) in part_assigns(cl, 'pointer_width')]
        ok = len(stores) == 1
        if ok:
            b, i, pl, rv = stores[0]
            e = show(cl.expand(rv))
            ok = e == '(adt std::option::Option::Some (minidump::system_info::Cpu::pointer_width self.system_info.cpu))'
            bdefs = [d for d in cl.defs.get(cl.blocks[b]['s'][i]['lhs']['l'], []) if d['kind'] == 'call']
            bt = show(cl.expand(cl.call_tree(bdefs[0]['term']))) if len(bdefs) == 1 else ''
            borrows = [t for _, t in cl.calls() if (cl.callee(t) or '').endswith('RefCell::borrow_mut') and show(cl.expand(cl.operand_tree(t['args'][0]))) in ('ctx', '(* ctx)')]
            ok = ok and 'deref_mut' in bt and len(borrows) == 1
            # on every path through the closure
            exits = [x for x in cl.reach if cl.blocks[x]['t']['k'] == 'return']
            ok = ok and all(cl.dominates(b, x) for x in exits)
        if not ok:
            res.violation(rid, rid + '|store', cl, cl.line, 'set_print_context does not unconditionally store Some(self.system_info.cpu.pointer_width()) into the thread-local context: %s' % '; '.join(show(cl.expand(rv))[:120] for (_, _, _, rv) in stores) or 'no store')
        for b, t in cl.calls():
            n = cl.callee(t) or ''
            if re.search(r'Option::(get_or_insert|get_or_insert_with|insert|replace|take|or_insert)', n):
                res.violation(rid, rid + '|conditional|%s' % n.split('::')[-1], cl, t.get('line'), 'the thread-local pointer width is updated through %s (keeps a value left by an earlier report on this thread)' % n)
    writers = 0
    for g in c.fns:
        if g.mac and g.mac.startswith('derive('):
            continue
        for (b, i, pl, rv) in part_assigns(g, 'pointer_width'):
            if 'SerializationContext' in (g.local_ty(g.blocks[b]['s'][i]['lhs']['l']) or ''):
                writers += 1
                if g is not cl:
                    res.violation(rid, rid + '|writer|%s' % g.qual, g, g.line, 'the thread-local pointer width is also written by %s' % g.qual)
    res.rule(rid, max(writers, 0))
    disp = [g for g in c.fns if re.search(r'process_state::Address as std::fmt::Display>::fmt(::\{closure#0\})?$', g.qual)]
    res.rule(rid, len(disp))
    if not any('SERIALIZATION_CONTEXT' in show(g.expand(g.call_tree(t))) for g in disp for b, t in g.calls()):
        res.violation(rid, rid + '|reader', None, None, 'Address::fmt does not read SERIALIZATION_CONTEXT', file='minidump-processor/src/process_state.rs')


def run(tier, t0):
    res = harness.Result(PID)
    prog = program()
    c = prog.crate('minidump_processor')
    f = need_fn(res, c, PJ, 'C15.1')
    docp = os.path.join(harness.REPO, 'minidump-processor', 'json-schema.md')
    if f is None or not os.path.exists(docp):
        res.error('C15.1', 'print_json or json-schema.md not found')
        return harness.finish(res, tier, t0, explanation='anchors missing')
    code = jsonkeys.code_key_tree(c, f)
    leaf_src = code.pop('__leaf_src__')
    doc = jsonkeys.doc_key_tree(open(docp).read())
    # ---- normalisation of the crashing_thread copy (checked structurally under C15.4)
    cp = set(code)
    posthoc = {p for p in cp if p in (('registers',), ('threads_index',))}
    cp -= posthoc
    derived = set()
    for p in list(cp):
        if p and p[0] == 'threads':
            derived.add(('crashing_thread',) + p[1:])
    if ('registers',) in posthoc:
        derived |= {('threads', 'frames', 'registers'), ('crashing_thread', 'frames', 'registers')}
    if ('threads_index',) in posthoc:
        derived.add(('crashing_thread', 'threads_index'))
    cp |= derived
    dp = {p for p in doc if 'some_register_name' not in p}
    res.rule('C15.1', len(cp | dp), floor=120, note='object-key tree written by print_json (json! expansions, map["k"] = .., inserts, serde-derived structs) vs the key tree of json-schema.md, both directions')
    for p in sorted(cp - dp):
        if p in UNDOCUMENTED:
            continue
        if p and p[0] == 'crashing_thread':
            continue  # the document lists this copy only partially ("the rest of the fields are the same as they are in `threads`")
        res.violation('C15.1', 'C15.1|undocumented|%s' % '.'.join(p), f, f.line, 'key `%s` is emitted but not in json-schema.md' % '.'.join(p))
    for p in sorted(dp - cp):
        res.violation('C15.1', 'C15.1|unemitted|%s' % '.'.join(p), f, f.line, 'json-schema.md documents `%s` but print_json cannot emit it' % '.'.join(p))
    res.extra['undocumented_keys_reviewed'] = sorted('.'.join(p) for p in UNDOCUMENTED if p in cp)
    res.sample({'rule': 'C15.1', 'code_paths': len(cp), 'doc_paths': len(dp), 'example': ['.'.join(p) for p in sorted(cp)[:5]]})
    # ---- C15.2 hex strings and enumerations
    res.rule('C15.2', 0, floor=24, note='<hexstring> keys come from json_hex / Address / format; documented enumeration values are producible')
    for p, vals in sorted(doc.items()):
        if '<hexstring>' in vals and p and p[0] != 'crashing_thread' and 'some_register_name' not in p:
            res.rule('C15.2', 1)
            srcs = leaf_src.get(p, [])
            if p[-1] in ('address',) and p[:2] == ('crash_info', 'possible_bit_flips'):
                adt = c.adts.get('minidump_processor::process_state::PossibleBitFlip')
                ok = adt and dict((a, b) for a, b in adt['variants'][0]['fields']).get('address', '').endswith('Address')
            elif p == ('system_info', 'os'):
                ok = True  # documented as a name or, for unknown ids, a hex string: checked with the enumeration below
            else:
                ok = bool(srcs) and all(hexish(c, g, t, ty) for g, t, ty in srcs)
            if not ok:
                res.violation('C15.2', 'C15.2|hex|%s' % '.'.join(p), f, f.line, '`%s` is documented <hexstring> but is built from %s' % ('.'.join(p), [show(t)[:100] for g, t, ty in srcs][:2]))
    # Address serialises through its Display impl
    res.rule('C15.2', 1)
    ser = [g for g in c.fns if re.search(r'Serialize for process_state::Address>::serialize$', g.path)]
    def into_string(g):
        for b, t in g.calls():
            if g.callee_decl(t).endswith('convert::Into::into') or g.callee(t).endswith('Into<U>>::into'):
                ta = t.get('targs') or []
                if len(ta) >= 2 and ta[0].endswith('process_state::Address') and ta[1] == 'std::string::String':
                    return True
        return False
    fs = c.fn('minidump_processor::process_state::<impl std::convert::From<process_state::Address> for std::string::String>::from')
    disp = fs is not None and any(fs.callee_decl(t).endswith('ToString::to_string') for b, t in fs.calls())
    if not ser or not any(into_string(g) for g in ser) or not disp:
        res.violation('C15.2', 'C15.2|address-ser', None, None, 'Address is not serialised through String::from(Address) (serde(into = "String"))', file='minidump-processor/src/process_state.rs')
    enums = {
        ('threads', 'frames', 'trust'): ('minidump_unwind', 'minidump_unwind::FrameTrust::as_str', None),
        ('system_info', 'os'): ('minidump', 'minidump::system_info::Os::long_name', None),
        ('system_info', 'cpu_arch'): ('minidump', None, 'system_info::Cpu'),
    }
    for p, (cn, fnpath, disp) in enums.items():
        res.rule('C15.2', 1)
        want = {v[1:-1] for v in doc.get(p, set()) if v.startswith('"')}
        if fnpath:
            g = prog.crate(cn).fn(fnpath)
            got = str_returns(g) if g else set()
        else:
            got = display_strings(prog, cn, disp)
        miss = sorted(w for w in want if w not in got)
        if not want or miss:
            res.violation('C15.2', 'C15.2|enum|%s' % '.'.join(p), f, f.line, 'documented values %s of `%s` cannot be produced (code literals: %s)' % (miss, '.'.join(p), sorted(got)[:12]))
        else:
            res.sample({'rule': 'C15.2', 'enum': '.'.join(p), 'documented': sorted(want)})
    res.rule('C15.2', 1)
    want = {v[1:-1] for v in doc.get(('crash_info', 'memory_accesses', 'access_type'), set()) if v.startswith('"')}
    got = {x.lower() for x in display_strings(prog, 'minidump_processor', 'MemoryAccessType')}
    if not want or not want <= got:
        res.violation('C15.2', 'C15.2|enum|access_type', f, f.line, 'documented access types %s vs lower-cased Display literals %s' % (sorted(want), sorted(got)))
    # ---- C15.3 pointer width set before anything is formatted
    res.rule('C15.3', 0, floor=2, note='set_print_context() dominates every JSON construction / text write')
    for path in (PJ, 'minidump_processor::process_state::ProcessState::print_internal'):
        g = c.fn(path)
        if g is None:
            res.error('C15.3', '%s not found' % path)
            continue
        res.rule('C15.3', 1)
        sets = [b for b, t in g.calls() if g.callee(t).endswith('ProcessState::set_print_context')]
        work = [b for b, t in g.calls() if g.callee(t) in ('serde_json::Map::new', 'serde_json::to_value', 'std::io::Write::write_fmt') or g.callee_decl(t).endswith('Write::write_fmt')]
        if not sets or not all(any(g.dominates(s, w) for s in sets) for w in work):
            res.violation('C15.3', 'C15.3|%s' % path.split('::')[-1], g, g.line, 'set_print_context() does not dominate the first formatting of an address')
    pointer_width_context(res, prog, c, 'C15.3b')
    # ---- C15.3c Address prints its whole value: both arms format `self.0` itself (no narrowing cast) as lower hex with
    #      the `0x` prefix, zero-padded to 10 characters on 32-bit platforms and to 18 otherwise
    res.rule('C15.3c', 0, floor=2, note='Address::fmt formats self.0 uncast; width 10 under Bits32, 18 otherwise')
    af = c.fn('<process_state::Address as std::fmt::Display>::fmt')
    if af is None:
        res.error('C15.3c', 'Address::fmt not found')
    else:
        pw = prog.crate('minidump').adts.get('minidump::system_info::PointerWidth') or {}
        b32 = [v['discr'] for v in pw.get('variants', []) if v['name'] == 'Bits32']
        exa = PathExplorer(af, keep=lambda cnd: 'pointer_width' in show(cnd))
        exa.run()
        for b, t in af.calls():
            if (af.callee(t) or '') != 'std::fmt::Formatter::write_fmt':
                continue
            res.rule('C15.3c', 1)
            e = af.expand(af.call_tree(t))
            args = e[3] if len(e) > 3 else ()
            okv = is_call(args, 'Arguments::new') and len(args) == 4 and args[2][0] == 'bytes' and show(args[3]) == '(array (core::fmt::rt::Argument::new_lower_hex (tuple self.0).0))'
            if not okv:
                res.violation('C15.3c', 'C15.3c|value', af, t.get('line'), 'Address is not formatted as lower hex of `self.0` itself: %s' % show(args)[:200])
                continue
            tmpl = list(args[2][1])
            for facts, env in exa.states.get(b, ()):
                d = [v for cc, v in facts if show(cc) == '(discr pointer_width)']
                is32 = bool(b32) and d and d[0] == b32[0]
                want = 10 if is32 else 18
                # format_args! template: flags word with the `#` and `0` flags, then the width
                if len(tmpl) < 6 or tmpl[5] != want:
                    res.violation('C15.3c', 'C15.3c|width|%s' % ('32' if is32 else '64'), af, t.get('line'), 'on a %s platform addresses are padded to %s characters (template %s), documented: %d' % ('32-bit' if is32 else '64-bit / unknown', tmpl[5] if len(tmpl) > 5 else '?', tmpl, want))
    # ---- C15.6 every JSON array mirrors the whole collection it reports: it is collect(map(<iteration over the
    #      collection>, closure)), optionally with enumerate(); no adapter that drops, truncates or reorders items
    res.rule('C15.6', 0, floor=10, note='JSON arrays are maps over whole collections: no take / skip / filter / step_by / rev / chain in the chains that build them')
    DROPPING = ('take', 'skip', 'filter', 'filter_map', 'step_by', 'take_while', 'skip_while', 'map_while', 'rev', 'chain', 'flat_map', 'flatten', 'scan', 'dedup', 'cycle', 'zip', 'last', 'nth')
    for g in c.fns:
        if not g.qual.startswith(PJ):
            continue
        for b, t in g.calls():
            if not ((g.callee_decl(t) or '').endswith('Iterator::collect') or (g.callee(t) or '').endswith('Iterator::collect')):
                continue
            if (t.get('rty') or '') not in ('std::vec::Vec<serde_json::Value>', 'std::vec::Vec<std::string::String>'):
                continue
            res.rule('C15.6', 1)
            e = show(g.expand(g.call_tree(t)))
            chain = re.sub(r'\(closure [^)]*\)', '(closure)', e)
            bad = [a for a in DROPPING if re.search(r'Iterator::%s\b' % a, chain)]
            if bad:
                res.violation('C15.6', 'C15.6|%s|%s' % (panics.anon_closures(g.qual[len(PJ):]) or 'body', bad[0]), g, t.get('line'),
                              'a JSON array is built through %s(): it no longer mirrors the collection it reports (and the count fields next to it are computed from the full collection): %s' % (bad[0], chain[:200]))
            elif not re.match(r'^\(std::iter::Iterator::collect \(std::iter::Iterator::map ', chain):
                res.violation('C15.6', 'C15.6|%s|shape' % (panics.anon_closures(g.qual[len(PJ):]) or 'body'), g, t.get('line'), 'a JSON array is not collect(map(<collection iterator>, closure)): %s' % chain[:200])
    # ---- C15.4 redundant fields
    res.rule('C15.4', 0, floor=6, note='redundant fields are computed from what they duplicate')
    def leaf(p):
        return [(g, t) for g, t, ty in leaf_src.get(p, [])]
    checks = [
        (('thread_count',), lambda g, t: 'std::vec::Vec::len self.threads' in show(t), 'len(self.threads)'),
        (('threads', 'frame_count'), lambda g, t: 'std::vec::Vec::len thread.frames' in show(t), 'len(thread.frames)'),
        (('threads', 'frames', 'frame'), lambda g, t: 'enumerate' in show(g.expand(t)) or re.search(r'to_value _\d+\.0\)', show(t)) is not None, 'the enumerate() index of the frame iteration'),
    ]
    for p, pred, what in checks:
        res.rule('C15.4', 1)
        ls = leaf(p)
        if not ls or not all(pred(g, t) for g, t in ls):
            res.violation('C15.4', 'C15.4|%s' % '.'.join(p), f, f.line, '`%s` is not %s: %s' % ('.'.join(p), what, [show(t)[:120] for g, t in ls][:2]))
    for p, fld in ((('threads', 'frames', 'module_offset'), 'base_of_image'), (('threads', 'frames', 'function_offset'), 'func_base')):
        res.rule('C15.4', 1)
        ok = False
        for g, t in leaf(p):
            for x in walk(t):
                if isinstance(x, tuple) and x and x[0] == 'closure':
                    h = c.fn(x[1])
                    if h is None:
                        continue
                    for (b, i, rt) in ret_assigns(h):
                        s = show(h.expand(rt))
                        if re.search(r'\(Sub frame\.instruction [^)]*%s' % fld, s):
                            ok = True
        if not ok:
            res.violation('C15.4', 'C15.4|%s' % '.'.join(p), f, f.line, '`%s` is not frame.instruction - %s' % ('.'.join(p), fld))
    # frame index really is the enumerate() of the frames being serialised; modules mirrors self.modules
    res.rule('C15.4', 1)
    srcs = [show(g.expand(t)) for g, t, ty in []]
    mods = code.get(('modules',))
    fsrc = None
    for b, t in f.calls():
        if f.callee(t) == 'serde_json::Map::insert':
            k = f.expand(f.operand_tree(t['args'][1]))
            if any(isinstance(x, tuple) and x and x[0] == 'str' and x[1] == 'modules' for x in walk(k)):
                fsrc = show(f.expand(f.operand_tree(t['args'][2])))
    if not fsrc or 'self.modules' not in fsrc or 'Iterator::filter' in fsrc or 'take' in fsrc.split('self.modules')[1][:200] and False:
        res.violation('C15.4', 'C15.4|modules', f, f.line, '`modules` is not a map over all of self.modules: %s' % (fsrc or '')[:160])
    # crashing_thread = clone of threads[requesting_thread] + registers + threads_index
    res.rule('C15.4', 1)
    ins = {}
    for b, t in f.calls():
        if f.callee(t) == 'serde_json::Map::insert':
            k = f.expand(f.operand_tree(t['args'][1]))
            for x in walk(k):
                if isinstance(x, tuple) and x and x[0] == 'str' and x[1] in ('registers', 'threads_index', 'crashing_thread'):
                    ins[x[1]] = (show(f.operand_tree(t['args'][0])), show(f.expand(f.operand_tree(t['args'][2]))))
    ok = set(ins) == {'registers', 'threads_index', 'crashing_thread'}
    if ok:
        tdef = ''
        for l in range(len(f.locals)):
            if f.local_name(l) == 'thread' and 'serde_json::Value' in f.local_ty(l):
                for d in f.defs.get(l, []):
                    if d['kind'] == 'call':
                        tdef = show(f.expand(f.call_tree(d['term'])))
        # the copy is the element of output["threads"] at the very index that is also reported as threads_index:
        # clone(output["threads"].as_array()[requesting_thread]) - not a search by thread id (ids can repeat)
        WANT_T = '(<serde_json::Value as std::clone::Clone>::clone (<std::vec::Vec<T, A> as std::ops::Index<I>>::index (std::option::Option::unwrap (serde_json::Value::as_array (std::option::Option::unwrap (serde_json::Value::get_mut output "threads")))) (Some.0 self.requesting_thread)))'
        # the registers added to the copy are those of the first frame of the very thread that was copied
        regsrc = ins['registers'][1]
        ok = ('requesting_thread' in ins['threads_index'][1] and 'json_registers' in regsrc and re.search(r'index\S* self\.threads \(Some\.0 self\.requesting_thread\)', regsrc) is not None and ins['crashing_thread'][1] == 'thread'
              and tdef in (WANT_T, WANT_T.replace('serde_json::Value::get_mut output', 'serde_json::Value::get output')))
    # ... and nothing else touches the copy: between the clone and the insertion under "crashing_thread" no call shortens,
    # reorders or replaces parts of it, and the only keys inserted are the two documented additions
    res.rule('C15.4', 1)
    clones = [b for b, t in f.calls() if f.callee(t).endswith('Clone>::clone') and 'serde_json::Value' in f.callee(t) and '"threads"' in show(f.expand(f.call_tree(t)))]
    finals = [b for b, t in f.calls() if f.callee(t) == 'serde_json::Map::insert' and any(isinstance(x, tuple) and x and x[0] == 'str' and x[1] == 'crashing_thread' for x in walk(f.expand(f.operand_tree(t['args'][1]))))]
    if len(clones) == 1:
        finals = [b for b in finals if f.dominates(clones[0], b)]
    if len(clones) != 1 or len(finals) != 1:
        res.error('C15.4', 'the clone of threads[..] / the insertion of "crashing_thread" were not found (%d / %d)' % (len(clones), len(finals)))
    else:
        cb, fb = clones[0], finals[0]
        back = f.can_reach(fb) if hasattr(f, 'can_reach') else set(range(len(f.blocks)))
        region = [b for b in sorted(f.reach) if b != cb and f.dominates(cb, b) and b in back]
        MUT = re.compile(r'(Vec<[^>]*>|Vec|VecDeque|Map<[^>]*>|Map|IndexMap|BTreeMap|HashMap)::(truncate|remove|pop|clear|retain|retain_mut|drain|swap_remove|shift_remove|dedup\w*|split_off|push|resize\w*|reverse|sort\w*|swap|rotate_\w+|append|extend\w*|remove_entry|take)$|^(core|std)::mem::(take|replace|swap)$|serde_json::Value::take$')
        for b in region:
            t = f.blocks[b]['t']
            if t['k'] != 'call':
                continue
            nm = f.callee(t) or ''
            if MUT.search(nm):
                res.violation('C15.4', 'C15.4|crashing_thread|' + nm.split('::')[-1], f, t.get('line'), 'the crashing_thread copy is modified by %s before it is inserted: the copy must stay the threads entry plus `registers` and `threads_index` (e.g. its frames must match its own frame_count)' % nm)
            if nm == 'serde_json::Map::insert' and b != fb:
                ks = [x[1] for x in walk(f.expand(f.operand_tree(t['args'][1]))) if isinstance(x, tuple) and x and x[0] == 'str']
                if not ks or any(k not in ('registers', 'threads_index') for k in ks):
                    res.violation('C15.4', 'C15.4|crashing_thread|key', f, t.get('line'), 'the crashing_thread copy receives the key %s; only `registers` (first frame) and `threads_index` are added' % ks)
    if not ok:
        res.violation('C15.4', 'C15.4|crashing_thread', f, f.line, 'crashing_thread is not clone(threads[requesting_thread]) + registers + threads_index: %s' % {k: v[1][:80] for k, v in ins.items()})
    # ---- C15.5 single serialiser
    res.rule('C15.5', 0, floor=2, note='bytes reach the writer only through serde_json::to_writer / to_writer_pretty')
    outs = [(b, t) for b, t in f.calls() if f.callee(t) in ('serde_json::to_writer', 'serde_json::to_writer_pretty')]
    res.rule('C15.5', len(outs))
    for b, t in f.calls():
        d = f.callee_decl(t)
        if (d.endswith('io::Write::write_fmt') or d.endswith('io::Write::write_all') or d.endswith('io::Write::write')) and show(f.operand_tree(t['args'][0])) == 'f':
            res.rule('C15.5', 1)
            res.violation('C15.5', 'C15.5|raw-write', f, t.get('line'), 'print_json writes to the output directly (%s) instead of through serde_json' % f.callee(t))
    if len(outs) != 2:
        res.violation('C15.5', 'C15.5|writers', f, f.line, 'expected to_writer and to_writer_pretty, found %d serialiser calls' % len(outs))
    res.assumptions += ['serde_json produces valid UTF-8 JSON and escapes strings correctly (trusted)',
                        'schema conformance of values for hostile states is not decided; the json-schema.md enums are declared non-exhaustive, so extra code variants are not drift']
    return harness.finish(res, tier, t0, distinct=5, explanation=(
        'Key-tree agreement in both directions between what print_json can emit (reconstructed from the MIR of the json! expansions, index/insert mutations and serde-derived structs) and the pseudo-JSON block of json-schema.md; '
        'provenance of every <hexstring> key (json_hex / Address / format) and producibility of every documented enumeration value; set_print_context before any formatting; redundant fields computed from the data they duplicate; '
        'a single serialiser. One reviewed documentation gap (proc_limits) is listed so that any other drift still fails.'))
