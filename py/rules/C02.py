"""C02 — parsed streams reproduce the dump in either byte order (byte-order and layout-pairing clauses only)."""
from .common import *
import panics

PID = 'C02'
READ_DECL = re.compile(r'(scroll::Pread::(pread_with|gread_with|gread_inout_with)|scroll::Cread::cread_with|scroll::ctx::TryFromCtx::try_from_ctx|scroll::ctx::SizeWith::size_with|scroll::Pwrite::\w+)$')
LE_BE = [('UTF_16LE', 'UTF_16BE'), ('from_le_bytes', 'from_be_bytes'), ('to_le_bytes', 'to_be_bytes'), ('Little', 'Big'), ('LE', 'BE'), ('_le', '_be')]
# hand-written TryFromCtx impls of format types: reviewed (they read field by field through gread_with with the ctx endianness)
HANDWRITTEN = {
    'minidump_common::format::CV_INFO_PDB20', 'minidump_common::format::CV_INFO_PDB70', 'minidump_common::format::CV_INFO_ELF',
    'minidump_common::format::MINIDUMP_UTF8_STRING', 'minidump_common::format::XSTATE_CONFIG_FEATURE_MSC_INFO',
}


def endian_consts(tree):
    out = []
    for x in walk(tree):
        if isinstance(x, tuple) and x:
            if x[0] == 'item' and re.search(r'scroll::(LE|BE|NATIVE|NETWORK)$', x[1]):
                out.append(x[1])
            if x[0] == 'adt' and 'scroll::Endian::' in x[1]:
                out.append(x[1])
    return out


def threading(res, prog):
    res.rule('C02.1', 0, floor=200, note='every scroll read with an Endian context gets an endianness that is data-flow-derived from a parameter / field; Endian constants only in Minidump::read')
    n = 0
    for cn in ('minidump', 'minidump_common'):
        for f in prog.crate(cn).fns:
            if f.mac and f.mac.startswith('derive('):
                continue
            allowed_const = f.path == "minidump::minidump::Minidump::<'a, T>::read"
            for b in sorted(f.reach):
                blk = f.blocks[b]
                trees = [(f.rvalue_tree(s['rv']), s.get('line')) for s in blk['s'] if s['k'] == 'assign']
                t = blk['t']
                if t['k'] == 'call':
                    trees.append((f.call_tree(t), t.get('line')))
                for tr, line in trees:
                    cs = endian_consts(tr)
                    if cs and not allowed_const:
                        res.rule('C02.1', 1)
                        res.violation('C02.1', 'C02.1|const|%s|%s' % (f.qual, cs[0]), f, line, 'fixed byte order %s used outside the signature probe: a little-endian fixture parses, a big-endian dump does not' % cs[0])
            for b, t in f.calls():
                d = f.callee_decl(t)
                if not READ_DECL.search(d):
                    continue
                targs = t.get('targs') or []
                if not any(x == 'scroll::Endian' for x in targs):
                    continue
                res.rule('C02.1', 1)
                n += 1
                ctx = f.expand(f.operand_tree(t['args'][-1]))
                if endian_consts(ctx) and not allowed_const:
                    continue  # already reported above
                leaves = [v for v in leaves_vars(ctx)]
                if not leaves and ctx[0] != 'call':
                    res.violation('C02.1', 'C02.1|ctx|%s' % f.qual, f, t.get('line'), 'read context %s is not derived from a parameter or field' % show(ctx)[:100])
                elif n <= 3:
                    res.sample({'rule': 'C02.1', 'fn': f.qual[-60:], 'read': d.split('::')[-1], 'endianness_from': show(ctx)[:60]})
    return n


def both_orders(res, prog):
    res.rule('C02.2', 0, floor=3, note='every branch on the byte order has a Little and a Big arm that differ only by the LE/BE twin')
    for cn in ('minidump', 'minidump_common'):
        for f in prog.crate(cn).fns:
            if f.mac and f.mac.startswith('derive('):
                continue
            for b in sorted(f.reach):
                t = f.blocks[b]['t']
                if t['k'] != 'switch' or t.get('ty') == 'bool':
                    continue
                x = f.operand_tree(t['x'])
                if not (x[0] == 'discr' and x[1][0] in ('var', 'field', 'arg') and re.search(r'endian', show(x), re.I)):
                    continue
                res.rule('C02.2', 1)
                tgt = dict((v, s) for v, s in t['ts'])
                arms = {}
                if 0 in tgt:
                    arms['Little'] = tgt[0]
                if 1 in tgt:
                    arms['Big'] = tgt[1]
                if len(arms) == 1 and t['o'] not in tgt.values():
                    arms['Big' if 'Little' in arms else 'Little'] = t['o']
                if set(arms) != {'Little', 'Big'}:
                    res.violation('C02.2', 'C02.2|arms|%s' % f.qual, f, t.get('line'), 'match on the byte order does not handle both Little and Big')
                    continue
                join = f.ipdom.get(b)
                def sig(start):
                    region = f.reachable_from(start, avoid=[join] if join is not None and join >= 0 else [])
                    out = []
                    for rb in sorted(region):
                        tt = f.blocks[rb]['t']
                        if tt['k'] == 'call' and not is_log_term(tt):
                            out.append(f.callee(tt).split('::')[-1])
                        for s in f.blocks[rb]['s']:
                            if s['k'] == 'assign':
                                for y in walk(f.rvalue_tree(s['rv'])):
                                    if isinstance(y, tuple) and y and y[0] == 'item':
                                        out.append(y[1].split('::')[-1])
                    return out
                sl, sb = sig(arms['Little']), sig(arms['Big'])
                def to_be(name):
                    for a, bb in LE_BE[:3]:
                        if a in name:
                            return name.replace(a, bb)
                    return name
                if [to_be(x) for x in sl] != sb:
                    res.violation('C02.2', 'C02.2|twin|%s' % f.qual, f, t.get('line'), 'Little arm %s and Big arm %s are not LE/BE twins' % (sl[:6], sb[:6]))
                else:
                    res.sample({'rule': 'C02.2', 'fn': f.qual[-50:], 'little': sl[:4], 'big': sb[:4]})


def layouts(res, prog):
    res.rule('C02.3', 0, floor=60, note='format.rs types read through scroll derive Pread and SizeWith from one field list; hand-written readers are a reviewed list')
    c = prog.crate('minidump_common')
    pread = {}
    sizew = {}
    hand = set()
    for i in c.impls:
        s = i['self']
        if not s.startswith('format::'):
            continue
        name = 'minidump_common::' + re.sub(r'<.*', '', s)
        if i['trait'] == 'scroll::ctx::TryFromCtx':
            if i.get('mac') == 'derive(Pread)':
                pread[name] = True
            elif not i.get('mac'):
                hand.add(name)
        if i['trait'] == 'scroll::ctx::SizeWith':
            sizew[name] = i.get('mac') or 'hand'
    for name in sorted(pread):
        res.rule('C02.3', 1)
        if name not in sizew:
            # allowed: types that are only ever read singly (never counted by ensure_count_in_bound)
            res.violation('C02.3', 'C02.3|nosize|%s' % name, None, None, '%s derives Pread but has no SizeWith: its size cannot be validated against the stream length' % name, file='minidump-common/src/format.rs')
        elif sizew[name] not in ('derive(SizeWith)',) and not sizew[name].endswith('!'):
            res.violation('C02.3', 'C02.3|handsize|%s' % name, None, None, '%s derives Pread but SizeWith is written by hand (%s): the two layouts can drift' % (name, sizew[name]), file='minidump-common/src/format.rs')
    for name in sorted(hand):
        res.rule('C02.3', 1)
        if name not in HANDWRITTEN:
            res.violation('C02.3', 'C02.3|handread|%s' % name, None, None, 'hand-written TryFromCtx for %s is not in the reviewed list' % name, file='minidump-common/src/format.rs')
    res.sample({'rule': 'C02.3', 'derive_pairs': len(pread), 'hand_written': sorted(hand)})


def last_wins(res, prog):
    res.rule('C02.4', 0, floor=1, note='directory entries are stored with an unconditional BTreeMap::insert in file order: the last duplicate wins')
    c = prog.crate('minidump')
    f = need_fn(res, c, "minidump::minidump::Minidump::<'a, T>::read", 'C02.4')
    if f is None:
        return
    ins = [(b, t) for b, t in f.calls() if f.callee(t) == 'std::collections::BTreeMap::insert' and show(f.operand_tree(t['args'][0])) == 'streams']
    for b, t in ins:
        res.rule('C02.4', 1)
        key = show(f.operand_tree(t['args'][1]))
        facts = [r for r, g, s in panics.dominating_facts(f, b)]
        guarded = any(('contains_key' in show(r[1]) or 'BTreeMap::get' in show(r[1]) or 'entry' in show(r[1])) for r in facts if len(r) > 1)
        loops = f.loops()
        in_loop = any(b in body for body in loops.values())
        rng = any(f.callee(tt).endswith('range::next') or 'range' in f.callee(tt) for bb, tt in f.calls())
        if key != 'dir.stream_type' or guarded or not in_loop:
            res.violation('C02.4', 'C02.4|insert', f, t.get('line'), 'stream directory insert is keyed by %s%s%s' % (key, ', guarded by a presence test' if guarded else '', '' if in_loop else ', outside the directory loop'))
        else:
            res.sample({'rule': 'C02.4', 'insert_key': key})
    if not ins:
        res.violation('C02.4', 'C02.4|missing', f, f.line, 'no `streams.insert(dir.stream_type, ..)` found (or_insert / entry would keep the first duplicate)')
    # C02.4b nothing is parsed while the directory is being walked: the directory loop only records entries, and the
    # cached system info (handed to every other stream reader) is looked up in the finished map, so it is the entry
    # get_raw_stream serves (the last duplicate), not the first one seen
    res.rule('C02.4b', 0, floor=2, note='the directory loop records entries only; the cached system info is read through the finished streams map')
    ALLOWED_IN_LOOP = re.compile(r'(range::next$|Deref::deref$|gread_with$|Result::or$|Try>::branch$|FromResidual|Clone>::clone$|BTreeMap::insert$|FromPrimitive::from_u32$|PartialEq>::(eq|ne)$|IntoIterator::into_iter$|fmt::|tracing|log::)')
    for h, body in f.loops().items():
        if not any(f.callee(f.blocks[b]['t']) == 'std::collections::BTreeMap::insert' for b in body if f.blocks[b]['t']['k'] == 'call'):
            continue
        res.rule('C02.4b', 1)
        for b in sorted(body):
            t = f.blocks[b]['t']
            if t['k'] != 'call' or is_log_term(t):
                continue
            n = f.callee(t) or ''
            # only workspace functions can locate or parse stream bytes; std / scroll helpers on the entry itself are fine
            if re.match(r'^<?(minidump|minidump_common)::', n.lstrip('<')) and not ALLOWED_IN_LOOP.search(n) or re.search(r'(MinidumpStream|TryFromCtx|Pread).*::(read|try_from_ctx|pread_with|gread)$', n) and 'MINIDUMP_DIRECTORY' not in str(t.get('targs')) and not n.endswith('gread_with'):
                res.violation('C02.4b', 'C02.4b|loop-call|%s' % n, f, t.get('line'), 'the stream directory loop calls %s: a stream parsed while the directory is walked comes from the entry seen at that moment, not from the one finally stored' % n)
            for a in t.get('args', []):
                tr = f.expand(f.operand_tree(a))
                if tr[0] == 'closure':
                    res.violation('C02.4b', 'C02.4b|loop-closure|%s' % n, f, t.get('line'), 'the stream directory loop hands a closure to %s' % n)
    md_adt = c.adts.get('minidump::minidump::Minidump')
    aggs = [(b, s_) for b in sorted(f.reach) for s_ in f.blocks[b]['s'] if s_['k'] == 'assign' and s_['rv']['k'] == 'agg' and s_['rv'].get('adt', '').endswith('minidump::Minidump')]
    if md_adt is None or len(aggs) != 1:
        res.error('C02.4b', 'Minidump aggregate not found in Minidump::read')
    else:
        names = [x[0] for x in md_adt['variants'][0]['fields']]
        vals = dict(zip(names, aggs[0][1]['rv']['xs']))
        res.rule('C02.4b', 1)
        si = show(f.expand(f.operand_tree(vals['system_info'])))
        if not si.startswith('(std::option::Option::and_then (std::collections::BTreeMap::get streams (item minidump::minidump::MinidumpStream::STREAM_TYPE))'):
            res.violation('C02.4b', 'C02.4b|system_info', f, aggs[0][1].get('line'), 'the cached system info is %s, not streams.get(&SystemInfo::STREAM_TYPE).and_then(..) over the finished directory map' % si[:200])
        if show(f.expand(f.operand_tree(vals['streams']))) != 'streams':
            res.violation('C02.4b', 'C02.4b|streams', f, aggs[0][1].get('line'), 'Minidump.streams is not the map filled by the directory loop')
    # get_stream reads the stored entry
    for b, t in f.calls():
        if re.search(r'BTreeMap::entry$', f.callee(t)) and show(f.operand_tree(t['args'][0])) == 'streams':
            res.violation('C02.4', 'C02.4|entry', f, t.get('line'), 'stream directory uses the entry API (first duplicate would win)')


def string_decoders(res, prog):
    """C02.5: text is decoded in the encoding the dump's byte order (or the format) dictates, never in one sniffed from
    the data: only the *_without_bom_handling decoders of encoding_rs may be called, with a constant UTF-16 encoding that
    is selected by the Endian argument (LE for Little, BE for Big) or fixed by the format; no lossy UTF-16 decoding"""
    res.rule('C02.5', 0, floor=2, note='UTF-16 strings: encoding chosen by the byte order / the format, decoders without BOM sniffing and without replacement')
    ALLOWED = ('decode_without_bom_handling_and_without_replacement', 'decode_without_bom_handling')
    for cn in ('minidump', 'minidump_common'):
        for f in prog.crate(cn).fns:
            if f.mac and f.mac.startswith('derive('):
                continue
            for b, t in f.calls():
                n = f.callee(t) or ''
                if n.startswith('encoding_rs::'):
                    short = n.split('::')[-1]
                    if not re.search(r'decode|decoder', short):
                        continue
                    res.rule('C02.5', 1)
                    if short not in ALLOWED:
                        res.violation('C02.5', 'C02.5|%s|%s' % (f.qual, short), f, t.get('line'), '%s sniffs / strips a byte-order mark or replaces malformed input: a string that merely starts with U+FEFF / U+FFFE / EF BB BF would be decoded in another encoding than the dump\'s' % n)
                        continue
                    enc = f.expand(f.operand_tree(t['args'][0]))
                    statics = set(x[1] for x in walk(enc) if isinstance(x, tuple) and x and x[0] in ('item', 'static') and 'encoding_rs::' in str(x[1]))
                    # the encoding operand: a multi-def local assigned in the arms of `match endian`
                    if enc[0] == 'var':
                        defs = [d for d in f.defs.get(enc[2], []) if d['kind'] == 'assign']
                        arms = {}
                        for d in defs:
                            tr = show(f.expand(f.rvalue_tree(d['rv'])))
                            facts = [r for r, g, sc in panics.dominating_facts(f, d['bb'])]
                            disc = [r for r in facts if r[0] == 'switch' and show(r[1]) in ('(discr endian)', '(discr (* endian))')]
                            arms[tr] = disc[0][2] if disc else None
                        endian = prog.crate('minidump').adts.get('scroll::Endian') or {}
                        want = {}
                        le = [k for k in arms if 'UTF_16LE' in k]
                        be = [k for k in arms if 'UTF_16BE' in k]
                        if len(arms) != 2 or len(le) != 1 or len(be) != 1 or arms[le[0]] is None or arms[be[0]] is None or arms[le[0]] == arms[be[0]]:
                            res.violation('C02.5', 'C02.5|%s|selection' % f.qual, f, t.get('line'), 'the UTF-16 encoding is not selected by `match endian { Little => UTF_16LE, Big => UTF_16BE }`: %s' % arms)
                        else:
                            # Little is the first variant of scroll::Endian (discriminant 0)
                            if not (arms[le[0]] == 0 or (isinstance(arms[le[0]], tuple) and arms[be[0]] == 1)):
                                res.violation('C02.5', 'C02.5|%s|swapped' % f.qual, f, t.get('line'), 'UTF_16LE is selected for the Big arm / UTF_16BE for the Little arm: %s' % arms)
                            else:
                                res.sample({'rule': 'C02.5', 'fn': f.qual, 'decoder': short, 'selection': arms})
                    elif not statics:
                        res.violation('C02.5', 'C02.5|%s|encoding' % f.qual, f, t.get('line'), 'the encoding handed to %s is neither a constant nor selected by the byte order: %s' % (short, show(enc)[:120]))
                    else:
                        res.sample({'rule': 'C02.5', 'fn': f.qual, 'decoder': short, 'encoding': sorted(statics)})
                elif re.search(r'string::String::from_utf16_lossy$|char::decode_utf16$|String::from_utf16$', n):
                    res.rule('C02.5', 1)
                    res.violation('C02.5', 'C02.5|%s|%s' % (f.qual, n.split('::')[-1]), f, t.get('line'), '%s decodes native-endian u16 units (and from_utf16_lossy replaces malformed input): the dump\'s byte order is not honoured' % n)


def default_context_reads(res, prog):
    """C02.1c: scroll's context-less reads (`pread`, `gread`, `gread_inout`, `pwrite`, ..) use `Ctx::default()`, i.e.
    the *host's* byte order for scroll::Endian.  In the reading crates they may only be used for types one byte wide."""
    res.rule('C02.1c', 0, floor=1, note='context-less scroll reads (host byte order) only for single-byte types')
    BYTE = {'u8', 'i8', 'bool'}
    for cn in ('minidump', 'minidump_common'):
        for f in prog.crate(cn).fns:
            if f.mac and f.mac.startswith('derive('):
                continue
            for b, t in f.calls():
                d = f.callee_decl(t) or ''
                m = re.search(r'scroll::(Pread|Pwrite)::(pread|gread|gread_inout|pwrite|gwrite|gwrite_inout)$', d)
                if not m:
                    continue
                targs = t.get('targs') or []
                if 'scroll::Endian' not in targs:
                    continue    # a context type without byte order (e.g. a length for &[u8])
                res.rule('C02.1c', 1)
                ty = (targs[-1] if targs else '').lstrip('&')
                if ty not in BYTE:
                    res.violation('C02.1c', 'C02.1c|%s|%s' % (f.qual, ty), f, t.get('line'), '%s::<%s>() reads with the default context, i.e. in the byte order of the machine running the parser, not of the dump' % (m.group(2), ty))


def memory_regions(res, prog):
    """C02.6: a memory region is exactly what its descriptor says.  MemoryList: base = desc.start_of_memory_range,
    size = desc.memory.data_size, bytes = location_slice(all, desc.memory).  Memory64List: base = raw.start_of_memory_range,
    size = raw.data_size, bytes = all[rva .. rva + raw.data_size] with rva advanced by exactly raw.data_size per descriptor
    (the regions are consecutive slices from one base RVA) - no clamping, rounding or re-deriving of either number."""
    res.rule('C02.6', 0, floor=2, note='memory regions: base / size / bytes come straight from the descriptor; Memory64 slices are consecutive')
    c = prog.crate('minidump')
    ITEM = r'\(Some\.0 \(<std::vec::IntoIter<T, A> as std::iter::Iterator>::next _\d*\)\)'
    for f in c.fns:
        if f.mac and f.mac.startswith('derive('):
            continue
        for b in sorted(f.reach):
            for s_ in f.blocks[b]['s']:
                if not (s_['k'] == 'assign' and s_['rv']['k'] == 'agg' and s_['rv'].get('ak') == 'adt' and s_['rv']['adt'].endswith('MinidumpMemoryBase')):
                    continue
                res.rule('C02.6', 1)
                vals = dict((n, re.sub(r'\b_\d+\b', '_', show(f.expand(f.operand_tree(x))))) for n, x in zip(s_['rv'].get('fields', []), s_['rv']['xs']))
                item = re.sub(r'\\d\*', '', ITEM)
                if 'DESCRIPTOR64' in f.qual:
                    # the descriptor: an item of the Vec of descriptors read first, or the descriptor just read (one fused loop)
                    it = vals.get('desc') or '?'
                    it_ok = it == '(Some.0 (<std::vec::IntoIter<T, A> as std::iter::Iterator>::next _))' or re.match(
                        r'^\(Continue\.0 \(trybranch \(std::result::Result::or \(<\[u8\] as scroll::Pread<Ctx, E>>::gread_with bytes \w+ endian\) \(adt std::result::Result::Err \(adt minidump::minidump::Error::StreamReadFailure\)\)\)\)\)$', it)
                    res.rule('C02.6', 1)
                    if not it_ok:
                        res.violation('C02.6', 'C02.6|mem64|desc-source', f, s_.get('line'), 'the descriptor of a Memory64 region is %s, not a descriptor as read from the stream' % it[:200])
                    want = {
                        'desc': it,
                        'base_address': it + '.start_of_memory_range',
                        'size': it + '.data_size',
                        'bytes': '(Continue.0 (trybranch (std::option::Option::ok_or (core::slice::get all (adt std::ops::Range::Range (cast usize rva) (cast usize (Continue.0 (trybranch (std::option::Option::ok_or (core::num::checked_add rva %s.data_size) (adt minidump::minidump::Error::StreamReadFailure))))))) (adt minidump::minidump::Error::StreamReadFailure))))' % it,
                        'endian': 'endian',
                    }
                    # rva advances by exactly the end of the slice just taken
                    rvas = [l for l in range(len(f.locals)) if f.local_name(l) == 'rva']
                    steps = []
                    for l in rvas:
                        for d in f.defs.get(l, []):
                            if d['kind'] == 'assign' and any(d['bb'] in body for body in f.loops().values()):
                                steps.append(re.sub(r'\b_\d+\b', '_', show(f.expand(f.rvalue_tree(d['rv'])))))
                    res.rule('C02.6', 1)
                    if steps != ['(Continue.0 (trybranch (std::option::Option::ok_or (core::num::checked_add rva %s.data_size) (adt minidump::minidump::Error::StreamReadFailure))))' % it]:
                        res.violation('C02.6', 'C02.6|rva-step', f, s_.get('line'), 'the running RVA of the Memory64 list is advanced by %s, not by exactly the descriptor\'s data_size' % (steps or 'nothing'))
                else:
                    want = {
                        'desc': 'desc',
                        'base_address': 'desc.start_of_memory_range',
                        'size': '(cast u64 desc.memory.data_size)',
                        'bytes': '(Continue.0 (trybranch (std::result::Result::or (minidump::minidump::location_slice data desc.memory) (adt std::result::Result::Err (adt minidump::minidump::Error::StreamReadFailure)))))',
                        'endian': 'endian',
                    }
                for k, w in want.items():
                    if vals.get(k) != w:
                        res.violation('C02.6', 'C02.6|%s|%s' % ('mem64' if 'DESCRIPTOR64' in f.qual else 'mem', k), f, s_.get('line'), 'memory region field `%s` is %s; the descriptor says %s' % (k, (vals.get(k) or '?')[:200], w[:120]))


def _places(node, out):
    if isinstance(node, dict):
        if isinstance(node.get('l'), int) and set(node) <= {'l', 'p'}:
            out.append(node)
            return
        for v in node.values():
            _places(v, out)
    elif isinstance(node, list):
        for v in node:
            _places(v, out)


def cpu_union(res, prog):
    """C02.7: `CPU_INFORMATION.data` is a union of multi-byte fields kept as 24 undecoded bytes (format.rs says callers
    must use Pread to derive the representation they want).  Every mention of that field is `&<..>.data` flowing, through
    at most the unsizing cast, into the receiver of `pread_with(_, 0, endian)` - never a byte-wise copy, index or slice,
    which would read the words in file order whatever the dump's byte order is.  (The Endian argument's provenance is
    C02.1's business.)"""
    res.rule('C02.7', 0, floor=2, note='the CPU union is only ever decoded through scroll with the dump\'s byte order')
    for cn in harness.CRATES:
        c = prog.crate(cn)
        for f in c.fns:
            if f.mac and f.mac.startswith('derive('):
                continue
            cpu_locals = set(l for l in range(len(f.locals)) if re.search(r'(^|[ &:])(minidump_common::)?format::CPU_INFORMATION$', f.local_ty(l) or ''))
            hits = []
            for b in sorted(f.reach):
                for i, s_ in enumerate(f.blocks[b]['s']):
                    ps = []
                    _places(s_, ps)
                    for p in ps:
                        hits.append((b, i, s_, p))
                t = f.blocks[b]['t']
                ps = []
                _places(t, ps)
                for p in ps:
                    hits.append((b, 't', t, p))
            for b, i, node, p in hits:
                proj = p.get('p') or []
                if not proj:
                    continue
                fields = [e.get('n') for e in proj if isinstance(e, dict) and 'n' in e]
                ok_shape = False
                if len(fields) >= 2 and fields[-2:] == ['cpu', 'data'] and isinstance(proj[-1], dict) and proj[-1].get('n') == 'data':
                    ok_shape = True
                elif fields[-1:] == ['data'] and p['l'] in cpu_locals and len(fields) == 1:
                    ok_shape = True
                elif 'data' in fields and 'cpu' in fields and fields.index('data') == fields.index('cpu') + 1:
                    # something below the union field (an index, a sub-slice): never a decode
                    res.rule('C02.7', 1)
                    res.violation('C02.7', 'C02.7|below', f, node.get('line'), 'the bytes of the CPU union are picked apart in place: %s' % show(f.place_tree(p))[:120])
                    continue
                if not ok_shape:
                    continue
                res.rule('C02.7', 1)
                good = False
                if i != 't' and node['k'] == 'assign' and node['rv']['k'] == 'ref' and node['rv']['p'] is p and not node['lhs'].get('p'):
                    # follow the borrow: single-use temps through the unsizing cast to the receiver of pread_with
                    good = _flows_to_pread(f, node['lhs']['l'])
                if not good:
                    res.violation('C02.7', 'C02.7|use', f, node.get('line'), 'the CPU union (`cpu.data`) is used other than as the receiver of pread_with(_, 0, endian): %s' % (show(f.rvalue_tree(node['rv'])) if i != 't' and node['k'] == 'assign' else show(f.call_tree(node)) if node.get('k') == 'call' else node.get('k'))[:140])


def _flows_to_pread(f, l, depth=0):
    """local `l` (a borrow of the union) is used exactly once: by an unsizing cast whose result is, in turn, used exactly once
    as argument 0 of scroll::Pread::pread_with with offset 0"""
    if depth > 3:
        return False
    uses = []
    for b in sorted(f.reach):
        for s_ in f.blocks[b]['s']:
            ps = []
            if s_['k'] == 'assign':
                _places(s_['rv'], ps)
            else:
                _places(s_, ps)
            if any(p['l'] == l for p in ps) and s_['k'] in ('assign',):
                uses.append(('s', s_))
        t = f.blocks[b]['t']
        ps = []
        _places({k: v for k, v in t.items() if k != 'dest'}, ps)
        if any(p['l'] == l for p in ps):
            uses.append(('t', t))
    if len(uses) != 1:
        return False
    kind, n = uses[0]
    if kind == 's':
        if n['rv']['k'] == 'cast' and not n['lhs'].get('p'):
            return _flows_to_pread(f, n['lhs']['l'], depth + 1)
        if n['rv']['k'] in ('use', 'ref') and not n['lhs'].get('p'):
            return _flows_to_pread(f, n['lhs']['l'], depth + 1)
        return False
    if n['k'] != 'call' or strip_generics(n.get('fn') or '') not in ('scroll::Pread::pread_with',):
        return False
    a0 = n['args'][0]
    p0 = a0.get('m') or a0.get('c')
    if not p0 or p0['l'] != l:
        return False
    off = f.expand(f.operand_tree(n['args'][1]))
    return off == ('int', 0)


def identifier_derivation(res, prog):
    """C02.8: the debug identifier is derived from the CodeView record as documented, arm by arm of read_debug_id:
    Pdb20 -> from_pdb20(signature, age); Pdb70 -> from_parts(uuid of the four signature fields, age) unless that uuid is
    nil; Elf -> None exactly when EVERY byte of the build id is zero (the test looks at the whole id, before anything is
    derived), otherwise the uuid of the GUID read with the dump's byte order from the first 16 bytes (zero-padded), with
    no further filter; anything else -> None."""
    res.rule('C02.8', 0, floor=7, note='debug id derivation table of read_debug_id (Pdb20 / Pdb70 / Elf / other)')
    c = prog.crate('minidump')
    f = need_fn(res, c, 'minidump::minidump::read_debug_id', 'C02.8')
    if f is None:
        return
    adt = c.adts.get('minidump::minidump::CodeView')
    names = {v.get('discr', i): v['name'] for i, v in enumerate(adt['variants'])} if adt else {}
    arms = {}
    for (b, i, tr) in ret_assigns(f):
        facts = [r for r, gd, sx in panics.dominating_facts(f, b)]
        which = None
        for r in facts:
            if r[0] == 'switch' and r[1][0] == 'discr' and show(f.expand(r[1][1])) in ('codeview_info', '(deref codeview_info)'):
                which = names.get(r[2], 'other') if isinstance(r[2], int) else 'other'
        arms.setdefault(which, []).append((b, f.expand(tr), facts))

    def closure_ret(path):
        g = c.fn(path)
        return [show(g.expand(t)) for (_, _, t) in ret_assigns(g)] if g is not None else None
    # other
    res.rule('C02.8', 1)
    if [show(t) for b, t, fs in arms.get('other', [])] != ['(adt std::option::Option::None)']:
        res.violation('C02.8', 'C02.8|other', f, f.line, 'CodeView records other than Pdb20 / Pdb70 / Elf do not simply give None: %s' % [show(t)[:80] for b, t, fs in arms.get('other', [])])
    # Pdb20
    res.rule('C02.8', 1)
    got = [show(t) for b, t, fs in arms.get('Pdb20', [])]
    if got != ['(adt std::option::Option::Some (debugid::DebugId::from_pdb20 (Pdb20.0 codeview_info).signature (Pdb20.0 codeview_info).age))']:
        res.violation('C02.8', 'C02.8|pdb20', f, f.line, 'Pdb20 debug id is not from_pdb20(signature, age): %s' % [x[:160] for x in got])
    # Pdb70
    res.rule('C02.8', 1)
    ok = False
    a70 = arms.get('Pdb70', [])
    if len(a70) == 1:
        t = a70[0][1]
        sig = '(Pdb70.0 codeview_info).signature'
        uu = '(uuid::builder::from_fields %s.data1 %s.data2 %s.data3 %s.data4)' % (sig, sig, sig, sig)
        if is_call(t, 'core::bool::then') and show(t[2]) == '(un Not (uuid::Uuid::is_nil %s))' % uu and t[3][0] == 'closure':
            ok = closure_ret(t[3][1]) == ['(debugid::DebugId::from_parts uuid raw.age)'] and [show(x) for x in t[3][2:]] == [uu, '(Pdb70.0 codeview_info)']
    if not ok:
        res.violation('C02.8', 'C02.8|pdb70', f, f.line, 'Pdb70 debug id is not `(!uuid.is_nil()).then(|| from_parts(uuid(signature), age))`: %s' % [show(x[1])[:200] for x in a70])
    # Elf
    elf = arms.get('Elf', [])
    nones = [(b, t, fs) for b, t, fs in elf if show(t) == '(adt std::option::Option::None)']
    somes = [(b, t, fs) for b, t, fs in elf if show(t) != '(adt std::option::Option::None)']
    res.rule('C02.8', 1)
    okn = False
    why = 'expected exactly one None outcome, governed by build_id.iter().all(|b| *b == 0)'
    if len(nones) == 1 and len(somes) == 1:
        fs = [r for r in nones[0][2] if r[0] in ('true', 'false') and is_call(r[1], 'Iterator>::all')]
        if len(fs) == 1 and fs[0][0] == 'true':
            call = fs[0][1]
            cl = call[3] if len(call) > 3 else None
            recv = call[2]
            src = ''
            if recv[0] == 'var' and isinstance(recv[2], int):
                ds = [d for d in f.defs.get(recv[2], []) if d['kind'] in ('assign', 'call')]
                src = ' | '.join(show(f.expand(f.rvalue_tree(d['rv']) if d['kind'] == 'assign' else f.call_tree(d['term']))) for d in ds)
            else:
                src = show(f.expand(recv))
            whole = src == '(core::slice::iter (<std::vec::Vec<T, A> as std::ops::Deref>::deref (Elf.0 codeview_info).build_id))'
            zero = cl is not None and cl[0] == 'closure' and closure_ret(cl[1]) in (['(Eq byte 0)'], ['(Eq (deref byte) 0)'], ['(Eq 0 byte)'])
            okn = whole and zero
            if not whole:
                why = 'the all-zero test does not run over the whole build id: %s' % src[:160]
            elif not zero:
                why = 'the all-zero test compares %s' % (closure_ret(cl[1]) if cl else None)
        # the Some outcome must be under the false edge of the same test
        if okn and not any(r[0] == 'false' and is_call(r[1], 'Iterator>::all') for r in somes[0][2]):
            okn, why = False, 'the derived id is not under the "some byte is non-zero" edge'
    if not okn:
        res.violation('C02.8', 'C02.8|elf-none', f, f.line, 'Elf: %s' % why)
    res.rule('C02.8', 1)
    oks = False
    if len(somes) == 1:
        t = somes[0][1]
        calls = [n[1] for n in walk(t) if isinstance(n, tuple) and n and n[0] == 'call']
        extra = [n for n in calls if not re.search(r'^std::option::Option::(map|and_then)$', n)]
        inner = t
        shape = is_call(t, 'Option::map') and t[3] == ('fnref', 'debugid::DebugId::from_uuid') and is_call(t[2], 'Option::map') and t[2][3][0] == 'closure' \
            and closure_ret(t[2][3][1]) == ['(uuid::builder::from_fields g.data1 g.data2 g.data3 g.data4)']
        oks = shape and not extra
        if not oks:
            res.violation('C02.8', 'C02.8|elf-some', f, f.line, 'Elf: the id is not guid.map(uuid of data1..data4).map(from_uuid) without further filtering: %s' % show(t)[:240])
    elif somes:
        res.violation('C02.8', 'C02.8|elf-some', f, f.line, 'Elf: %d derived outcomes' % len(somes))
    # the GUID: read at offset 0 with the dump's byte order from the build id or its zero-padded copy
    gl = [l for l in range(len(f.locals)) if f.local_name(l) == 'guid']
    for l in gl:
        for d in f.defs.get(l, []):
            if d['kind'] not in ('assign', 'call'):
                continue
            res.rule('C02.8', 1)
            tr = f.expand(f.call_tree(d['term']) if d['kind'] == 'call' else f.rvalue_tree(d['rv']))
            src = tr[2] if is_call(tr, 'Result::ok') else tr
            ok = is_call(src, 'scroll::Pread::pread_with') and src[3] == ('int', 0) and show(src[4]) == 'endian' and 'minidump_common::format::GUID' in (d.get('term') or {}).get('targs', ['minidump_common::format::GUID'])
            base = show(src[2]) if ok else ''
            direct = base == '(<std::vec::Vec<T, A> as std::ops::Deref>::deref (Elf.0 codeview_info).build_id)'
            padded = 'std::iter::repeat 0' in base and '(Elf.0 codeview_info).build_id' in base and 'Iterator::take' in base and 'Iterator::chain' in base
            if not (ok and (direct or padded)):
                res.violation('C02.8', 'C02.8|elf-guid', f, (d.get('term') or d.get('st') or {}).get('line'), 'Elf: the GUID is not pread_with::<GUID>(0, endian) over the build id (or its zero-padded copy): %s' % show(tr)[:200])
    if not gl:
        res.error('C02.8', 'local `guid` of read_debug_id not found')


def code_identifier_derivation(res, prog):
    """C02.9: the code identifier table of MinidumpModule::code_identifier: Pdb70 on macOS / iOS -> the signature in
    `{:#}` form; Pdb20 / Pdb70 -> `{:08X}{:x}` of (time_date_stamp, size_of_image); Elf -> None exactly when every byte
    of the build id is zero, else CodeId::from_binary(whole build id); no CodeView record on Windows -> the same
    timestamp/size form; anything else -> None."""
    res.rule('C02.9', 0, floor=5, note='code id derivation table of MinidumpModule::code_identifier')
    c = prog.crate('minidump')
    fs = [g for g in c.fns if g.path.endswith('MinidumpModule as minidump_common::traits::Module>::code_identifier')]
    if len(fs) != 1:
        res.error('C02.9', 'MinidumpModule::code_identifier not found')
        return
    f = fs[0]
    TS = ('(adt std::option::Option::Some (debugid::CodeId::new (std::hint::must_use (std::fmt::format (std::fmt::Arguments::new (bytes (195 32 0 0 105 8 0 192 0)) '
          '(array (core::fmt::rt::Argument::new_upper_hex (tuple self.raw.time_date_stamp self.raw.size_of_image).0) (core::fmt::rt::Argument::new_lower_hex (tuple self.raw.time_date_stamp self.raw.size_of_image).1)))))))')
    MAC = ('(adt std::option::Option::Some (debugid::CodeId::new (std::hint::must_use (std::fmt::format (std::fmt::Arguments::new (bytes (193 32 0 128 96 0)) '
           '(array (core::fmt::rt::Argument::new_display (tuple (Pdb70.0 (Some.0 self.codeview_info)).signature).0)))))))')
    ELF = '(adt std::option::Option::Some (debugid::CodeId::from_binary (<std::vec::Vec<T, A> as std::ops::Deref>::deref (Elf.0 (Some.0 self.codeview_info)).build_id)))'
    NONE = '(adt std::option::Option::None)'
    seen = {}
    for (b, i, tr) in ret_assigns(f):
        txt = show(f.expand(tr))
        facts = [r for r, gd, sx in panics.dominating_facts(f, b)]
        seen.setdefault(txt, []).append(facts)
    for want, what in ((TS, 'timestamp+size'), (MAC, 'mac signature'), (ELF, 'elf build id'), (NONE, 'none')):
        res.rule('C02.9', 1)
        if want not in seen:
            res.violation('C02.9', 'C02.9|%s' % what, f, f.line, 'the %s form of the code identifier is no longer produced as documented' % what)
    res.rule('C02.9', 1)
    extra = [x for x in seen if x not in (TS, MAC, ELF, NONE)]
    if extra:
        res.violation('C02.9', 'C02.9|extra', f, f.line, 'code identifier derived in an undocumented way: %s' % extra[0][:240])
    # Elf: governed by the all-zero test over the whole build id
    res.rule('C02.9', 1)
    ok = False
    for facts in seen.get(ELF, []):
        for r in facts:
            if r[0] == 'false' and is_call(r[1], 'Iterator>::all'):
                recv = r[1][2]
                src = ''
                if recv[0] == 'var' and isinstance(recv[2], int):
                    src = ' | '.join(show(f.expand(f.rvalue_tree(d['rv']) if d['kind'] == 'assign' else f.call_tree(d['term']))) for d in f.defs.get(recv[2], []) if d['kind'] in ('assign', 'call'))
                cl = r[1][3]
                g = c.fn(cl[1]) if cl[0] == 'closure' else None
                zero = g is not None and [show(g.expand(t)) for (_, _, t) in ret_assigns(g)] in (['(Eq byte 0)'], ['(Eq (deref byte) 0)'])
                if zero and src == '(core::slice::iter (<std::vec::Vec<T, A> as std::ops::Deref>::deref (Elf.0 (Some.0 self.codeview_info)).build_id))':
                    ok = True
    if ELF in seen and not ok:
        res.violation('C02.9', 'C02.9|elf-zero', f, f.line, 'Elf code id: not guarded by "not every byte of the whole build id is zero"')


def elf_record(res, prog):
    """C02.11: the ELF ('BpEL') CodeView record is its signature followed by the build id, and the build id is *the rest of
    the record*, byte for byte (identifiers are derived from it, C02.8 / C02.9).  In CV_INFO_ELF's reader the build_id
    field must be one read of `src.len() - offset` bytes at the offset the signature read left, copied as it is: no
    slicing, trimming or filtering of the bytes in between."""
    res.rule('C02.11', 0, floor=1, note='CV_INFO_ELF.build_id is the rest of the record, unmodified')
    c = prog.crate('minidump_common')
    fs = [f for f in c.fns if 'CV_INFO_ELF' in f.path and f.path.endswith('try_from_ctx') and f.kind in ('fn', 'method')]
    if len(fs) != 1:
        res.error('C02.11', 'the TryFromCtx reader of CV_INFO_ELF was not found')
        return
    f = fs[0]
    seen = 0
    for b in sorted(f.reach):
        for s_ in f.blocks[b]['s']:
            rv = s_['rv'] if s_['k'] == 'assign' else None
            if not rv or rv['k'] != 'agg' or rv.get('ak') != 'adt' or not rv.get('adt', '').endswith('CV_INFO_ELF'):
                continue
            fields = rv.get('fields') or []
            if 'build_id' not in fields:
                continue
            seen += 1
            res.rule('C02.11', 1)
            v = f.expand(f.operand_tree(rv['xs'][fields.index('build_id')]))
            sv = show(v)
            ok = bool(re.match(r'^\((std::slice::to_owned|<\[u8\] as std::borrow::ToOwned>::to_owned|std::slice::to_vec|<\[T\]>::to_vec|alloc::slice::to_vec|alloc::slice::to_owned) \(Continue\.0 \(trybranch \(<\[u8\] as scroll::Pread<Ctx, E>>::gread_with src (\S+) \(Sub \((core::slice::len|len) src\) \2\)\)\)\)\)$', sv))
            if not ok:
                res.violation('C02.11', 'C02.11|build-id', f, s_.get('line'), 'the build id of an ELF CodeView record is %s, not the unmodified rest of the record (`src.gread_with::<&[u8]>(offset, src.len() - *offset)?.to_owned()`)' % sv[:260])
    if not seen:
        res.error('C02.11', 'no CV_INFO_ELF { .. build_id .. } construction found in its reader')


def architecture_tables(res, prog):
    """C02.10: every processor architecture the system-info reader knows as a CPU has a context layout in
    MinidumpContext::read - the two `match ProcessorArchitecture::from_u16(..)` tables list the same architectures.
    (Before the repair 3a340a5 mips64 was a known CPU whose contexts were all UnknownCpuContext.)"""
    res.rule('C02.10', 0, floor=10, note='Cpu::from_processor_architecture and MinidumpContext::read cover the same architectures')
    c = prog.crate('minidump')
    tabs = {}
    for path in ('minidump::system_info::Cpu::from_processor_architecture', 'minidump::context::MinidumpContext::read'):
        f = need_fn(res, c, path, 'C02.10')
        if f is None:
            return
        vals = None
        for b in sorted(f.reach):
            t = f.blocks[b]['t']
            if t['k'] == 'switch':
                x = show(f.expand(f.operand_tree(t['x'])))
                if x.startswith('(discr (Some.0 (num_traits::FromPrimitive::from_u16 '):
                    vals = set(v for v, tgt in t['ts'])
        if vals is None:
            res.error('C02.10', 'no match on ProcessorArchitecture::from_u16 in %s' % path)
            return
        tabs[path] = vals
    a, b = tabs['minidump::system_info::Cpu::from_processor_architecture'], tabs['minidump::context::MinidumpContext::read']
    adt = prog.crate('minidump_common').adts.get('minidump_common::format::ProcessorArchitecture')
    names = {v.get('discr', i): v['name'] for i, v in enumerate(adt['variants'])} if adt else {}
    for v in sorted(a | b):
        res.rule('C02.10', 1)
        if v in a and v not in b:
            res.violation('C02.10', 'C02.10|no-context|%s' % names.get(v, v), c.fn('minidump::context::MinidumpContext::read'), None, '%s is a known CPU for the system info but has no context layout in MinidumpContext::read: every thread context of such a dump is UnknownCpuContext' % names.get(v, v))
        elif v in b and v not in a:
            res.violation('C02.10', 'C02.10|no-cpu|%s' % names.get(v, v), c.fn('minidump::system_info::Cpu::from_processor_architecture'), None, '%s has a context layout but is an unknown CPU for the system info' % names.get(v, v))


def run(tier, t0):
    res = harness.Result(PID)
    prog = program()
    n = threading(res, prog)
    both_orders(res, prog)
    layouts(res, prog)
    last_wins(res, prog)
    string_decoders(res, prog)
    default_context_reads(res, prog)
    memory_regions(res, prog)
    cpu_union(res, prog)
    identifier_derivation(res, prog)
    code_identifier_derivation(res, prog)
    architecture_tables(res, prog)
    elf_record(res, prog)
    res.assumptions += [
        'scroll reads a field with the endianness it is given and derive(Pread)/derive(SizeWith) walk the same field list (trusted crate)',
        'field offsets and padding against the serializer, identifier derivation and memory contents are NOT decided (they relate values to values)',
    ]
    return harness.finish(res, tier, t0, distinct=4, explanation=(
        'Narrow claim: byte-order and layout-pairing clauses. Every scroll read that takes an Endian context receives a value that is data-flow-derived from a parameter or field (Endian constants occur only in the signature probe of Minidump::read); '
        'every branch on the byte order has both arms and they are LE/BE twins; every format.rs type read through scroll derives Pread and SizeWith from one field list (hand-written readers are a reviewed list); '
        'duplicate directory entries are stored with an unconditional insert in file order. Exact reproduction of a serialized model is behavioural and not decided.'))
