"""shared helpers for rule modules"""
import os, re, sys
sys.path.insert(0, os.path.dirname(os.path.dirname(os.path.abspath(__file__))))
import harness
from mirq import *

ARCHES = ['x86', 'amd64', 'arm', 'arm64', 'arm64_old', 'mips']


def program(config='default'):
    import slices
    prog = Program(harness.ensure_facts(config))
    slices.PROG = prog
    return prog


def need_fn(res, crate, path, rid):
    f = crate.fn(path)
    if f is None:
        res.error(rid, 'anchor function %s::%s not found in the facts' % (crate.name, path))
    return f


def some_returns(fn):
    """(bb, stmt index, returned operand tree) for every `_0 = Some(x)`"""
    out = []
    for b in sorted(fn.reach):
        for i, s in enumerate(fn.blocks[b]['s']):
            if s['k'] == 'assign' and s['lhs']['l'] == 0 and not s['lhs'].get('p'):
                rv = s['rv']
                if rv['k'] == 'agg' and rv.get('ak') == 'adt' and rv.get('variant') == 'Some' and rv['adt'].endswith('option::Option'):
                    out.append((b, i, fn.operand_tree(rv['xs'][0])))
    return out


def ret_assigns(fn):
    """every whole assignment to the return place: (bb, idx, tree)"""
    out = []
    for b in sorted(fn.reach):
        for i, s in enumerate(fn.blocks[b]['s']):
            if s['k'] == 'assign' and s['lhs']['l'] == 0 and not s['lhs'].get('p'):
                out.append((b, i, fn.rvalue_tree(s['rv'])))
        t = fn.blocks[b]['t']
        if t['k'] == 'call' and t['dest']['l'] == 0 and not t['dest'].get('p'):
            out.append((b, 't', fn.call_tree(t)))
    return out


def part_assigns(fn, field):
    """statements assigning to a place whose last projection is the named field:
    (bb, idx, place tree, rvalue tree)"""
    out = []
    for b in sorted(fn.reach):
        for i, s in enumerate(fn.blocks[b]['s']):
            if s['k'] != 'assign':
                continue
            proj = s['lhs'].get('p') or []
            fs = [e for e in proj if isinstance(e, dict) and 'f' in e]
            if fs and fs[-1].get('n') == field and proj[-1] is fs[-1]:
                out.append((b, i, fn.place_tree(s['lhs']), fn.rvalue_tree(s['rv'])))
    return out


def const_str(prog, crate_name, item):
    """string value of a `const X: &str` item (const-evaluated by rustc, recorded by the driver)"""
    for n in [crate_name] + list(prog.crates.keys()):
        c = prog.crate(n)
        if item in c.consts and 'str' in c.consts[item]:
            return c.consts[item]['str']
    return None


def const_str_list(prog, crate_name, item):
    """values of a `const X: &[&str] = &[..]` item"""
    c = prog.crate(crate_name)
    path = item
    f = c.fn(path)
    if f is None:
        return None
    out = []
    for b in sorted(f.reach):
        for s in f.blocks[b]['s']:
            if s['k'] == 'assign' and s['rv']['k'] == 'agg' and s['rv'].get('ak') == 'array':
                for x in s['rv']['xs']:
                    t = f.operand_tree(x)
                    if t[0] == 'str':
                        out.append(t[1])
                    elif t[0] == 'item':
                        v = const_str(prog, crate_name, t[1])
                        out.append(v if v is not None else '<item %s>' % t[1])
                return out
    return None


def resolve_items(prog, crate_name, tree):
    """replace ('item', path) leaves naming string / integer consts by their values"""
    if not isinstance(tree, tuple) or not tree:
        return tree
    if tree[0] == 'item':
        v = prog.const_int(tree[1], crate_name)
        if v is not None:
            return ('int', v)
        s = const_str(prog, crate_name, tree[1])
        if s is not None:
            return ('str', s)
        return tree
    if tree[0] in ('int', 'str', 'fnref', 'float', 'const', 'arg', 'var'):
        return tree
    return tuple([tree[0]] + [resolve_items(prog, crate_name, x) if isinstance(x, tuple) else x for x in tree[1:]])


def strip_casts(tree):
    while isinstance(tree, tuple) and tree and tree[0] == 'cast':
        tree = tree[2]
    # `u64::from(x)` / `x.into()` widenings are value-preserving too
    while isinstance(tree, tuple) and tree and tree[0] == 'call' and len(tree) == 3 and re.search(r'(convert::From<.*>>::from|convert::Into<.*>>::into|::from|::into)$', tree[1]):
        tree = strip_casts(tree[2])
    return tree


def fmt_state(facts):
    return [show(c) + ' == ' + str(v) for c, v in sorted(facts, key=str)]


def closure_env(prog, cl):
    """capture index -> (parent function, the captured value as an expanded tree of the parent) for a closure body"""
    m = re.match(r'^(.*)::\{(closure|coroutine)#\d+\}$', cl.qual)
    if not m:
        return None, {}
    par = None
    for cn in harness.CRATES:
        c = prog.crate(cn)
        par = c.fn(m.group(1))
        if par is not None:
            break
    if par is None:
        return None, {}
    env = {}
    for b in sorted(par.reach):
        for s in par.blocks[b]['s']:
            if s['k'] == 'assign' and s['rv']['k'] == 'agg' and s['rv'].get('def') == cl.qual:
                for i, x in enumerate(s['rv'].get('xs', [])):
                    t = par.expand(par.operand_tree(x))
                    while isinstance(t, tuple) and t and t[0] in ('ref', 'mutref', 'addr') and len(t) >= 2:
                        t = t[-1]
                    env[i] = t
    return par, env


def resolve_upvars(cl, tree, env):
    """replace captured variables (('var', name, 'upN') leaves) in a tree of the closure by the parent's tree for them"""
    if not isinstance(tree, tuple) or not tree:
        return tree
    if tree[0] == 'var' and isinstance(tree[2], str) and tree[2].startswith('up'):
        try:
            i = int(tree[2][2:])
        except ValueError:
            return tree
        return env.get(i, tree)
    if tree[0] in ('int', 'str', 'item', 'fnref', 'float', 'const', 'arg', 'var', 'bytes'):
        return tree
    return tuple([tree[0]] + [resolve_upvars(cl, x, env) if isinstance(x, tuple) else x for x in tree[1:]])


def with_helpers(prog, crate_name, anchor_re):
    """Views of the functions whose path matches `anchor_re` with their private same-module helper functions inlined,
    so that a rule about "what this unwinder / reader / builder does" survives an extract-function refactoring.
    Returns (views: path -> Fn, absorbed: set of helper paths that are called only from anchors or absorbed helpers)."""
    import mirq
    c = prog.crate(crate_name)
    rx = re.compile(anchor_re)

    def module(path):
        p = re.sub(r'(::\{(closure|coroutine)#\d+\})+$', '', path)
        return p.rsplit('::', 1)[0]
    anchors = [f for f in c.fns if rx.search(f.path)]
    amods = set(module(f.path) for f in anchors)

    def is_helper(g):
        return g.kind in ('fn', 'method') and not rx.search(g.path) and not g.raw.get('pub') and module(g.path) in amods and not (g.mac and g.mac.startswith('derive('))
    # callers of each helper
    callers = {}
    for f in c.fns:
        for b, t in f.calls():
            g = c.fn(f.callee(t))
            if g is not None and is_helper(g):
                callers.setdefault(g.path, set()).add(f.path)
    absorbed = set()
    changed = True
    while changed:
        changed = False
        for h, cs in callers.items():
            if h in absorbed:
                continue
            if cs and all(rx.search(x) or x in absorbed for x in cs):
                absorbed.add(h)
                changed = True
    views = {}
    for f in anchors:
        views[f.path] = mirq.inline_calls(prog, f, lambda g: g.path in absorbed and module(g.path) == module(f.path), depth=3, crates=[crate_name])
    return views, absorbed
