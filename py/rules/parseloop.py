"""boolean abstraction of the streaming loops SymbolFile::parse / parse_async.

The termination and the "every byte is parsed before success" arguments of these loops rest on four boolean flags
(fully_consumed, tried_to_grow, in_panic_recovery, just_finished_recovering), on whether the last read returned
bytes, and on whether the window is empty.  The abstraction is extracted from MIR on every run — nothing about the
loop is written down here except which calls mean "bytes arrived" and "bytes left the window":

  abstract state  = value (true / false / unknown) of every named bool local assigned inside the loop,
                    E = "the window is empty" (true / false / unknown),
                    D = "fully_consumed has not been recomputed since bytes last arrived".
  one iteration   = every path from the loop header back to it, explored with that state; unknown conditions fork,
                    tests of a flag refine it, logging branches are merged.
  progress        = the path passed `size != 0` after read() (the reader gave bytes: a finite resource, assumption)
                    or a consume(n) whose n is `<something> + k`, k > 0 (bytes left the window: bounded by bytes read).

  P1 (C09)  among the abstract states reachable from the initial one, the iterations *without* progress form no
            cycle: after finitely many reads and consumes every execution leaves the loop.
  P2 (C10)  fully_consumed is never tested while D holds: success at end of input is only reported when the window
            was seen empty after the last bytes arrived, whatever the chunking."""
from .common import *

CONSUME = 'circular::Buffer::consume'
FILL = 'circular::Buffer::fill'


class Model:
    def __init__(self, fn):
        self.fn = fn
        loops = fn.loops()
        cands = []
        for h, body in loops.items():
            if any((fn.callee(fn.blocks[b]['t']) or '').endswith('SymbolParser::parse_more') for b in body if fn.blocks[b]['t']['k'] == 'call'):
                cands.append((len(body), h, body))
        if not cands:
            raise RuntimeError('no loop around parse_more in %s' % fn.qual)
        _, self.header, self.body = max(cands)
        self.body = set(self.body)
        # flags: named bool locals with a whole assignment inside the loop
        self.flags = []
        for l in range(len(fn.locals)):
            if fn.local_name(l) and fn.local_ty(l) == 'bool':
                ds = [d for d in fn.defs.get(l, []) if d['kind'] == 'assign' and d['bb'] in self.body and not is_log_term(d['st'])]
                outside = [d for d in fn.defs.get(l, []) if d['kind'] == 'assign' and d['bb'] not in self.body]
                if ds and outside:
                    self.flags.append(l)
        self.names = [fn.local_name(l) for l in self.flags]
        self.fc = [l for l in self.flags if fn.local_name(l) == 'fully_consumed']
        self.stale_tests = []
        self.vals = {}
        self.traced = set()
        self.notes = []

    def initial(self):
        fn = self.fn
        st = {}
        for l in self.flags:
            vals = set()
            for d in fn.defs.get(l, []):
                if d['kind'] == 'assign' and d['bb'] not in self.body:
                    tr = fn.rvalue_tree(d['rv'])
                    vals.add(tr[1] if tr[0] == 'int' else None)
            st[l] = bool(vals.pop()) if len(vals) == 1 and None not in vals else None
        st['E'] = True     # a fresh window
        st['D'] = False
        return self.freeze(st)

    def freeze(self, st):
        return tuple(sorted(((str(k), v) for k, v in st.items())))

    def thaw(self, fs):
        out = {}
        for k, v in fs:
            out[int(k) if k.isdigit() else k] = v
        return out

    def describe(self, fs):
        st = self.thaw(fs)
        parts = []
        for l in self.flags:
            parts.append('%s=%s' % (self.fn.local_name(l), {True: 'T', False: 'F', None: '?'}[st[l]]))
        parts.append('empty=%s' % {True: 'T', False: 'F', None: '?'}[st['E']])
        parts.append('stale=%s' % ('T' if st['D'] else 'F'))
        return ' '.join(parts)

    def resolve(self, tree, kn):
        """expand a tree; a local with several definitions is replaced by the definition that reached this point on the
        current path (remembered in the path state), when there is one"""
        t = self.fn.expand(tree)
        for _ in range(4):
            if t[0] == 'var' and ('val', t[2]) in kn:
                t = self.vals[kn[('val', t[2])]]
            else:
                break
        return t

    def positive(self, tree, kn=None):
        t = self.resolve(tree, kn or {})
        while t[0] == 'cast':
            t = t[2]
        return t[0] == 'bin' and t[1] == 'Add' and t[3][0] == 'int' and t[3][1] > 0

    def is_read_size(self, tree):
        """the byte count the reader returned in this iteration (the Ok payload of Read::read)"""
        e = show(self.fn.expand(tree))
        return re.match(r'^\(Continue\.0 \(trybranch \((std::io::Read::read|std::io::impls::read|<[^>]*as std::io::Read>::read) ', e) is not None

    def is_window_len(self, tree, kn=None):
        s = show(self.resolve(tree, kn or {}))
        return s in ('(core::slice::len (circular::Buffer::data buf))', '(core::slice::len (circular::Buffer::data (* buf)))')

    def iteration(self, fs0):
        """all (state after, progress, trace) of one trip round the loop started in abstract state fs0"""
        fn = self.fn
        out = set()
        start = (self.header, fs0, False, frozenset())
        seen = {start}
        work = [start]
        first = True
        while work:
            b, fs, prog_, known = work.pop()
            if b == self.header and not first:
                out.add((fs, prog_))
                self.traced.add((fs0, fs, prog_, dict(known).get(('trace',), ())))
                continue
            first = False
            if b not in self.body:
                continue    # left the loop
            st = self.thaw(fs)
            kn = dict(known)
            blk = fn.blocks[b]
            for s in blk['s']:
                if s['k'] == 'assign' and not s['lhs'].get('p') and s['lhs']['l'] not in st and not is_log_term(s):
                    l = s['lhs']['l']
                    if len([d for d in fn.defs.get(l, []) if d['kind'] in ('assign', 'call')]) > 1 and (fn.local_ty(l) or '') in ('usize', 'u64', 'u32'):
                        tr = self.resolve(fn.rvalue_tree(s['rv']), kn)
                        key = show(tr)[:300]
                        self.vals[key] = tr
                        kn[('val', l)] = key
                if s['k'] == 'assign' and not s['lhs'].get('p') and s['lhs']['l'] in st and not is_log_term(s):
                    l = s['lhs']['l']
                    tr = fn.rvalue_tree(s['rv'])
                    if tr[0] == 'int':
                        st[l] = bool(tr[1])
                    elif tr[0] == 'var' and tr[2] in st:
                        st[l] = st[tr[2]]
                    else:
                        st[l] = None
                    if l in self.fc:
                        st['D'] = False
            t = blk['t']
            k = t['k']
            succs = []
            if k == 'call' and not is_log_term(t):
                n = fn.callee(t) or ''
                short = n.split('::')[-1]
                if n.startswith('circular::Buffer::') and short in ('consume', 'grow', 'fill') or n.endswith('SymbolParser::parse_more') or n.endswith('SymbolParser::finish') \
                        or ((fn.callee_decl(t) or '').endswith('FnMut::call_mut') and 'callback' in show(fn.operand_tree(t['args'][0]))):
                    kn[('trace',)] = kn.get(('trace',), ()) + ('callback' if short == 'call_mut' else short,)
                if n == CONSUME:
                    amt = fn.operand_tree(t['args'][1])
                    if self.positive(amt, kn):
                        prog_ = True
                        st['E'] = None
                    elif self.is_window_len(amt, kn):
                        st['E'] = True
                    elif st['E'] is not True:
                        st['E'] = None
                dest = t.get('dest', {})
                if dest and not dest.get('p') and dest.get('l') in st:
                    st[dest['l']] = None
                elif dest and not dest.get('p') and (fn.local_ty(dest['l']) or '') in ('usize', 'u64', 'u32') \
                        and len([d for d in fn.defs.get(dest['l'], []) if d['kind'] in ('assign', 'call')]) > 1:
                    tr = self.resolve(fn.call_tree(t), kn)
                    key = show(tr)[:300]
                    self.vals[key] = tr
                    kn[('val', dest['l'])] = key
                if t.get('t') is not None:
                    succs.append((t['t'], st, prog_, kn))
            elif k == 'switch' and not is_log_term(t):
                raw = fn.operand_tree(t['x'])
                cond = fn.expand(raw)
                labels = [(v, tgt) for v, tgt in t['ts']] + [('else', t['o'])]
                isbool = t.get('ty') == 'bool'

                def truth_of_label(lab):
                    # bool switches: [[0, f]] else t
                    if lab == 'else':
                        vals = [v for v, _ in t['ts']]
                        return True if vals == [0] else (False if vals == [1] else None)
                    return bool(lab)
                var = cond if cond[0] == 'var' and cond[2] in st else None
                neg = cond[2] if cond[0] == 'un' and cond[1] == 'Not' and cond[2][0] == 'var' and cond[2][2] in st else None
                cs = show(cond)
                for lab, tgt in labels:
                    st2 = dict(st)
                    kn2 = dict(kn)
                    p2 = prog_
                    if isbool and (var is not None or neg is not None):
                        l = (var or neg)[2]
                        tv = truth_of_label(lab)
                        if neg is not None and tv is not None:
                            tv = not tv
                        if l in self.fc and st['D']:
                            self.stale_tests.append((b, t.get('line')))
                        if st[l] is not None and tv is not None and st[l] != tv:
                            continue
                        if tv is not None:
                            st2[l] = tv
                    elif isbool and cs in ('(core::slice::is_empty (circular::Buffer::data buf))', '(core::slice::is_empty (circular::Buffer::data (* buf)))'):
                        tv = truth_of_label(lab)
                        if st['E'] is not None and tv is not None and st['E'] != tv:
                            continue
                        if tv is not None:
                            st2['E'] = tv
                    elif isbool and raw[0] == 'bin' and raw[1] in ('Eq', 'Ne') and raw[3] == ('int', 0) and self.is_read_size(raw[2]):
                        tv = truth_of_label(lab)
                        zero = tv if raw[1] == 'Eq' else (None if tv is None else not tv)
                        if cs in kn2 and kn2[cs] != tv:
                            continue
                        kn2[cs] = tv
                        if zero is False:
                            p2 = True          # the reader delivered bytes
                            st2['E'] = False
                            st2['D'] = True
                    else:
                        # decisions about the same Option / Result made in different spellings must agree on one path:
                        # `match x { Some(..) .. }` (a switch on discr x) and `x.is_some()` (a bool)
                        key, val = cs, lab
                        c0 = cond
                        if c0[0] == 'call' and len(c0) == 3 and re.search(r'(Option::is_some|Option::is_none|Result::is_ok|Result::is_err)$', c0[1]):
                            tv = truth_of_label(lab)
                            pos = c0[1].endswith('is_some') or c0[1].endswith('is_err')
                            key = '(discr %s)' % show(c0[2])
                            val = None if tv is None else (1 if (tv == pos) else 0)
                        elif c0[0] == 'discr':
                            vals_ = [v for v, _ in t['ts']]
                            if lab == 'else':
                                dom = None
                                xo = t['x'].get('m') or t['x'].get('c')
                                sd = fn.single_def(xo['l']) if xo and not xo.get('p') else None
                                if sd is not None and sd['kind'] == 'assign' and sd['rv']['k'] == 'discr':
                                    dom = sd['rv'].get('dv')
                                rest = [v for v in (dom or []) if v not in vals_]
                                val = rest[0] if len(rest) == 1 else ('else', tuple(vals_))
                        if val is not None:
                            if key in kn2 and kn2[key] != val:
                                continue
                            if len(key) < 400:
                                kn2[key] = val
                    succs.append((tgt, st2, p2, kn2))
            else:
                for s_ in fn.succ[b]:
                    succs.append((s_, st, prog_, kn))
            for (tgt, st2, p2, kn2) in succs:
                item = (tgt, self.freeze(st2), p2, frozenset(kn2.items()))
                if item not in seen:
                    seen.add(item)
                    work.append(item)
            if len(seen) > 400000:
                raise RuntimeError('abstract exploration of %s exceeded its budget' % fn.qual)
        return out

    def explore(self):
        init = self.initial()
        graph = {}
        work = [init]
        while work:
            s = work.pop()
            if s in graph:
                continue
            graph[s] = self.iteration(s)
            for (s2, p) in graph[s]:
                if s2 not in graph:
                    work.append(s2)
            if len(graph) > 4000:
                raise RuntimeError('too many abstract states')
        return init, graph


def stall_cycle(graph):
    """a cycle made of progress-free iterations, as a list of states, or None"""
    color = {}
    stack = []

    def dfs(u):
        color[u] = 1
        stack.append(u)
        for (v, p) in graph.get(u, ()):
            if p:
                continue
            if color.get(v) == 1:
                return stack[stack.index(v):] + [v]
            if v not in color:
                r = dfs(v)
                if r:
                    return r
        stack.pop()
        color[u] = 2
        return None
    import sys
    sys.setrecursionlimit(20000)
    for u in list(graph):
        if u not in color:
            r = dfs(u)
            if r:
                return r
    return None


def check(res, prog, rid_term, rid_stale):
    bs = prog.crate('breakpad_symbols')
    fns = [f for f in bs.fns if re.search(r'SymbolFile>::parse$', f.qual) or re.search(r'SymbolFile>::parse_async::\{closure#0\}$', f.qual)]
    if rid_term:
        res.rule(rid_term, 0, floor=2, note='boolean abstraction of the streaming loops: no cycle of progress-free iterations among reachable abstract states')
    if rid_stale:
        res.rule(rid_stale, 0, floor=2, note='fully_consumed is recomputed between the arrival of bytes and its next test (success at end of input is chunking-independent)')
    if len(fns) < 1:
        res.error(rid_term or rid_stale, 'SymbolFile::parse not found')
    for f in fns:
        try:
            m = Model(f)
            init, graph = m.explore()
        except RuntimeError as e:
            res.error(rid_term or rid_stale, str(e))
            continue
        if sorted(m.names) != ['fully_consumed', 'in_panic_recovery', 'just_finished_recovering', 'tried_to_grow']:
            m.notes.append('flags found: %s' % m.names)
        stalls = sum(1 for s in graph for (s2, p) in graph[s] if not p)
        info = {'fn': f.qual, 'flags': m.names, 'initial': m.describe(init), 'abstract_states': len(graph), 'iterations': sum(len(v) for v in graph.values()), 'progress_free_iterations': stalls}
        if rid_term:
            res.rule(rid_term, 1)
            res.rule(rid_term + '.states', len(graph), note='reachable abstract states explored')
            cyc = stall_cycle(graph)
            if cyc:
                res.violation(rid_term, '%s|%s|stall-cycle' % (rid_term, f.qual), f, f.blocks[m.header]['t'].get('line') or f.line,
                              'the loop can iterate forever without reading or consuming a byte: ' + '  ->  '.join(m.describe(s) for s in cyc[:6]))
            else:
                res.sample(dict(info, rule=rid_term))
            if 'fully_consumed' not in m.names or len(m.names) < 3:
                res.error(rid_term, 'the flag protocol of %s was not recognised (%s)' % (f.qual, m.names))
        if rid_stale:
            res.rule(rid_stale, 1)
            if m.stale_tests:
                b, line = m.stale_tests[0]
                res.violation(rid_stale, '%s|%s|stale-fully_consumed' % (rid_stale, f.qual), f, line,
                              'fully_consumed is tested (end-of-input decision) although bytes arrived since it was last computed: a chunk boundary can make the parser report success with unparsed bytes in the window')
            else:
                res.sample(dict(info, rule=rid_stale))
    res.assumptions += ['the reader delivers finitely many bytes (Read::read eventually returns 0 or an error; the HTTP body ends)',
                        'circular::Buffer::consume(n) removes n bytes from the window and fill(n) adds n (crate semantics)']
