"""C13 — processing is deterministic and independent of scheduling (G8 ORDER)."""
from .common import *
import panics

PID = 'C13'
SCOPE = ['minidump_processor', 'minidump_unwind', 'breakpad_symbols', 'minidump', 'minidump_stackwalk']
HASH_ITER = re.compile(r'^std::collections::Hash(Map|Set)::(iter|iter_mut|keys|values|values_mut|drain|into_keys|into_values|retain|extract_if)$')
HASH_TY = re.compile(r'std::collections::Hash(Map|Set)<|std::collections::hash_(map|set)::')
ORDER_FREE_SINK = re.compile(r'(Iterator::(any|all|count|sum|product|max|min|max_by_key|min_by_key|for_each)$)')
ADAPTORS = re.compile(r'Iterator::(map|filter|filter_map|cloned|copied|enumerate|chain|zip|flat_map|flatten|inspect|peekable|skip|take|rev|by_ref|fuse)$|IntoIterator::into_iter$')
SORTED_TARGET = re.compile(r'^(std::collections::(HashMap|HashSet|BTreeMap|BTreeSet)<)')

# reviewed order-insensitive consumers: key -> argument
TABLE = {
    'minidump::context::CpuContext::valid_registers|std::collections::HashSet::iter':
        'hands out an iterator over the validity set; its in-tree consumers (MinidumpContext::valid_registers goes through registers() = REGISTERS order; the printers test membership) do not observe its order. Backed by C13.1w: no workspace function other than the trait default calls CpuContext::valid_registers with a Some(..) validity',
}


def observing_sites(prog):
    for cn in SCOPE:
        for f in prog.crate(cn).fns:
            if f.mac and f.mac.startswith('derive('):
                continue
            for b, t in f.calls():
                n = f.callee(t)
                d = f.callee_decl(t)
                targs = t.get('targs') or []
                if HASH_ITER.search(n):
                    yield f, b, t, n
                elif d.endswith('IntoIterator::into_iter') and targs and re.match(r'^&?(mut )?std::collections::Hash(Map|Set)<', targs[0]):
                    yield f, b, t, 'into_iter(%s)' % re.match(r'^&?(mut )?std::collections::Hash(Map|Set)', targs[0]).group(0)


def follow(f, b, t):
    """follow the iterator produced at (b,t) through adaptors to its terminal consumer(s)"""
    derived = {t['dest']['l']}
    sinks = []
    changed = True
    seen_calls = set()
    while changed:
        changed = False
        for bb in sorted(f.reach):
            for s in f.blocks[bb]['s']:
                if s['k'] == 'assign' and not s['lhs'].get('p') and s['lhs']['l'] not in derived:
                    rv = s['rv']
                    src = None
                    if rv['k'] == 'use':
                        src = rv['x'].get('c') or rv['x'].get('m')
                    elif rv['k'] in ('ref', 'rawptr'):
                        src = rv['p']
                    if src is not None and src['l'] in derived:
                        derived.add(s['lhs']['l'])
                        changed = True
            tt = f.blocks[bb]['t']
            if tt['k'] != 'call' or bb in seen_calls or (bb == b):
                continue
            if not any(((a.get('c') or a.get('m') or {}).get('l') in derived) for a in tt['args']):
                continue
            seen_calls.add(bb)
            d = f.callee_decl(tt)
            if ADAPTORS.search(d):
                derived.add(tt['dest']['l'])
                changed = True
            else:
                sinks.append((bb, tt))
    return sinks


def hash_order(res, prog):
    res.rule('C13.1', 0, floor=2, note='every observation of HashMap/HashSet iteration order must end in an order-insensitive consumer')
    for f, b, t, what in observing_sites(prog):
        res.rule('C13.1', 1)
        key = '%s|%s' % (f.qual, what)
        if key in TABLE:
            res.sample({'rule': 'C13.1', 'site': key, 'verdict': 'table', 'why': TABLE[key][:160]})
            continue
        sinks = follow(f, b, t)
        verdict = None
        why = ''
        for bb, tt in sinks:
            d = f.callee_decl(tt)
            targs = tt.get('targs') or []
            if d.endswith('Iterator::collect') or d.endswith('FromIterator::from_iter'):
                target = targs[1] if len(targs) > 1 else tt.get('rty', '')
                if SORTED_TARGET.search(target) or SORTED_TARGET.search(tt.get('rty', '')):
                    verdict, why = verdict or 'ok', 'collected into %s' % target[:60]
                else:
                    # a Vec that is sorted before anything else uses it
                    dest = tt['dest']['l']
                    nm = f.local_name(dest)
                    sorted_after = any(re.search(r'slice::(sort|sort_by|sort_by_key|sort_unstable|sort_unstable_by|sort_unstable_by_key)$', f.callee(t2)) and f.dominates(bb, b2)
                                       and (nm is not None and nm in show(f.operand_tree(t2['args'][0]))) for b2, t2 in f.calls())
                    if sorted_after:
                        verdict, why = verdict or 'ok', 'collected into a Vec that is sorted before use'
                    else:
                        verdict, why = 'bad', 'hash-ordered items collected into %s' % (target[:80] or 'a sequence')
            elif d.endswith('Extend::extend'):
                target = targs[0] if targs else ''
                if SORTED_TARGET.search(target):
                    verdict, why = verdict or 'ok', 'extends %s' % target[:60]
                else:
                    verdict, why = 'bad', 'hash-ordered items appended to %s' % target[:80]
            elif ORDER_FREE_SINK.search(d) and not d.endswith('for_each'):
                verdict, why = verdict or 'ok', d.split('::')[-1]
            elif d.endswith('Iterator::next'):
                verdict, why = 'bad', 'a `for` loop / next() observes hash order'
            else:
                verdict, why = 'bad', 'hash-ordered iterator handed to %s' % f.callee(tt)
        if not sinks:
            verdict, why = 'bad', 'hash-ordered iterator escapes the function'
        if verdict == 'ok':
            res.sample({'rule': 'C13.1', 'site': key, 'verdict': 'order-insensitive', 'why': why})
        else:
            res.violation('C13.1', 'C13.1|%s' % key, f, t.get('line'), '%s: %s' % (what, why))
    # backing rule for the valid_registers table entry
    res.rule('C13.1w', 0, floor=1, note='CpuContext::valid_registers is only reached through the validity-All wrappers')
    for cn in SCOPE:
        for f in prog.crate(cn).fns:
            for b, t in f.calls():
                if f.callee_decl(t).endswith('CpuContext::valid_registers') or f.callee(t).endswith('CpuContext::valid_registers'):
                    res.rule('C13.1w', 1)
                    arg = show(f.expand(f.operand_tree(t['args'][1]))) if len(t['args']) > 1 else ''
                    if 'MinidumpContextValidity::All' not in arg:
                        res.violation('C13.1w', 'C13.1w|%s' % f.qual, f, t.get('line'), 'valid_registers called with %s: iterating a validity HashSet exposes hash order' % arg[:100])


def shared_writes(res, prog):
    """C13.2: writes to state shared between the concurrently polled per-thread futures"""
    res.rule('C13.2', 0, floor=1, note='mutations under a Mutex reachable from the per-thread futures: commutative, or keyed injectively')
    for cn in ('breakpad_symbols', 'minidump_processor', 'minidump_unwind'):
        for f in prog.crate(cn).fns:
            locked = {}
            for b, t in f.calls():
                if f.callee(t) in ('std::sync::Mutex::lock',):
                    locked[b] = show(f.expand(f.operand_tree(t['args'][0])))
            if not locked:
                continue
            # commutative: field += const
            for b in sorted(f.reach):
                for i, s in enumerate(f.blocks[b]['s']):
                    if s['k'] == 'assign' and s['lhs'].get('p'):
                        pt = show(f.place_tree(s['lhs']))
                        if 'deref_mut' in pt and 'MutexGuard' in pt:
                            res.rule('C13.2', 1)
                            rv = f.rvalue_tree(s['rv'])
                            # commutative only as a read-modify-write of the same place in one statement (one guard);
                            # a sum computed before an await and stored after it is a lost update
                            if rv[0] == 'bin' and rv[1] == 'Add' and rv[3][0] == 'int' and show(rv[2]) == show(f.place_tree(s['lhs'])):
                                res.sample({'rule': 'C13.2', 'fn': f.qual, 'write': pt[-60:] + ' += ' + show(rv[3]), 'verdict': 'commutative'}) if len(res.samples) < 30 else None
                            elif cn == 'breakpad_symbols':
                                res.violation('C13.2', 'C13.2|%s|store|%s' % (f.qual, pt.split('.')[-1][:40]), f, s.get('line'),
                                              'non-commutative store %s = %s into state shared by concurrently polled lookups: the final value depends on completion order' % (pt[-70:], show(rv)[:100]))
                            else:
                                pass  # plain assignments under the processor-stats lock feed the interactive UI only (see table below)
            for b, t in f.calls():
                n = f.callee(t)
                if n in ('std::collections::HashMap::insert', 'std::collections::BTreeMap::insert') and 'MutexGuard' in show(f.expand(f.operand_tree(t['args'][0]))):
                    res.rule('C13.2', 1)
                    keyt = show(f.expand(f.operand_tree(t['args'][1])))
                    target = show(f.expand(f.operand_tree(t['args'][0])))
                    if 'module_key' in keyt or ('code_file' in keyt and 'leafname' not in keyt and 'basename' not in keyt):
                        res.sample({'rule': 'C13.2', 'fn': f.qual, 'insert_key': keyt[:100], 'verdict': 'injective key'})
                    else:
                        res.violation('C13.2', 'C13.2|%s|insert' % f.qual, f, t.get('line'),
                                      'last-writer-wins insert into shared %s with key %s, which is not injective on the per-module slot key: two modules with the same key written by concurrently completing lookups make the result depend on completion order' % (target[-80:], keyt[:160]))


def joined_by_index(res, prog):
    res.rule('C13.3', 0, floor=1, note='per-thread results are joined positionally (join_all); no completion-ordered collectors')
    bad = re.compile(r'(FuturesUnordered|FuturesOrdered::push|select_all|select_ok|mpsc::|channel|JoinSet|tokio::spawn|spawn_blocking|std::thread::spawn|buffer_unordered)')
    found = 0
    for cn in ('minidump_processor', 'minidump_unwind', 'breakpad_symbols'):
        for f in prog.crate(cn).fns:
            for b, t in f.calls():
                n = f.callee(t)
                if n == 'futures_util::future::join_all':
                    found += 1
                    res.rule('C13.3', 1)
                    res.sample({'rule': 'C13.3', 'fn': f.qual, 'join': n})
                elif bad.search(n):
                    res.rule('C13.3', 1)
                    res.violation('C13.3', 'C13.3|%s|%s' % (f.qual, n), f, t.get('line'), 'completion-ordered concurrency primitive %s' % n)
    if not found:
        res.error('C13.3', 'join_all over the per-thread walks not found')


def no_ambient(res, prog):
    res.rule('C13.4', 0, floor=1, note='no wall clock, RNG or thread identity in the processing crates (one reviewed cache key)')
    amb = re.compile(r'(SystemTime::now|Instant::now|^rand::|::rand::|getrandom|std::process::id|thread::current|Thread::id|RandomState::new)')
    allow = {'minidump_unwind::symbols::debuginfo::PerThread::<T>::with': 'per-thread unwinder cache keyed by thread id (feature debuginfo); the id never flows into a frame'}
    for cn in ('minidump_processor', 'minidump_unwind', 'breakpad_symbols', 'minidump'):
        for f in prog.crate(cn).fns:
            for b, t in f.calls():
                n = f.callee(t)
                if amb.search(n):
                    res.rule('C13.4', 1)
                    if f.path in allow:
                        res.sample({'rule': 'C13.4', 'fn': f.qual, 'call': n, 'why': allow[f.path]})
                    else:
                        res.violation('C13.4', 'C13.4|%s|%s' % (f.qual, n), f, t.get('line'), 'ambient nondeterminism source %s in processing code' % n)
        # pointer-to-int casts
        for f in prog.crate(cn).fns:
            if f.mac and f.mac.startswith('derive('):
                continue
            for b in f.reach:
                for s in f.blocks[b]['s']:
                    if s['k'] == 'assign' and s['rv']['k'] == 'cast' and s['rv']['ck'] in ('PointerExposeProvenance',):
                        res.rule('C13.4', 1)
                        bad = ptr2int_escapes(f)
                        if bad:
                            res.violation('C13.4', 'C13.4|ptr2int|%s' % f.qual, f, bad[0][0] or s.get('line'), 'an address obtained by a pointer-to-integer cast is used other than in a difference of two addresses (%s)' % bad[0][1])
                        # a difference of two addresses inside one allocation is an offset: address-independent


def ptr2int_escapes(f):
    """Addresses (results of pointer-to-integer casts, and sums of an address and a length) may only meet in a
    subtraction of one address from another - an offset, which does not depend on where the allocator put the data.
    Returns [(line, what)] for every other use of such a value."""
    def places_of(node, out):
        if isinstance(node, dict):
            if isinstance(node.get('l'), int) and set(node) <= {'l', 'p'}:
                out.append(node)
                return
            for v in node.values():
                places_of(v, out)
        elif isinstance(node, list):
            for v in node:
                places_of(v, out)
    taint = set()
    changed = True
    bad = []
    for _ in range(6):
        changed = False
        for b in sorted(f.reach):
            for st in f.blocks[b]['s']:
                if st['k'] != 'assign' or st['lhs'].get('p'):
                    continue
                rv = st['rv']
                dst = st['lhs']['l']
                if rv['k'] == 'cast' and rv.get('ck') == 'PointerExposeProvenance':
                    if dst not in taint:
                        taint.add(dst); changed = True
                    continue
                ps = []
                places_of(rv, ps)
                reads = [p['l'] for p in ps if p['l'] in taint]
                if not reads:
                    continue
                if rv['k'] == 'bin' and rv['op'] in ('Sub', 'SubWithOverflow', 'SubUnchecked'):
                    lp, rp = [], []
                    places_of(rv['l'], lp); places_of(rv['r'], rp)
                    if any(p['l'] in taint for p in lp) and any(p['l'] in taint for p in rp):
                        continue        # address - address: an offset, clean
                if (rv['k'] == 'bin' and rv['op'] in ('Add', 'AddWithOverflow', 'AddUnchecked', 'Sub', 'SubWithOverflow')) or rv['k'] == 'use':
                    # address +/- length, a move / copy, or the value half of a checked operation: still an address
                    p = (rv['x'].get('m') or rv['x'].get('c')) if rv['k'] == 'use' else None
                    if p is not None and p.get('p') and any(isinstance(e, dict) and e.get('f') == 1 for e in p['p']):
                        continue        # the overflow flag of a checked operation
                    if dst not in taint:
                        taint.add(dst); changed = True
                    continue
                if rv['k'] in ('un',) and False:
                    continue
        if not changed:
            break
    for b in sorted(f.reach):
        for st in f.blocks[b]['s']:
            if st['k'] != 'assign':
                continue
            rv = st['rv']
            ps = []
            places_of(rv, ps)
            if not any(p['l'] in taint for p in ps):
                continue
            dst = st['lhs']['l']
            if not st['lhs'].get('p') and (dst in taint or (rv['k'] == 'bin' and rv['op'] in ('Sub', 'SubWithOverflow', 'SubUnchecked'))):
                continue
            if rv['k'] == 'use':
                p = rv['x'].get('m') or rv['x'].get('c')
                if p is not None and p.get('p') and any(isinstance(e, dict) and e.get('f') == 1 for e in p['p']):
                    continue
            if rv['k'] == 'un' and rv.get('op') == 'Not' and (f.local_ty(dst) or '') == 'bool':
                continue   # `!overflowed` feeding the overflow assert
            bad.append((st.get('line'), 'stored / transformed by %s' % rv['k']))
        t = f.blocks[b]['t']
        if t['k'] == 'assert':
            continue
        ps = []
        places_of({k: v for k, v in t.items() if k != 'dest'}, ps)
        if any(p['l'] in taint for p in ps):
            bad.append((t.get('line'), 'handed to %s' % (t.get('fn') or t['k'])))
    if 0 in taint:
        bad.append((f.line, 'returned'))
    return bad

ACCESSOR = re.compile(r'^minidump_common::traits::Module::(\w+)$')


def cache_key_complete(res, prog):
    """C13.5: results cached per module (symbol files, stats recorded while filling the cache) are shared by every module
    with the same key, and which module fills a slot depends on completion order.  Everything the fill reads from the
    module must therefore be part of the key, on every return path of module_key."""
    bs = prog.crate('breakpad_symbols')
    res.rule('C13.5', 0, floor=2, note='cache key covers every Module accessor read while filling a per-module cache slot')
    mk = bs.fn('breakpad_symbols::module_key')
    if mk is None:
        res.error('C13.5', 'breakpad_symbols::module_key not found')
        return
    byname = {f.qual: f for f in bs.fns}

    def accessors_under(roots):
        seen = set()
        acc = {}
        work = list(roots)
        while work:
            f = work.pop()
            if f.qual in seen:
                continue
            seen.add(f.qual)
            # nested closures / coroutine bodies belong to their parent
            for g in bs.fns:
                if g.qual.startswith(f.qual + '::{') and g.qual not in seen:
                    work.append(g)
            for b, t in f.calls():
                if is_log_term(t):
                    continue
                n = f.callee(t) or ''
                d = f.callee_decl(t) or ''
                m = ACCESSOR.match(d) or ACCESSOR.match(n)
                if m:
                    acc.setdefault(m.group(1), (f, t.get('line')))
                    continue
                if n in byname:
                    work.append(byname[n])
                if re.search(r'SymbolSupplier::(locate_symbols|locate_file)$', d):
                    # dynamic dispatch: every implementation in the crate
                    for g in bs.fns:
                        if re.search(r' as SymbolSupplier>::(locate_symbols|locate_file)$', g.qual):
                            work.append(g)
        return acc, seen
    sites = 0
    for f in bs.fns:
        for b, t in f.calls():
            if (f.callee(t) or '') != mk.qual:
                continue
            sites += 1
            fills = [g for g in bs.fns if g.qual.startswith(f.qual + '::{')]
            if not fills:
                # a key helper (file_key): the functions that call it do the lookup / fill themselves
                fills = [g for g in bs.fns if any((g.callee(t2) or '') == f.qual for _, t2 in g.calls())]
            used, seen = accessors_under(fills)
            for (rb, ri, tr) in ret_assigns(mk):
                res.rule('C13.5', 1)
                e = mk.expand(tr)
                have = set()
                for x in walk(e):
                    if isinstance(x, tuple) and x and x[0] == 'call':
                        m = ACCESSOR.match(x[1])
                        if m:
                            have.add(m.group(1))
                missing = sorted(set(used) - have)
                if missing:
                    g, line = used[missing[0]]
                    res.violation('C13.5', 'C13.5|%s|%s' % (f.qual, ','.join(missing)), g, line,
                                  'the fill of the per-module cache slot in %s reads module.%s(), which module_key (return at %s:%s) does not include: modules that differ only in it share a slot, and the one whose lookup completes first decides what is cached / recorded' % (f.qual, '(), module.'.join(missing), mk.file, mk.blocks[rb]['t'].get('line') or mk.line))
                else:
                    res.sample({'rule': 'C13.5', 'cache_site': f.qual, 'fill_reads': sorted(used), 'key_has': sorted(have), 'functions_followed': len(seen)})
    if sites == 0:
        res.error('C13.5', 'no call of module_key found')


def run(tier, t0):
    res = harness.Result(PID)
    prog = program()
    hash_order(res, prog)
    shared_writes(res, prog)
    joined_by_index(res, prog)
    no_ambient(res, prog)
    cache_key_complete(res, prog)
    # C13.6 no per-thread state survives from one report to the next (shared with C15.3b)
    from . import C15
    C15.pointer_width_context(res, prog, prog.crate('minidump_processor'), 'C13.6')
    # ... and that thread-local is the only one the processing crates touch
    for cn in SCOPE:
        for f in prog.crate(cn).fns:
            if f.mac and f.mac.startswith('derive('):
                continue
            for b, t in f.calls():
                n = f.callee(t) or ''
                if re.search(r'thread::(local::)?LocalKey::(with|try_with|set|get|take|replace|with_borrow|with_borrow_mut)$', n) and not is_log_term(t) and not any('tracing' in m or 'log' in m for m in mac_chain(t)):
                    res.rule('C13.6', 1)
                    tgt = show(f.expand(f.call_tree(t)))
                    if 'process_state::SERIALIZATION_CONTEXT' not in tgt:
                        res.violation('C13.6', 'C13.6|thread-local|%s' % f.qual, f, t.get('line'), 'thread-local state other than the print context is used in processing code: %s' % tgt[:140])
    res.assumptions += [
        'serde_json::Map is a BTreeMap (feature preserve_order is not enabled): object key order is deterministic',
        'BTreeMap/BTreeSet/Vec/slice iteration is deterministic; HashMap/HashSet iteration order is arbitrary per process',
        'writes to PendingProcessorStats (processor-stats lock) feed only the interactive progress UI, never ProcessState',
    ]
    return harness.finish(res, tier, t0, distinct=6, explanation=(
        'Order lint over MIR: every call that observes HashMap/HashSet iteration order in the processing crates is followed through iterator adaptors to its consumer, which must be '
        'order-insensitive (another hash/BTree collection, a sort, any/all/count/min/max) or reviewed; every mutation of Mutex-protected state shared by the concurrently polled futures must be '
        'commutative or keyed injectively; per-thread results must be joined positionally; no clock / RNG / thread identity / address-derived value in processing code. These are necessary and, for the '
        'sources enumerated, sufficient structural conditions for run-to-run and schedule-to-schedule determinism; byte identity itself is not compared.'))
