"""C16 — the on-disk symbol cache only ever holds complete, parseable files."""
from .common import *
import panics

PID = 'C16'
FORBIDDEN = re.compile(r'^(std::fs::File::create|std::fs::File::create_new|std::fs::write|std::fs::rename|std::fs::copy|std::fs::hard_link|std::fs::OpenOptions::\w+|'
                       r'tempfile::NamedTempFile::new|tempfile::NamedTempFile::keep|tempfile::NamedTempFile::into_temp_path|tempfile::NamedTempFile::persist|'
                       r'tempfile::NamedTempFile::into_file|tempfile::tempfile|tempfile::tempfile_in|tempfile::Builder::\w+|tempfile::TempPath::\w+|std::os::unix::fs::symlink)$')
ALLOWED_FS = re.compile(r'^(tempfile::NamedTempFile::new_in|std::fs::create_dir_all|tempfile::NamedTempFile::persist_noclobber|std::fs::remove_file|std::fs::File::open|std::fs::metadata|std::path::Path::exists)$')


def commit_after_parse(res, prog, c):
    res.rule('C16.1', 0, floor=3, note='cache entries are persisted only after the whole body was received and (for symbol files) parsed')
    callers = []
    for f in c.fns:
        for b, t in f.calls():
            n = f.callee(t)
            if n == 'breakpad_symbols::http::commit_cache_file':
                callers.append((f, b, t))
            if n == 'tempfile::NamedTempFile::persist_noclobber':
                res.rule('C16.1', 1)
                if f.path == 'breakpad_symbols::http::commit_cache_file':
                    continue
                if f.path.startswith('breakpad_symbols::http::fetch_lookup') or f.path.startswith('breakpad_symbols::http::unpack_cabinet_file') or f.path.startswith('breakpad_symbols::http::fetch_cab_lookup'):
                    # must be dominated by the end-of-body edge of the chunk loop / Ok edge of the copy
                    facts = panics.dominating_facts(f, b)
                    ok = any(r[0] == 'switch' and 'chunk' in show(r[1]) and r[2] == 0 for r, g, s in facts) or \
                        any(r[0] == 'switch' and 'io::copy' in show(r[1]) and r[2] == 0 for r, g, s in facts)
                    if not ok:
                        res.violation('C16.1', 'C16.1|persist|%s' % f.qual, f, t.get('line'), 'persist_noclobber is not dominated by the end-of-body edge of the download loop')
                    else:
                        res.sample({'rule': 'C16.1', 'fn': f.qual, 'persist_after': 'end of body'})
                else:
                    res.violation('C16.1', 'C16.1|persist-who|%s' % f.qual, f, t.get('line'), 'persist_noclobber called outside commit_cache_file / fetch_lookup')
    if not callers:
        res.error('C16.1', 'commit_cache_file has no caller')
    for f, b, t in callers:
        res.rule('C16.1', 1)
        if not f.path.startswith('breakpad_symbols::http::fetch_symbol_file'):
            res.violation('C16.1', 'C16.1|commit-who|%s' % f.qual, f, t.get('line'), 'commit_cache_file called outside fetch_symbol_file')
            continue
        facts = panics.dominating_facts(f, b)
        parsed = any(r[0] == 'switch' and 'parse_async' in show(r[1]) and 'trybranch' in show(r[1]) and r[2] == 0 for r, g, s in facts)
        have = any(r[0] == 'switch' and r[1][0] == 'discr' and show(r[1][1]) == 'temp' and r[2] == 1 for r, g, s in facts)
        if not parsed:
            res.violation('C16.1', 'C16.1|commit-order', f, t.get('line'), 'commit_cache_file is not dominated by the Ok edge of `SymbolFile::parse_async(..).await?`')
        elif not have:
            res.violation('C16.1', 'C16.1|commit-temp', f, t.get('line'), 'commit_cache_file is not guarded by `if let Some(temp) = temp`')
        else:
            res.sample({'rule': 'C16.1', 'fn': f.qual, 'commit_after': 'parse_async Ok, temp is Some'})


def file_apis(res, prog, c):
    res.rule('C16.2', 0, floor=3, note='file-creating calls in breakpad-symbols: NamedTempFile::new_in(tmp) and create_dir_all only')
    for f in c.fns:
        for b, t in f.calls():
            n = f.callee(t)
            if FORBIDDEN.search(n):
                res.rule('C16.2', 1)
                res.violation('C16.2', 'C16.2|%s|%s' % (f.qual, n), f, t.get('line'), '%s creates / moves files outside the temp-file protocol' % n)
            elif n == 'tempfile::NamedTempFile::new_in':
                res.rule('C16.2', 1)
                arg = show(f.expand(f.operand_tree(t['args'][0])))
                if f.path != 'breakpad_symbols::http::create_cache_file' or arg != 'tmp_path':
                    res.violation('C16.2', 'C16.2|new_in|%s' % f.qual, f, t.get('line'), 'NamedTempFile::new_in(%s) outside create_cache_file(tmp_path, ..)' % arg)
            elif n == 'breakpad_symbols::http::create_cache_file':
                res.rule('C16.2', 1)
                a0 = show(f.expand(f.operand_tree(t['args'][0])))
                a1 = show(f.expand(f.operand_tree(t['args'][1])))
                if a0 != 'tmp':
                    res.violation('C16.2', 'C16.2|tmpdir|%s' % f.qual, f, t.get('line'), 'temp file created in `%s`, not in the tmp directory parameter' % a0)
                if 'cache' not in a1:
                    res.violation('C16.2', 'C16.2|final|%s' % f.qual, f, t.get('line'), 'final path %s is not under the cache directory' % a1)
                res.sample({'rule': 'C16.2', 'fn': f.qual, 'tmp_dir': a0, 'final': a1[:120]})


def exact_bytes(res, prog, c):
    res.rule('C16.3', 0, floor=3, note='writes to the temp file: the data callback, the INFO URL trailer before persisting, the raw chunks of fetch_lookup')
    writers = {}
    for f in c.fns:
        for b, t in f.calls():
            n = f.callee(t)
            d = f.callee_decl(t)
            if (d.endswith('io::Write::write_all') or d.endswith('io::Write::write') or d.endswith('io::Write::write_fmt')) and 'NamedTempFile' in ' '.join(t.get('targs') or []) + n:
                writers.setdefault(f.path, []).append((f, b, t))
    # the data callback = the closure handed to SymbolFile::parse_async by fetch_symbol_file
    callback = None
    fs = c.fn('breakpad_symbols::http::fetch_symbol_file::{closure#0}')
    if fs is not None:
        for b, t in fs.calls():
            if fs.callee(t).endswith('::parse_async') and len(t['args']) == 2:
                tr = fs.expand(fs.operand_tree(t['args'][1]))
                if tr[0] == 'closure':
                    callback = tr[1]
    if callback is None:
        res.error('C16.3', 'the callback closure passed to parse_async was not found')
        return
    allowed = (callback, 'breakpad_symbols::http::commit_cache_file', 'breakpad_symbols::http::fetch_lookup::{closure#0}')
    for path, ws in writers.items():
        for f, b, t in ws:
            res.rule('C16.3', 1)
            if path not in allowed:
                res.violation('C16.3', 'C16.3|who|%s' % path, f, t.get('line'), 'temp file written from %s' % path)
                continue
            data = show(f.operand_tree(t['args'][1]))
            if path == callback:
                # callback: writes exactly its `data` argument; Err edge drops the temp file
                if data != 'data':
                    res.violation('C16.3', 'C16.3|callback-data', f, t.get('line'), 'callback writes %s instead of the bytes it was handed' % data)
                cleared = False
                for (pb, pi, tree) in _upvar_assigns(f, 'temp'):
                    if 'Option::None' in show(tree):
                        facts = panics.dominating_facts(f, pb)
                        if any(r[0] == 'switch' and 'write_all' in show(r[1]) and r[2] == 1 for r, g, s in facts):
                            cleared = True
                if not cleared:
                    res.violation('C16.3', 'C16.3|callback-err', f, t.get('line'), 'a failed callback write does not set `temp = None`')
                else:
                    res.sample({'rule': 'C16.3', 'fn': f.qual, 'writes': data, 'on_error': 'temp = None'})
            elif path.endswith('commit_cache_file'):
                persists = [pb for pb, pt in f.calls() if f.callee(pt) == 'tempfile::NamedTempFile::persist_noclobber']
                if not persists or not all(f.dominates(b, pb) for pb in persists):
                    res.violation('C16.3', 'C16.3|trailer-order', f, t.get('line'), 'the INFO URL trailer write does not dominate persist_noclobber')
                if 'INFO URL' not in data and 'cache_metadata' not in data:
                    res.violation('C16.3', 'C16.3|trailer', f, t.get('line'), 'commit_cache_file writes %s' % data[:100])
    for a in allowed[:2]:
        if a not in writers:
            res.error('C16.3', 'expected temp-file writer %s not found' % a)


def _upvar_assigns(f, name):
    out = []
    for b in sorted(f.reach):
        for i, s in enumerate(f.blocks[b]['s']):
            if s['k'] == 'assign' and s['lhs'].get('p'):
                pt = f.place_tree(s['lhs'])
                if pt[0] == 'var' and pt[1] == name:
                    out.append((b, i, f.rvalue_tree(s['rv'])))
    return out


def cache_first(res, prog, c):
    res.rule('C16.4', 0, floor=2, note='local lookup before any download; only NotFound cascades to the network')
    f = None
    for g in c.fns:
        if g.path.startswith('<http::HttpSymbolSupplier as SymbolSupplier>::locate_symbols') and g.kind == 'coroutine':
            if any(g.callee(t) == 'breakpad_symbols::http::fetch_symbol_file' for b, t in g.calls()):
                f = g
    if f is None:
        res.error('C16.4', 'HttpSymbolSupplier::locate_symbols body with the fetch_symbol_file call not found')
        return
    local = [b for b, t in f.calls() if f.callee(t) == '<SimpleSymbolSupplier as SymbolSupplier>::locate_symbols']
    fetch = [(b, t) for b, t in f.calls() if f.callee(t) == 'breakpad_symbols::http::fetch_symbol_file']
    res.rule('C16.4', 1)
    if len(local) != 1 or not all(f.dominates(local[0], b) for b, t in fetch):
        res.violation('C16.4', 'C16.4|order', f, f.line, 'the local (disk / cache) lookup does not dominate every fetch_symbol_file call')
        return
    err = prog.crate('breakpad_symbols').adts.get('breakpad_symbols::SymbolError') or prog.crate('breakpad_symbols').adts.get('breakpad_symbols::sym_file::types::SymbolError')
    notfound = None
    if err:
        for i, v in enumerate(err['variants']):
            if v['name'] == 'NotFound':
                notfound = v.get('discr', i)
    ex = PathExplorer(f, keep=lambda cnd: 'local_result' in show(cnd) or (cnd[0] == 'var' and str(cnd[1]).startswith('_'))).run()
    res.rule('C16.4', 1)
    if ex.truncated:
        res.error('C16.4', 'state budget exceeded')
        return
    for b, t in fetch:
        for facts, env in ex.states.get(b, ()):
            is_err = any(show(cnd) == '(discr local_result)' and v == 1 for cnd, v in facts)
            is_nf = any(cnd[0] == 'discr' and 'local_result' in show(cnd) and 'Err' in show(cnd) and v == notfound for cnd, v in facts)
            if not (is_err and is_nf):
                res.violation('C16.4', 'C16.4|cascade', f, t.get('line'), 'a download is attempted although the local result is not Err(NotFound); path conditions: %s' % fmt_state(facts))
                break
        else:
            continue
        break
    else:
        res.sample({'rule': 'C16.4', 'fn': f.qual, 'NotFound_discr': notfound})


def url_roundtrip(res, prog, c):
    res.rule('C16.5', 0, floor=2, note='INFO URL line is parsed into SymbolParser.url and copied to SymbolFile.url')
    pm = c.fn('breakpad_symbols::sym_file::parser::SymbolParser::parse_more')
    fin = c.fn('breakpad_symbols::sym_file::parser::SymbolParser::finish')
    if pm is None or fin is None:
        res.error('C16.5', 'parse_more / finish not found')
        return
    res.rule('C16.5', 1)
    sets = [(b, i, rv) for (b, i, place, rv) in part_assigns(pm, 'url')]
    if not sets:
        res.violation('C16.5', 'C16.5|parse', pm, pm.line, 'parse_more never stores the INFO URL value')
    res.rule('C16.5', 1)
    ok = False
    for b in sorted(fin.reach):
        for s in fin.blocks[b]['s']:
            if s['k'] == 'assign' and s['rv']['k'] == 'agg' and s['rv'].get('ak') == 'adt' and s['rv']['adt'].endswith('SymbolFile'):
                vals = dict(zip(s['rv']['fields'], [fin.operand_tree(x) for x in s['rv']['xs']]))
                if 'url' in vals and show(fin.expand(vals['url'])) == 'self.url':
                    ok = True
    if not ok:
        res.violation('C16.5', 'C16.5|finish', fin, fin.line, 'SymbolParser::finish does not copy self.url into SymbolFile.url')


def created_once(res, prog, c):
    """C16.6: a cache entry is the whole body or nothing.  The temp file is created once, before the first byte is
    streamed, in the body of the downloading function (never inside the data callback); the callback's only write to
    the captured handle is giving it up (`temp = None` after a failed write).  A handle re-created in mid-stream would
    receive a suffix of the body that still parses, and be committed."""
    res.rule('C16.6', 0, floor=3, note='temp file created once before streaming, outside the callback; the callback can only drop it')
    for base in ('breakpad_symbols::http::fetch_symbol_file::{closure#0}', 'breakpad_symbols::http::fetch_lookup::{closure#0}'):
        f = c.fn(base)
        if f is None:
            res.error('C16.6', '%s not found' % base)
            continue
        creates = [(b, t) for b, t in f.calls() if (f.callee(t) or '') == 'breakpad_symbols::http::create_cache_file']
        res.rule('C16.6', 1)
        if len(creates) != 1:
            res.violation('C16.6', 'C16.6|%s|creates' % base.split('::')[-2], f, f.line, 'the temp cache file is created %d times in the body of %s (expected exactly once)' % (len(creates), base.split('::')[-2]))
        streams = [(b, t) for b, t in f.calls() if (f.callee(t) or '').endswith('SymbolFile>::parse_async') or (f.callee(t) or '').endswith('reqwest::Response::chunk')]
        for cb, ct in creates:
            if any(cb in body for body in f.loops().values() if not all(is_log_term(f.blocks[x]['t']) for x in [cb])) and any(cb in body and any(sb in body for sb, _ in streams) for body in f.loops().values()):
                res.violation('C16.6', 'C16.6|%s|in-loop' % base.split('::')[-2], f, ct.get('line'), 'the temp cache file is created inside the download loop')
            for sb, st in streams:
                if not f.dominates(cb, sb):
                    res.violation('C16.6', 'C16.6|%s|order' % base.split('::')[-2], f, ct.get('line'), 'creation of the temp cache file does not dominate the start of streaming (%s)' % (f.callee(st) or '').split('::')[-1])
        # closures under it: no creation, and writes to a captured handle are `None` only
        for g in c.fns:
            if not g.qual.startswith(base + '::{'):
                continue
            for b, t in g.calls():
                n = g.callee(t) or ''
                if n in ('breakpad_symbols::http::create_cache_file', 'tempfile::NamedTempFile::new_in', 'tempfile::NamedTempFile::new'):
                    res.rule('C16.6', 1)
                    res.violation('C16.6', 'C16.6|%s|callback-creates' % base.split('::')[-2], g, t.get('line'), 'the temp cache file is (re)created inside %s, i.e. possibly in mid-stream' % g.qual.split('::http::')[-1])
            for b in sorted(g.reach):
                for s_ in g.blocks[b]['s']:
                    if s_['k'] != 'assign':
                        continue
                    pl = show(g.place_tree(s_['lhs'])).replace('(*', '').replace(')', '').strip()
                    if pl == 'temp' and s_['lhs'].get('p'):
                        rv = show(g.expand(g.rvalue_tree(s_['rv'])))
                        res.rule('C16.6', 1)
                        if rv != '(adt std::option::Option::None)':
                            res.violation('C16.6', 'C16.6|%s|callback-writes-handle' % base.split('::')[-2], g, s_.get('line'), 'the data callback stores %s into the captured temp-file handle (it may only give it up with None)' % rv[:100])


def raw_fetch_kinds(res, prog, c):
    """C16.7: the symbol cache entry of a module is written only after its body parsed.  fetch_lookup persists a body as
    it comes; it must therefore never be handed the lookup of FileKind::BreakpadSym, whose cache path is the one
    locate_symbols reads symbol files from."""
    res.rule('C16.7', 0, floor=1, note='the raw download path (fetch_lookup) is not used for FileKind::BreakpadSym, whose cache entry is the parsed symbol cache')
    lk = c.fn('breakpad_symbols::lookup')
    sym_arm = False
    if lk is not None:
        for b, t in lk.calls():
            if lk.callee(t) == 'breakpad_symbols::breakpad_sym_lookup':
                sym_arm = True
    for g in c.fns:
        if '::http::' not in g.path:
            continue
        for b, t in g.calls():
            if (g.callee(t) or '') not in ('breakpad_symbols::http::fetch_lookup', 'breakpad_symbols::http::fetch_cab_lookup'):
                continue
            res.rule('C16.7', 1)
            a = show(g.expand(g.operand_tree(t['args'][2])))
            if 'breakpad_symbols::lookup ' in a and sym_arm:
                facts = [r for r, gd, sx in panics.dominating_facts(g, b)]
                guarded = any('file_kind' in show(r[1]) and 'BreakpadSym' in (show(r[2]) if len(r) > 2 and isinstance(r[2], tuple) else str(r[2] if len(r) > 2 else '')) for r in facts if len(r) > 1)
                if not guarded:
                    res.violation('C16.7', 'C16.7|raw-sym|%s' % (g.callee(t).split('::')[-1]), g, t.get('line'), '%s persists whatever the server sends at lookup(module, file_kind).cache_rel; for FileKind::BreakpadSym that is the path of the symbol cache entry, so locate_file(BreakpadSym) can store an unparsed (e.g. HTML) body where locate_symbols will read it' % g.callee(t).split('::')[-1])


def accepted_when_consumed(res, prog, c):
    """C16.8: a downloaded body is committed to the cache when parse_async returns Ok, and the cache entry is the bytes the
    callback saw plus the INFO URL note.  The entry re-parses only if Ok means "every byte was consumed by the line parser":
    in both loops SymbolParser::finish (the only source of an Ok) is reached under `fully_consumed` alone."""
    from . import C10
    res.rule('C16.8', 0, floor=2, note='Ok(parser.finish()) only when the window was emptied by the line parser; no unparsed tail is handed to the cache on that edge')
    for path in (C10.PARSE, C10.PARSE_ASYNC):
        f = c.fn(path)
        if f is None:
            res.error('C16.8', '%s not found' % path)
            continue
        fins = [(b, t) for b, t in f.calls() if (f.callee(t) or '').endswith('SymbolParser::finish')]
        if not fins:
            res.error('C16.8', 'no call of SymbolParser::finish in %s' % path)
        which = 'async' if 'async' in path else 'sync'
        for b, t in fins:
            res.rule('C16.8', 1)
            facts = [r for r, g, sx in panics.dominating_facts(f, b)]
            full = any(r[0] == 'true' and show(f.expand(r[1])) in ('fully_consumed',) or (r[0] == 'true' and show(r[1]) == 'fully_consumed') for r in facts)
            if not full:
                res.violation('C16.8', 'C16.8|accept|' + which, f, t.get('line'), 'the symbol file is accepted (Ok(parser.finish())) on an edge that is not `fully_consumed`: bytes after the last parsed line are still in the window, and whatever of them reached the callback is cached in front of the INFO URL note, so the committed entry need not parse again')


def run(tier, t0):
    res = harness.Result(PID)
    prog = program()
    c = prog.crate('breakpad_symbols')
    commit_after_parse(res, prog, c)
    file_apis(res, prog, c)
    exact_bytes(res, prog, c)
    cache_first(res, prog, c)
    url_roundtrip(res, prog, c)
    created_once(res, prog, c)
    raw_fetch_kinds(res, prog, c)
    accepted_when_consumed(res, prog, c)
    # the cache tee sees exactly the consumed bytes: shared rule with C10.1 (a dropped callback truncates the cache entry)
    from . import C10
    res.rule('C10.1', 0, floor=2, note='(shared with C10) every consume(n) in parse_async is preceded by callback(&buf.data()[..n])')
    fa = c.fn(C10.PARSE_ASYNC)
    if fa is not None:
        C10.pairing(res, prog, c, fa)
    res.assumptions += [
        'tempfile::NamedTempFile removes its file when dropped (RAII, also on cancellation) and persist_noclobber is an atomic link/rename (trusted)',
        'the parse callback is handed exactly the consumed bytes (checked under C10.1)',
        'the file system performs what the calls ask',
        'feature mozilla_cab_symbols (fetch_cab_lookup) is covered only when it is compiled in',
    ]
    return harness.finish(res, tier, t0, distinct=5, explanation=(
        'Dominance and who-may-call rules over breakpad-symbols: commit_cache_file only after the Ok edge of parse_async and only with a live temp file; '
        'persist_noclobber only after the end-of-body edge; temp files created only by NamedTempFile::new_in(tmp) and never through clobbering or keeping APIs; the only writers of the temp file '
        'are the data callback (exact bytes, error => temp = None), the INFO URL trailer (dominating the persist) and the raw chunk loop; the local lookup dominates every download and only Err(NotFound) '
        'cascades; the INFO URL line round-trips into SymbolFile.url. Every interruption point is covered because the rules hold on every CFG path; the crash-consistency of the file system itself is trusted.'))
