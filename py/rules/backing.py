"""backing rules for reviewed table entries.

An entry of tables/panic_table.json or tables/loop_table.json may name a `backing` rule: the
written reason for that entry rests on an invariant that is established somewhere else in the
program (a caller's dispatch, a filter stage, a constructor that pairs two fields ...).  The
entry is only as good as that invariant, so every run re-decides the backing rules of the entries
it used and voids the entries (reports a violation) whose backing rule fails:

  * `Cxx.y` where property Cxx's own check registers a rule `Cxx.y`: that check is run in-process
    (collect-only mode, result cached per tree + checker version) and must report no violation
    for the rule;
  * the ids in SPECIAL are small structural rules decided here.

Violations already listed as known findings of the other property do not void an entry: they are
reported by that property's own check."""
import hashlib, importlib, json, time
from .common import *
import panics

ALIAS = {'C18.7': 'C18'}     # C18 reports every obligation of its tables under the single rule id `C18`


# ---------------------------------------------------------------------------------------------
# results of other properties' checks (collect-only), cached per tree and checker version

def _checker_version():
    h = hashlib.sha256()
    base = os.path.join(harness.VERIF, 'py')
    for root, dirs, files in sorted(os.walk(base)):
        dirs.sort()
        if '__pycache__' in root:
            continue
        for fn in sorted(files):
            if fn.endswith(('.py', '.json')):
                with open(os.path.join(root, fn), 'rb') as fh:
                    h.update(fn.encode())
                    h.update(fh.read())
    return h.hexdigest()[:16]


_mem = {}


def collect(pid):
    """{'violations': [(rule, key)], 'errors': [rule], 'rules': [ids]} of property pid's quick check on this tree"""
    if pid in _mem:
        return _mem[pid]
    cdir = os.path.join(harness.CACHE, 'results', harness.tree_key(harness.REPO) + '-' + _checker_version())
    cp = os.path.join(cdir, pid + '.json')
    if os.path.exists(cp):
        with open(cp) as fh:
            _mem[pid] = json.load(fh)
        return _mem[pid]
    mod = importlib.import_module('rules.' + pid)
    prev = harness.COLLECT_ONLY
    harness.COLLECT_ONLY = True
    try:
        r = mod.run('quick', time.time())
    finally:
        harness.COLLECT_ONLY = prev
    out = summarise(r)
    store(pid, out)
    return out


def summarise(res):
    return {'violations': [[v['rule'], v['key']] for v in res.violations], 'errors': [e['rule'] for e in res.errors], 'rules': sorted(res.rules)}


def store(pid, out):
    _mem[pid] = out
    cdir = os.path.join(harness.CACHE, 'results', harness.tree_key(harness.REPO) + '-' + _checker_version())
    try:
        os.makedirs(cdir, exist_ok=True)
        tmp = os.path.join(cdir, '%s.json.%d' % (pid, os.getpid()))
        with open(tmp, 'w') as fh:
            json.dump(out, fh)
        os.replace(tmp, os.path.join(cdir, pid + '.json'))
        # old result directories are of no use
        base = os.path.dirname(cdir)
        ents = sorted((os.path.getmtime(os.path.join(base, d)), d) for d in os.listdir(base))
        for _, d in ents[:-8]:
            shutil.rmtree(os.path.join(base, d), ignore_errors=True)
    except OSError:
        pass


import shutil


# ---------------------------------------------------------------------------------------------
# special rules.  Each returns a list of problems [(key, fn-or-None, line, msg)] and registers
# its instance count with a floor (fail closed).

def _fn(prog, crate, path):
    return prog.crate(crate).fn(path)


def c18_enum(res, prog, rid):
    """`raw.iregs[*reg as usize]` for reg: MipsRegisterNumbers: every discriminant indexes inside iregs"""
    mc = prog.crate('minidump_common')
    e = mc.adts.get('minidump_common::format::MipsRegisterNumbers')
    ctx = mc.adts.get('minidump_common::format::CONTEXT_MIPS')
    out = []
    if not e or not ctx:
        res.error(rid, 'MipsRegisterNumbers / CONTEXT_MIPS not found in the facts')
        return out
    ty = dict((f[0], f[1]) for f in ctx['variants'][0]['fields']).get('iregs', '')
    m = re.match(r'^\[u64; (\d+)\]$', ty)
    if not m:
        res.error(rid, 'CONTEXT_MIPS.iregs is not a fixed array: %s' % ty)
        return out
    n = int(m.group(1))
    res.rule(rid, len(e['variants']), floor=12, note='MipsRegisterNumbers discriminants < len(CONTEXT_MIPS.iregs) = %d' % n)
    for v in e['variants']:
        if not (0 <= v['discr'] < n):
            out.append(('%s|%s' % (rid, v['name']), None, None, 'MipsRegisterNumbers::%s = %d does not index iregs[%d]' % (v['name'], v['discr'], n)))
    return out


def _const_fold(t):
    if t[0] == 'int':
        return t[1]
    if t[0] == 'bin' and t[1] in ('Add', 'Sub', 'Mul'):
        a, b = _const_fold(t[2]), _const_fold(t[3])
        if a is None or b is None:
            return None
        return a + b if t[1] == 'Add' else a - b if t[1] == 'Sub' else a * b
    if t[0] == 'cast':
        return _const_fold(t[2])
    return None


def range_loop_var(fn, tree):
    """if `tree` is the item of `for x in a..b` returns (a, b) as expanded trees"""
    t = fn.expand(tree)
    if not (t[0] == 'vfield' and t[1] == 'Some' and t[3][0] == 'call' and re.search(r'iter::range::(\w+::)*next$', t[3][1])):
        return None
    it = t[3][2]
    seen = 0
    while seen < 6:
        seen += 1
        it = fn.expand(it)
        if it[0] in ('ref', 'mutref', 'addr') and len(it) >= 2:
            it = it[-1]
            continue
        if it[0] == 'var':
            ds = [d for d in fn.defs.get(it[2], []) if d['kind'] != 'part']
            if len(ds) != 1:
                return None
            d = ds[0]
            it = fn.rvalue_tree(d['rv']) if d['kind'] == 'assign' else fn.call_tree(d['term'])
            continue
        if it[0] == 'call' and it[1].endswith('into_iter') and len(it) == 3:
            it = it[2]
            continue
        if it[0] == 'adt' and it[1].endswith('ops::Range::Range') and len(it) == 4:
            return (fn.expand(it[2]), fn.expand(it[3]))
        return None
    return None


def c01_maccrash(res, prog, rid):
    """set_string(i, ..) of the generated MINIDUMP_MAC_CRASH_INFO_RECORD_STRINGS* types panics on i >= N:
    N = num_strings() has that many arms, and every caller passes the item of `0..T::num_strings()` of the same T"""
    mc = prog.crate('minidump_common')
    out = []
    types = {}
    for f in mc.fns:
        m = re.match(r'^(minidump_common::format::MINIDUMP_MAC_CRASH_INFO_RECORD_STRINGS\w*)::(num_strings|set_string)$', f.qual)
        if m:
            types.setdefault(m.group(1), {})[m.group(2)] = f
    n_inst = 0
    for tname, d in sorted(types.items()):
        ns, ss = d.get('num_strings'), d.get('set_string')
        if ns is None or ss is None:
            res.error(rid, '%s lacks num_strings/set_string' % tname)
            continue
        vals = [_const_fold(ns.expand(tr)) for (b, i, tr) in ret_assigns(ns)]
        if len(vals) != 1 or vals[0] is None:
            out.append(('%s|%s|num_strings' % (rid, tname), ns, ns.line, 'num_strings() is not a compile-time constant'))
            continue
        n = vals[0]
        # arms: switches on (Eq cur_idx idx); the k-th arm is reached after k unit increments of cur_idx from 0
        arms = 0
        for b in sorted(ss.reach):
            t = ss.blocks[b]['t']
            if t['k'] == 'switch':
                c = ss.operand_tree(t['x'])
                c = ss.expand(c)
                if c[0] == 'bin' and c[1] == 'Eq':
                    arms += 1
        n_inst += 1
        if arms < n:
            out.append(('%s|%s|arms' % (rid, tname), ss, ss.line, 'set_string has %d arms but num_strings() = %d: an index below num_strings() would reach the panic arm' % (arms, n)))
    callers = 0
    for cn in harness.CRATES:
        for f in prog.crate(cn).fns:
            for b, t in f.calls():
                c = f.callee(t) or ''
                m = re.match(r'^(minidump_common::format::MINIDUMP_MAC_CRASH_INFO_RECORD_STRINGS\w*)::set_string$', c)
                if not m:
                    continue
                callers += 1
                rg = range_loop_var(f, f.operand_tree(t['args'][1]))
                ok = False
                if rg is not None:
                    lo, hi = rg
                    ok = lo == ('int', 0) and hi[0] == 'call' and strip_generics(hi[1]) == m.group(1) + '::num_strings'
                if not ok:
                    out.append(('%s|caller|%s' % (rid, f.qual), f, t.get('line'), 'set_string called with an index that is not the item of `0..%s::num_strings()`' % m.group(1).split('::')[-1]))
    res.rule(rid, n_inst + callers, floor=6, note='generated string tables: arms >= num_strings(); callers iterate 0..num_strings() of the same type')
    return out


def c07_dispatch(res, prog, rid):
    """walk_with_stack_win_framedata / _fpo panic (unreachable!) on a record whose payload is of the other kind.
    (a) parser::stack_win_line builds FrameData only with ProgramString and Fpo only with AllocatesBasePointer;
    (b) parse_more files FrameData under win_stack_framedata_info and Fpo under win_stack_fpo_info;
    (c) finish() moves each list into the field of the same name; (d) walk_frame passes records of
    win_stack_framedata_info to .._framedata and of win_stack_fpo_info to .._fpo; no other caller, no other
    constructor of WinFrameType::FrameData/Fpo outside tests."""
    bs = prog.crate('breakpad_symbols')
    out = []
    n = 0
    want = {'FrameData': 'ProgramString', 'Fpo': 'AllocatesBasePointer'}
    # (a)
    ctor_fns = []
    for f in bs.fns:
        if f.mac and f.mac.startswith('derive('):
            continue   # derive(Clone/..) rebuilds a value of the same variant from an existing one
        for b in sorted(f.reach):
            for s in f.blocks[b]['s']:
                if s['k'] == 'assign' and s['rv']['k'] == 'agg' and s['rv'].get('ak') == 'adt' and s['rv']['adt'].endswith('types::WinFrameType') and s['rv'].get('variant') in want:
                    ctor_fns.append((f, b, s['rv']['variant']))
    for f, b, var in ctor_fns:
        n += 1
        if f.qual != 'breakpad_symbols::sym_file::parser::stack_win_line':
            out.append(('%s|ctor|%s' % (rid, f.qual), f, f.line, 'WinFrameType::%s constructed outside parser::stack_win_line' % var))
    f = bs.fn('breakpad_symbols::sym_file::parser::stack_win_line')
    if f is None:
        res.error(rid, 'parser::stack_win_line not found')
        return out
    thing_blocks = {}
    for b in sorted(f.reach):
        for s in f.blocks[b]['s']:
            if s['k'] == 'assign' and s['rv']['k'] == 'agg' and s['rv'].get('ak') == 'adt' and s['rv']['adt'].endswith('types::WinStackThing'):
                thing_blocks[b] = s['rv'].get('variant')
    ex = PathExplorer(f, keep=lambda c: True)
    ex.run()

    def feasible(facts):
        # a bool local defined once as (Eq x K) must agree with an integer fact on x
        ints = {}
        for c, v in facts:
            if not isinstance(v, bool) and isinstance(v, int):
                ints[show(f.expand(c))] = v
        for c, v in facts:
            if isinstance(v, bool):
                e = f.expand(c)
                if e[0] == 'bin' and e[1] in ('Eq', 'Ne') and e[3][0] == 'int':
                    k = show(e[2])
                    if k in ints:
                        truth = (ints[k] == e[3][1]) if e[1] == 'Eq' else (ints[k] != e[3][1])
                        if truth != v:
                            return False
        return True
    for (cf, b, var) in ctor_fns:
        if cf is not f:
            continue
        for facts, env in ex.states.get(b, ()):
            if not feasible(facts):
                continue
            fs = set((show(c), v) for c, v in facts)
            cands = set()
            for tb, tv in thing_blocks.items():
                for tf, _ in ex.states.get(tb, ()):
                    if set((show(c), v) for c, v in tf) <= fs:
                        cands.add(tv)
            n += 1
            if cands != {want[var]}:
                out.append(('%s|pairing|%s' % (rid, var), f, f.blocks[b]['t'].get('line') or f.line, 'WinFrameType::%s can be built with payload %s (must be %s only)' % (var, sorted(cands), want[var])))
    # (b) filing
    pm = [g for g in bs.fns if g.qual.startswith('breakpad_symbols::sym_file::parser::SymbolParser::parse_more')]
    filed = {}
    for g in pm:
        for b, t in g.calls():
            if (g.callee(t) or '').endswith('insert_win_stack_info'):
                lst = show(g.expand(g.operand_tree(t['args'][0])))
                rec = g.expand(g.operand_tree(t['args'][1]))
                var = rec[1] if rec[0] == 'vfield' and rec[1] in want else None
                filed[var] = lst
                n += 1
    for var, fld in (('FrameData', 'win_stack_framedata_info'), ('Fpo', 'win_stack_fpo_info')):
        if fld not in (filed.get(var) or ''):
            out.append(('%s|filing|%s' % (rid, var), pm[0] if pm else None, None, 'parse_more files WinFrameType::%s records under %s, not %s' % (var, filed.get(var), fld)))
    # (c) finish moves each list into its namesake
    fin = bs.fn('breakpad_symbols::sym_file::parser::SymbolParser::finish')
    if fin is None:
        res.error(rid, 'SymbolParser::finish not found')
    else:
        for b in sorted(fin.reach):
            for s in fin.blocks[b]['s']:
                if s['k'] == 'assign' and s['rv']['k'] == 'agg' and s['rv'].get('ak') == 'adt' and s['rv']['adt'].endswith('types::SymbolFile'):
                    adt = bs.adts.get('breakpad_symbols::sym_file::types::SymbolFile')
                    names = [x[0] for x in adt['variants'][0]['fields']]
                    for nm, x in zip(names, s['rv']['xs']):
                        if nm in ('win_stack_framedata_info', 'win_stack_fpo_info'):
                            n += 1
                            src = show(fin.expand(fin.operand_tree(x)))
                            if ('self.' + nm) not in src:
                                out.append(('%s|finish|%s' % (rid, nm), fin, s.get('line'), 'SymbolFile.%s is built from %s' % (nm, src[:120])))
    # (d) callers
    pair = {'walk_with_stack_win_framedata': 'win_stack_framedata_info', 'walk_with_stack_win_fpo': 'win_stack_fpo_info'}
    for cn in harness.CRATES:
        for g in prog.crate(cn).fns:
            for b, t in g.calls():
                c = (g.callee(t) or '').split('::')[-1]
                if c in pair and (g.callee(t) or '').startswith('breakpad_symbols::sym_file::walker::'):
                    n += 1
                    src = show(g.expand(g.operand_tree(t['args'][0])))
                    if not re.search(r'RangeMap::get (\(?\*?)?self\.%s\b' % pair[c], src):
                        out.append(('%s|caller|%s|%s' % (rid, g.qual, c), g, t.get('line'), '%s is handed a record that does not come from self.%s.get(..): %s' % (c, pair[c], src[:160])))
    res.rule(rid, n, floor=10, note='STACK WIN record kind <-> payload kind <-> map <-> evaluator agree at every construction, filing and dispatch site')
    return out


def c08_lookup(res, prog, rid):
    """get_thread_instruction_bytes: `ip - memory.base_address()` and `bytes()[offset..]` rely on `memory`
    being the region that memory_at_address(ip) found for the same ip"""
    out = []
    n = 0
    mp = prog.crate('minidump_processor')
    md = prog.crate('minidump')
    g = mp.fn('minidump_processor::op_analysis::get_thread_instruction_bytes')
    cl = mp.fn('minidump_processor::op_analysis::get_thread_instruction_bytes::{closure#0}')
    if g is None or cl is None:
        res.error(rid, 'op_analysis::get_thread_instruction_bytes or its closure not found')
        return out
    # every construction of the closure is the mapper of Option::map(memory_at_address(list, A), closure(A))
    for f in mp.fns:
        for b, t in f.calls():
            for a in t['args']:
                tr = f.expand(f.operand_tree(a))
                if tr[0] == 'closure' and tr[1] == cl.qual:
                    n += 1
                    full = f.expand(f.call_tree(t))
                    ok = False
                    if f is g and is_call(full, 'Option::map') and len(full) == 4:
                        src, mapper = full[2], full[3]
                        if is_call(src, 'UnifiedMemoryList::memory_at_address') and mapper[0] == 'closure' and len(mapper) == 3:
                            ok = show(src[3]) == show(mapper[2])
                    if not ok:
                        out.append(('%s|closure-use|%s' % (rid, f.qual), f, t.get('line'), 'the instruction-bytes closure is not the mapper of memory_at_address(ip).map(..) over the same ip: %s' % show(full)[:200]))
    # UnifiedMemoryList::memory_at_address forwards the address unchanged
    def one(rx):
        l = [x for x in md.fns if re.search(rx, strip_generics(x.qual))]
        return l[0] if len(l) == 1 else None
    u = one(r'^minidump::minidump::UnifiedMemoryList::memory_at_address$')
    base = one(r'^minidump::minidump::MinidumpMemoryListBase::memory_at_address$')
    basecl = one(r'^minidump::minidump::MinidumpMemoryListBase::memory_at_address::\{closure#0\}$')
    if u is None or base is None or basecl is None:
        res.error(rid, 'memory_at_address functions not found')
        return out
    for (b, i, tr) in ret_assigns(u):
        n += 1
        e = u.expand(tr)
        ok = is_call(e, 'Option::map') and is_call(e[2], 'MinidumpMemoryListBase::memory_at_address') and show(e[2][3]) == 'address'
        if not ok:
            out.append(('%s|unified' % rid, u, u.line, 'UnifiedMemoryList::memory_at_address does not forward `address` to the list lookup: %s' % show(e)[:160]))
    for (b, i, tr) in ret_assigns(base):
        n += 1
        e = base.expand(tr)
        ok = is_call(e, 'Option::and_then') and is_call(e[2], 'RangeMap::get') and show(e[2][2]).endswith('self.regions_by_addr') and show(e[2][3]) == 'address'
        if not ok:
            out.append(('%s|base' % rid, base, base.line, 'memory_at_address is not regions_by_addr.get(address).and_then(..): %s' % show(e)[:160]))
    for (b, i, tr) in ret_assigns(basecl):
        n += 1
        e = basecl.expand(tr)
        ok = is_call(e, 'slice::get') and 'self.regions' in show(e[2])
        if not ok:
            out.append(('%s|basecl' % rid, basecl, basecl.line, 'the looked-up index is not resolved with self.regions.get(index): %s' % show(e)[:160]))
    res.rule(rid, n, floor=5, note='ip lookup chain: map(memory_at_address(ip)) -> regions_by_addr.get(address) -> regions.get(index)')
    return out


SHRINKERS = ('remove', 'truncate', 'retain', 'retain_mut', 'pop', 'clear', 'swap_remove', 'drain', 'split_off', 'dedup', 'dedup_by', 'dedup_by_key')


def c14_req(res, prog, rid):
    """ProcessState.requesting_thread indexes ProcessState.threads: the only non-test construction sets it from the
    enumerate() index of the very map that builds `threads`, and nothing shrinks `threads` afterwards"""
    out = []
    n = 0
    mp = prog.crate('minidump_processor')
    adt = mp.adts.get('minidump_processor::process_state::ProcessState')
    if adt is None:
        res.error(rid, 'ProcessState not found')
        return out
    names = [x[0] for x in adt['variants'][0]['fields']]
    for cn in harness.CRATES:
        for f in prog.crate(cn).fns:
            if f.mac and f.mac.startswith('derive('):
                continue
            for b in sorted(f.reach):
                for s in f.blocks[b]['s']:
                    if s['k'] != 'assign':
                        continue
                    rv = s['rv']
                    if rv['k'] == 'agg' and rv.get('ak') == 'adt' and rv['adt'].endswith('process_state::ProcessState'):
                        n += 1
                        vals = dict(zip(names, rv['xs']))
                        req = f.operand_tree(vals['requesting_thread'])
                        thr = f.expand(f.operand_tree(vals['threads']))
                        ok, why = _req_ok(prog, f, req, thr)
                        if not ok:
                            out.append(('%s|ctor|%s' % (rid, f.qual), f, s.get('line'), why))
                    proj = s['lhs'].get('p') or []
                    fs = [e for e in proj if isinstance(e, dict) and 'f' in e]
                    if fs and fs[-1].get('n') == 'requesting_thread' and proj[-1] is fs[-1] and 'ProcessState' in (f.local_ty(s['lhs']['l']) or ''):
                        n += 1
                        out.append(('%s|write|%s' % (rid, f.qual), f, s.get('line'), 'ProcessState.requesting_thread assigned outside the constructor'))
            for b, t in f.calls():
                c = f.callee(t) or ''
                if c.split('::')[-1] in SHRINKERS and re.search(r'(^|::)Vec(<|::)', c) and t['args']:
                    src = show(f.expand(f.operand_tree(t['args'][0])))
                    if re.search(r'\b(state|self|process_state)\.threads\b', src) and 'CallStack' in (t.get('aty', [''])[0] if t.get('aty') else src + 'CallStack'):
                        if 'frames' in src:
                            continue
                        n += 1
                        out.append(('%s|shrink|%s' % (rid, f.qual), f, t.get('line'), 'ProcessState.threads is shrunk by %s after requesting_thread was computed' % c))
    res.rule(rid, n, floor=1, note='ProcessState constructions: requesting_thread is the enumerate() index of the map that builds threads; no later write / shrink')
    return out


def _req_ok(prog, f, req, thr):
    """req: tree of the local holding Option<usize>; thr: expanded tree of the threads value"""
    if req[0] != 'var':
        return False, 'requesting_thread is not a plain local: %s' % show(req)
    l = req[2]
    ds = [d for d in f.defs.get(l, [])]
    # direct definitions in the function itself must be `None`
    for d in ds:
        if d['kind'] == 'assign':
            tr = f.rvalue_tree(d['rv'])
            if not (tr[0] == 'adt' and tr[1].endswith('Option::None')):
                return False, 'requesting_thread initialised with %s' % show(tr)[:80]
        elif d['kind'] not in ('part',):
            return False, 'requesting_thread defined by a call'
    # closures capturing it by mutable reference: each write must be Some(<enumerate index of the closure argument>)
    mp = prog.crate('minidump_processor')
    writers = []
    for g in mp.fns:
        if not g.qual.startswith(f.qual + '::{closure'):
            continue
        for b in sorted(g.reach):
            for s in g.blocks[b]['s']:
                if s['k'] == 'assign' and show(g.place_tree(s['lhs'])) == 'requesting_thread':
                    writers.append((g, s))
    if not writers:
        return False, 'no writer of requesting_thread found (expected the enumerate() closure)'
    for g, s in writers:
        tr = g.expand(g.rvalue_tree(s['rv']))
        if not (tr[0] == 'adt' and tr[1].endswith('Option::Some') and _is_arg_field0(g, tr[2])):
            return False, 'closure %s writes %s into requesting_thread, not Some(<enumerate index>)' % (g.qual, show(tr)[:80])
        # that closure must be the mapper of enumerate() in the chain that builds `threads`
        s_thr = show(thr)
        if g.qual not in s_thr or 'enumerate' not in s_thr or 'collect' not in s_thr.split(g.qual)[0]:
            return False, 'threads is not collected from enumerate().map(%s): %s' % (g.qual.split('::')[-1], s_thr[:200])
        # no filtering adapters between enumerate and collect
        for bad in ('filter', 'filter_map', 'skip', 'take', 'step_by', 'flat_map', 'rev', 'skip_while', 'take_while', 'chain'):
            if re.search(r'::%s\b' % bad, s_thr):
                return False, 'the chain building threads contains %s(): indices no longer line up' % bad
    return True, ''


def _is_arg_field0(g, tree):
    """`<closure argument>.0`: local 1 is the closure environment, local 2 its single (index, item) argument"""
    t = g.expand(tree)
    return t[0] == 'field' and t[1] == ('arg', 2) and str(t[2]) == '0' and g.argc == 2


def c20_select(res, prog, rid):
    """the endless UI-refresh future is only ever polled inside a tokio::select! that also polls the processing future"""
    out = []
    sw = prog.crate('minidump_stackwalk')
    n = 0
    loops_fn = sw.fn('minidump_stackwalk::main_result::{closure#0}::{closure#3}::{closure#0}')
    host = sw.fn('minidump_stackwalk::main_result::{closure#0}')
    if loops_fn is None or host is None:
        res.error(rid, 'the update_state future or main_result body not found')
        return out
    # every poll of the endless future happens in a function that, under the same tokio::select!, also polls the
    # processing future (process_minidump_with_options's coroutine)
    procs = 0
    for f in sw.fns:
        polls_loop = [t for b, t in f.calls() if (f.callee(t) or '') == loops_fn.qual]
        if not polls_loop:
            continue
        polls_proc = [t for b, t in f.calls() if (f.callee(t) or '').startswith('minidump_processor::process_minidump_with_options::{closure')]
        for t in polls_loop:
            n += 1
            sel = [m for m in mac_chain(t) if m.endswith('select!')]
            if not sel or not any(any(m.endswith('select!') for m in mac_chain(p)) for p in polls_proc):
                out.append(('%s|poll|%s' % (rid, f.qual), f, t.get('line'), 'the endless UI-refresh future is polled outside a tokio::select! that also polls the processing future'))
        procs += len(polls_proc)
    if n < 1:
        out.append(('%s|select' % rid, host, host.line, 'no poll of the UI-refresh future found under main_result'))
    res.rule(rid, n + procs, floor=2, note='update_state is polled only as a tokio::select! branch next to the processing future')
    return out


SPECIAL = {
    'C18.enum': c18_enum,
    'C01.maccrash': c01_maccrash,
    'C07.dispatch': c07_dispatch,
    'C08.lookup': c08_lookup,
    'C14.req': c14_req,
    'C20.select': c20_select,
}


def evaluate(res, prog=None):
    """void the table entries of `res` whose backing rule fails.  res.extra['_backings'] maps backing id -> number of entries."""
    needed = res.extra.pop('_backings', None)
    if not needed:
        return
    prog = prog or program()
    known = set(k['key'] for k in harness.load_known() if k.get('status') == 'known')
    report = {}
    for bid in sorted(needed):
        rid = '%s.backing' % res.pid
        cnt = needed[bid]
        probs = []
        if bid in SPECIAL:
            sub = harness.Result(res.pid)
            try:
                probs = SPECIAL[bid](sub, prog, bid)
            except Exception as e:   # fail closed
                probs = [('%s|crashed' % bid, None, None, 'backing rule crashed: %r' % (e,))]
            sub.check_floors()
            for e in sub.errors:
                probs.append(('%s|precondition' % bid, None, None, e['msg']))
            for k, r in sub.rules.items():
                res.rule('backing:' + k, r['instances'], floor=r['floor'], note=r['note'])
        else:
            real = ALIAS.get(bid, bid)
            pid = real.split('.')[0]
            if pid == res.pid:
                summ = summarise(res)
            else:
                try:
                    summ = collect(pid)
                except Exception as e:
                    summ = {'violations': [], 'errors': [real], 'rules': [real]}
                    probs.append(('%s|crashed' % bid, None, None, 'check %s crashed while deciding backing rule %s: %r' % (pid, bid, e)))
            if real not in summ['rules']:
                probs.append(('%s|missing' % bid, None, None, 'backing rule %s is not registered by check %s' % (real, pid)))
            for r, k in summ['violations']:
                if r == real and k not in known:
                    probs.append(('%s|%s' % (bid, k), None, None, 'backing rule %s reports: %s' % (real, k)))
            if real in summ['errors']:
                probs.append(('%s|precondition' % bid, None, None, 'backing rule %s failed its own preconditions (floor / anchor)' % real))
        report[bid] = {'entries': cnt, 'holds': not probs}
        res.rule(rid, cnt, note='reviewed table entries whose written reason rests on another checked rule; void when that rule fails')
        for (k, fn, line, msg) in probs:
            res.violation(rid, 'backing|' + k, fn, line, '%d reviewed table entr%s rest on rule %s, which does not hold: %s' % (cnt, 'y' if cnt == 1 else 'ies', bid, msg))
    res.extra['table_backing_rules'] = report
