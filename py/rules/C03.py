"""C03 — processing terminates, never panics, always renders."""
from .common import *
from . import totality
import flow

PID = 'C03'
REQUIRED_STREAMS = {'minidump::MinidumpThreadList', 'minidump::MinidumpSystemInfo'}
PASS_THROUGH = re.compile(r'^std::result::Result::(or|or_else|map_err|map|and_then|inspect_err)$|^std::option::Option::(ok_or|ok_or_else|map)$')


def optional_streams(res, prog):
    """C03.5: only the thread list and the system info may abort MinidumpInfo::new"""
    c = prog.crate('minidump_processor')
    f = need_fn(res, c, "minidump_processor::processor::MinidumpInfo::<'a>::new", 'C03.5')
    if f is None:
        return
    n = 0
    for b, t in f.calls():
        if not re.search(r'minidump::Minidump::get_(stream|memory)$|minidump::Minidump::get_raw_stream$', f.callee(t)):
            continue
        n += 1
        targs = [x for x in (t.get('targs') or [])]
        stream = None
        for x in targs:
            if x.startswith('minidump::Minidump') and not x.startswith('minidump::Minidump<'):
                stream = re.sub(r'<.*', '', x)
        derived = {t['dest']['l']}
        hit = None
        changed = True
        while changed and hit is None:
            changed = False
            for bb in sorted(f.reach):
                for s in f.blocks[bb]['s']:
                    if s['k'] == 'assign' and not s['lhs'].get('p') and s['lhs']['l'] not in derived:
                        rv = s['rv']
                        if rv['k'] == 'use':
                            p = rv['x'].get('c') or rv['x'].get('m')
                            if p is not None and p['l'] in derived and not p.get('p'):
                                derived.add(s['lhs']['l'])
                                changed = True
                tt = f.blocks[bb]['t']
                if tt['k'] != 'call':
                    continue
                uses = any(((a.get('c') or a.get('m') or {}).get('l') in derived) for a in tt['args'])
                if not uses:
                    continue
                nm = f.callee(tt)
                if f.callee_decl(tt).endswith('Try::branch'):
                    hit = tt
                    break
                if PASS_THROUGH.search(nm) and tt['dest']['l'] not in derived:
                    derived.add(tt['dest']['l'])
                    changed = True
        if hit is not None and stream not in REQUIRED_STREAMS:
            res.violation('C03.5', 'C03.5|%s' % stream, f, hit.get('line'), 'the result of get_stream::<%s>() reaches a `?`: an optional stream aborts processing instead of degrading' % stream)
        else:
            res.sample({'rule': 'C03.5', 'stream': stream, 'reaches_question_mark': hit is not None})
    res.rule('C03.5', n, floor=18, note='get_stream / get_memory results in MinidumpInfo::new: only MinidumpThreadList and MinidumpSystemInfo may reach `?`')


def walk_bound(res, prog):
    """C03.3: some exit of the walk_stack loop compares a frame count with a bound"""
    c = prog.crate('minidump_unwind')
    f = need_fn(res, c, 'minidump_unwind::walk_stack::{closure#0}::{closure#0}', 'C03.3')
    if f is None:
        return
    loops = [lp for lp in flow.classify_loops(f) if lp.cls == 'L3']
    res.rule('C03.3', len(loops), floor=1, note='walk_stack loop: an exit must be controlled by a comparison of the number of frames with a bound')
    for lp in loops:
        bounded = False
        for _, cond in lp.exits:
            ce = f.expand(cond)
            if ce[0] == 'bin' and ce[1] in ('Lt', 'Le', 'Gt', 'Ge') and contains(ce, lambda t: is_call(t, 'len') and 'frames' in show(t)):
                bounded = True
        if not bounded:
            res.violation('C03.3', 'C03.3|minidump_unwind::walk_stack|unbounded', f, lp.line,
                          'the frame loop exits only when get_caller_frame returns None or there is no stack memory: the number of frames is not tied to the stack size (CFI `.cfa: $rsp 1 +` advances one byte per frame without touching memory)')


def limits_filter(res, prog):
    """backing rule C03.limits: the proc-limits line vectors pass .filter(|m| m.len() >= 3) before they are indexed"""
    c = prog.crate('minidump_processor')
    fam = [f for f in c.fns if f.path.startswith("<process_state::LinuxProcLimits as std::convert::From<minidump::MinidumpLinuxProcLimits<'_>>>::from")]
    res.rule('C03.limits', 0, floor=1, note='LinuxProcLimits::from filters out lines with fewer than 3 fields before indexing')
    ok = False
    for f in fam:
        if f.kind != 'closure':
            continue
        for (b, i, tree) in ret_assigns(f):
            tx = f.expand(tree)
            if tx[0] == 'bin' and tx[1] in ('Ge', 'Gt') and is_call(tx[2], 'len') and tx[3][0] == 'int' and tx[3][1] >= (3 if tx[1] == 'Ge' else 2):
                # and this closure is handed to Iterator::filter by the parent
                for g in fam:
                    for bb, t in g.calls():
                        if g.callee_decl(t).endswith('Iterator::filter') and f.path in show(g.operand_tree(t['args'][1])):
                            ok = True
    if fam:
        res.rule('C03.limits', 1)
    if not ok:
        res.violation('C03.limits', 'C03.limits', fam[0] if fam else None, None, 'no `.filter(|m| m.len() >= 3)` stage found in LinuxProcLimits::from: the table entries for m[0..3] are void')


def run(tier, t0):
    res = harness.Result(PID)
    prog = program()
    fns, derived = totality.in_scope_fns(prog, ['minidump_processor', 'minidump_unwind', 'breakpad_symbols'])
    nontrivial = totality.run_panics(res, prog, fns, 'C03.1', floor_sites=600)
    if tier == 'thorough':
        totality.clippy_crosscheck(res, prog, fns, 'C03.1')
        # cfg-gated twin: breakpad-symbols without the `http` feature
        prog2 = program('symbols-nohttp')
        fns2, _ = totality.in_scope_fns(prog2, ['breakpad_symbols'])
        totality.run_panics(res, prog2, fns2, 'C03.1' + '/nohttp', floor_sites=50)
    totality.run_loops(res, prog, fns, 'C03.2', floor_l3=4)
    totality.run_allocs(res, prog, fns, 'C03.4', floor=3)
    walk_bound(res, prog)
    optional_streams(res, prog)
    limits_filter(res, prog)
    # C03.7 (shared with C04.4): every register name the unwinders put into a validity set, or look up, exists in the
    # context's tables - a name that does not (seed C03g: "s8" among the MIPS callee-saved registers) reaches the
    # unreachable!() arm of get_register_always through CpuContext::get_register, two crates away
    from . import C04
    tmp = harness.Result('C03')
    C04.names_and_spellings(tmp, prog, prog.crate('minidump_unwind'))
    res.rule('C03.7', tmp.rules.get('C04.4', {}).get('instances', 0), floor=30, note='(shared with C04.4) register names used by the unwinders exist in the context tables, so get_register_always is never reached with an unknown name')
    for v in tmp.violations:
        if v['rule'] == 'C04.4':
            res.violations.append(dict(v, rule='C03.7', key=v['key'].replace('C04.4', 'C03.7')))
    res.errors += [dict(e, rule='C03.7') for e in tmp.errors if e['rule'] == 'C04.4']
    res.extra['derive_generated_functions_skipped'] = derived
    res.assumptions += [
        'usize is 64 bits wide (interval rule D2)',
        'third-party crates (yaxpeax-x86, reqwest, serde_json, tempfile, framehop/wholesym under feature debuginfo) are covered only through the panicking-API table',
        'op_analysis panic!/assert arms rest on the x86-64 operand encoding as decoded by yaxpeax (table entries marked ASSUMPTION)',
        'STACK WIN arithmetic on callee registers assumes the x86 walker hands out 32-bit values (table entries marked ASSUMPTION)',
        'wall-clock and memory budgets as numbers are not decided',
    ]
    return harness.finish(res, tier, t0, distinct=len(nontrivial), explanation=(
        'Static panic-edge inventory (G1), loop-shape classification (G2) and allocation provenance (G3) over every non-derive function of '
        'minidump-processor, minidump-unwind and breakpad-symbols (this includes the text/JSON printers, the unwinders, the CFI/WIN evaluators '
        'and the symbolizer), plus two structural rules: the stack walk must have a frame bound (C03.3) and only the two mandatory streams may abort '
        'MinidumpInfo::new (C03.5).'))
