"""shared driver for the totality properties (C01, C03, C09, C20 and the never-panics
clauses of C06/C07): G1 panic inventory, G2 loop shape, G3 allocation provenance."""
import json
from .common import *
import panics, flow, slices

LOOP_TABLE = os.path.join(harness.VERIF, 'py', 'tables', 'loop_table.json')


def load_loop_table():
    if not os.path.exists(LOOP_TABLE):
        return {}
    with open(LOOP_TABLE) as fh:
        return {e['key']: e for e in json.load(fh)['entries']}


def in_scope_fns(prog, crates, pred=None):
    out = []
    derived = 0
    for cn in crates:
        for f in prog.crate(cn).fns:
            if f.mac and f.mac.startswith('derive('):
                derived += 1
                continue
            if pred is not None and not pred(f):
                continue
            out.append(f)
    return out, derived


def run_panics(res, prog, fns, rid, floor_sites, floor_fns=None):
    table = panics.load_table()
    by_crate = {}
    for f in fns:
        by_crate.setdefault(f.crate, []).append(f)
    verdicts = {}
    nsites = 0
    third = set()
    used = set()
    nontrivial = set()
    for cn, fl in by_crate.items():
        sites, d = panics.analyse(prog, cn, fl, table=table)
        third |= d.third_party
        used |= d.used_table
        for k in d.used_table:
            bk = (table.get(k) or {}).get('backing')
            for one in (bk or '').split(','):
                if one:
                    bmap = res.extra.setdefault('_backings', {})
                    bmap[one] = bmap.get(one, 0) + 1
        for s in sites:
            nsites += 1
            v = s.verdict or 'OPEN'
            verdicts[v] = verdicts.get(v, 0) + 1
            if v not in ('D1', 'D5', 'M'):
                nontrivial.add(s.tkey)
            if s.verdict is None:
                res.violation(rid, s.key, s.fn, s.line,
                              ('undischarged panic edge %s on %s' % (s.kind, ' ; '.join(show(t) for t in s.trees)[:300])) + ((' -- ' + s.why[:700]) if s.why.startswith('STALE') else ''))
            elif v in ('D2', 'D3', 'D4', 'T', 'D9') and len([x for x in res.samples if x.get('rule') == rid]) < 12:
                res.sample({'rule': rid, 'site': s.key[:240], 'where': '%s:%d' % (s.fn.file, s.line), 'discharged_by': v, 'why': s.why[:200]})
    res.rule(rid, nsites, floor=floor_sites, note='panic edges (Assert terminators + calls to panicking APIs) in %d functions; verdicts %s' % (len(fns), verdicts))
    res.extra.setdefault('panic_verdicts', {})[rid] = verdicts
    res.extra.setdefault('third_party_macros_trusted', [])
    res.extra['third_party_macros_trusted'] = sorted(set(res.extra['third_party_macros_trusted']) | third)
    res.extra.setdefault('table_entries_used', 0)
    res.extra['table_entries_used'] += len(used)
    res.extra.setdefault('functions_analysed', 0)
    res.extra['functions_analysed'] += len(fns)
    res.extra['blocks_analysed'] = res.extra.get('blocks_analysed', 0) + sum(len(f.reach) for f in fns)
    return nontrivial


G1_LINTS = {'indexing_slicing', 'arithmetic_side_effects', 'unwrap_used', 'expect_used', 'panic', 'unimplemented', 'unreachable', 'string_slice', 'todo'}


def clippy_crosscheck(res, prog, fns, rid):
    """thorough tier: every hit of clippy's opt-in panic-related restriction lints inside the scope must be a
    site the inventory also saw (same file, within 3 lines).  A miss is a *checker* gap, reported in the
    evidence, never a property violation."""
    hits = harness.clippy_hits()
    files = {}
    for f in fns:
        files.setdefault(f.file, []).append(f)
    seen = {}
    for f in fns:
        for s in panics.inventory(f):
            seen.setdefault(f.file, set()).add(s.line)
        # float arithmetic and wrapping helpers are not panic edges; clippy flags integer `+ - * /` only
    gaps = []
    n = 0
    for (file, line, lint) in hits:
        if lint not in G1_LINTS or file not in files:
            continue
        # inside one of the scope functions?
        if not any(f.line <= line <= max(f.end, f.line) for f in files[file]):
            continue
        n += 1
        lines = seen.get(file, set())
        if not any(abs(line - l) <= 3 for l in lines):
            gaps.append('%s:%d %s' % (file, line, lint))
    res.extra.setdefault('clippy_crosscheck', {})[rid] = {'clippy_hits_in_scope': n, 'not_matched_by_inventory': gaps[:40], 'lints': sorted(G1_LINTS)}
    return gaps


def run_loops(res, prog, fns, rid, floor_l3):
    table = load_loop_table()
    counts = {'L1': 0, 'L2': 0, 'L3': 0, 'M': 0}
    l3 = 0
    lm = panics.local_macros(harness.REPO)
    for f in fns:
        for lp in flow.classify_loops(f):
            ht = f.blocks[lp.header]['t']
            ch = [m.replace('$crate::', '') for m in mac_chain(ht)]
            if lp.cls == 'L3' and ch:
                inner = ch[0].split('::')[-1]
                if inner not in panics.STD_MACROS and inner not in lm and inner not in LOG_MACROS:
                    counts['M'] += 1
                    continue
            counts[lp.cls] += 1
            if lp.cls != 'L3':
                continue
            l3 += 1
            k = flow.loop_key(lp)
            e = table.get(slices.canon_loop_key(f, lp.exits))
            if e is not None and e.get('slices') is not None:
                items = slices.canon_loop_items(f, prog.crate(f.crate), sorted(lp.body))
                dg, hs = slices.digest(items)
                if dg not in e['slices']:
                    new = slices.new_items(items, e.get('slice_items'))
                    res.violation(rid, k, f, lp.line, 'STALE reviewed loop variant (%s): the loop body changed since review; new items: %s' % (e['variant'][:80], ' ;; '.join(x[:160] for x in new[:4]) or '(items removed)'))
                    continue
            if e is None:
                res.violation(rid, k, f, lp.line, 'loop without an iterator-driven exit and without a reviewed variant (%s)' % (lp.why or 'hand-written loop'))
            else:
                res.sample({'rule': rid, 'loop': k[:200], 'variant': e['variant'][:200]})
                for one in (e.get('backing') or '').split(','):
                    if one:
                        bmap = res.extra.setdefault('_backings', {})
                        bmap[one] = bmap.get(one, 0) + 1
    # recursion among the functions in scope
    names = {f.qual: f for f in fns}
    graph = {f.qual: set() for f in fns}
    for f in fns:
        for b, t in f.calls():
            c = f.callee(t)
            if c in names:
                graph[f.qual].add(c)
            # closures / coroutine bodies are reached through their constructors
        for b in f.reach:
            for s in f.blocks[b]['s']:
                if s['k'] == 'assign' and s['rv']['k'] == 'agg' and s['rv'].get('ak') in ('closure', 'coroutine', 'coroutine_closure'):
                    if s['rv']['def'] in names:
                        graph[f.qual].add(s['rv']['def'])
    sccs = _sccs(graph)
    rec = [c for c in sccs if len(c) > 1 or (len(c) == 1 and next(iter(c)) in graph[next(iter(c))])]
    for c in rec:
        k = 'recursion|' + ' <-> '.join(sorted(c))
        if k not in table:
            f = names[sorted(c)[0]]
            res.violation(rid, k, f, f.line, 'recursive call cycle without a reviewed variant')
        else:
            l3 += 1
            for one in (table[k].get('backing') or '').split(','):
                if one:
                    bmap = res.extra.setdefault('_backings', {})
                    bmap[one] = bmap.get(one, 0) + 1
    res.rule(rid, sum(counts.values()) + len(rec), floor=None, note='natural loops: %s; recursive cycles: %d' % (counts, len(rec)))
    res.rule(rid + '.L3', l3, floor=floor_l3, note='hand-written loops / recursion needing a reviewed variant')
    res.extra.setdefault('loops', {})[rid] = counts


def _sccs(graph):
    index = {}
    low = {}
    stack = []
    on = set()
    out = []
    counter = [0]
    import sys
    sys.setrecursionlimit(10000)

    def visit(v):
        index[v] = low[v] = counter[0]
        counter[0] += 1
        stack.append(v)
        on.add(v)
        for w in graph[v]:
            if w not in index:
                visit(w)
                low[v] = min(low[v], low[w])
            elif w in on:
                low[v] = min(low[v], index[w])
        if low[v] == index[v]:
            comp = set()
            while True:
                w = stack.pop()
                on.discard(w)
                comp.add(w)
                if w == v:
                    break
            out.append(comp)
    for v in graph:
        if v not in index:
            visit(v)
    return out


def run_allocs(res, prog, fns, rid, floor):
    n = 0
    for f in fns:
        for (b, t, name) in flow.alloc_sites(f):
            short = name.split('::')[-1]
            if short in ('take',):
                # only `repeat(x).take(n)` style sources matter
                src = f.expand(f.operand_tree(t['args'][0]))
                if not contains(src, lambda x: is_call(x, 'iter::repeat') or is_call(x, 'repeat_with')):
                    continue
                size = f.operand_tree(t['args'][1])
            elif short == 'repeat' and name.startswith('std::iter::'):
                continue  # judged at its `take`
            elif name.startswith('circular::Buffer::grow') or short in ('reserve', 'reserve_exact', 'try_reserve', 'try_reserve_exact', 'resize', 'resize_with') or name.endswith('slice::repeat') or name.endswith('str::repeat'):
                size = f.operand_tree(t['args'][1])
            elif short == 'from_elem':
                size = f.operand_tree(t['args'][1])
            else:
                size = f.operand_tree(t['args'][0])
            n += 1
            ok, why = flow.size_ok(f, prog, f.crate, size, 0, b)
            key = '%s|alloc:%s|%s' % (f.qual, short, show(f.expand(size))[:300])
            if not ok and name.startswith('circular::Buffer::grow'):
                # accepted when dominated by the false edge of `size > CAP`
                for rel, g, sc in panics.dominating_facts(f, b):
                    if rel[0] == 'le' and panics.same_tree(f, rel[1], size):
                        lim = panics.resolve_items(prog, f.crate, f.expand(rel[2]))
                        if lim[0] == 'int':
                            ok, why = True, 'dominated by size <= %d' % lim[1]
            if ok:
                res.sample({'rule': rid, 'site': key[:200], 'where': '%s:%s' % (f.file, t.get('line')), 'size_from': why})
            else:
                res.violation(rid, key, f, t.get('line'), 'allocation sized by an expression that is neither a constant, a len() of existing data, nor validated by ensure_count_in_bound: %s' % why[:300])
    res.rule(rid, n, floor=floor, note='allocation-size sites (with_capacity / reserve / resize / from_elem / repeat / circular::Buffer)')
