"""key trees: (a) of the JSON built by a function through serde_json's json! expansion, from MIR;
(b) of the fenced pseudo-JSON block of json-schema.md"""
import re
from mirq import *


def code_key_tree(crate, root_fn):
    """returns dict path(tuple of keys) -> set of value-tree strings (leaf) / {'<object>'}"""
    out = {}
    seen = set()
    leaf_src = {}

    def fn_maps(f):
        maps = {}      # map local -> list of (key, value operand, bb, term)
        for b, t in f.calls():
            n = f.callee(t)
            if n == 'serde_json::Map::new':
                maps.setdefault(t['dest']['l'], [])
        for b, t in f.calls():
            n = f.callee(t)
            if n == 'serde_json::Map::insert' and len(t['args']) == 3:
                recv = t['args'][0]
                p = recv.get('c') or recv.get('m')
                l = _root_local(f, p)
                key = f.expand(f.operand_tree(t['args'][1]))
                ks = None
                for x in walk(key):
                    if isinstance(x, tuple) and x and x[0] == 'str':
                        ks = x[1]
                maps.setdefault(l, []).append((ks, t['args'][2], b, t))
            elif n == 'serde_json::value::index::index_mut' and len(t['args']) == 2:
                p = t['args'][0].get('c') or t['args'][0].get('m')
                l = _root_local(f, p)
                key = f.expand(f.operand_tree(t['args'][1]))
                if key[0] == 'str':
                    maps.setdefault(l, []).append((key[1], None, b, t))
        return maps

    def _root_local(f, p):
        # follow `&mut object` temporaries back to the map local
        l = p['l']
        for _ in range(6):
            sd = f.single_def(l)
            if sd is None or sd['kind'] != 'assign':
                break
            rv = sd['rv']
            if rv['k'] in ('ref', 'rawptr'):
                l = rv['p']['l']
            elif rv['k'] == 'use' and ('c' in rv['x'] or 'm' in rv['x']):
                l = (rv['x'].get('c') or rv['x'].get('m'))['l']
            elif rv['k'] == 'agg' and rv.get('adt') == 'serde_json::Value' and rv.get('variant') == 'Object' and rv['xs'] and ('c' in rv['xs'][0] or 'm' in rv['xs'][0]):
                l = (rv['xs'][0].get('c') or rv['xs'][0].get('m'))['l']
            else:
                break
        return l

    def deep_trees(f, tree, depth=0):
        """trees of every definition of the unnamed multi-definition temporaries a tree bottoms out at
        (`if c { None } else { Some(iter.map(|x| json!(..)).collect()) }`)"""
        out2 = []
        if depth > 3:
            return out2
        for v in leaves_vars(tree):
            if v[0] == 'var' and isinstance(v[2], int) and f.local_name(v[2]) is None:
                for d in f.defs.get(v[2], []):
                    if d['kind'] == 'assign':
                        t2 = f.expand(f.rvalue_tree(d['rv']))
                    elif d['kind'] == 'call':
                        t2 = f.expand(f.call_tree(d['term']))
                    else:
                        continue
                    out2.append(t2)
                    out2.extend(deep_trees(f, t2, depth + 1))
        return out2

    def value_type(f, vop):
        """type handed to serde_json::to_value for this inserted value, if any"""
        p = vop.get('c') or vop.get('m') if vop else None
        for _ in range(4):
            if p is None or p.get('p'):
                return None
            sd = f.single_def(p['l'])
            if sd is None:
                return None
            if sd['kind'] == 'call':
                t = sd['term']
                nm = f.callee(t)
                if nm == 'serde_json::to_value':
                    return (t.get('targs') or [None])[0]
                if nm.endswith('Result::unwrap') or nm.endswith('convert::Into<U>>::into') or nm.endswith('::from'):
                    p = t['args'][0].get('c') or t['args'][0].get('m')
                    continue
                return None
            if sd['kind'] == 'assign' and sd['rv']['k'] == 'use':
                p = sd['rv']['x'].get('c') or sd['rv']['x'].get('m')
                continue
            return None
        return None

    def serialize_keys(ty, pre, depth=0):
        """keys contributed by a workspace struct that derives serde::Serialize (field names), recursively"""
        if ty is None or depth > 3:
            return False
        hit = False
        for m in re.finditer(r'((?:minidump_processor::)?process_state::\w+)', ty):
            name = m.group(1)
            if not name.startswith('minidump_processor::'):
                name = 'minidump_processor::' + name
            adt = crate.adts.get(name)
            derived = any(i['trait'].endswith('Serialize') and i['self'].endswith(name.split('::', 1)[1]) and i.get('derived') for i in crate.impls)
            if adt is None or adt['kind'] != 'struct' or not derived:
                continue
            for fname, fty in adt['variants'][0]['fields']:
                if not fname.isdigit():
                    hit = True
                    out.setdefault(pre + (fname,), set()).add('<serde field %s: %s>' % (fname, fty[:60]))
                    serialize_keys(fty, pre + (fname,), depth + 1)
        return hit

    def visit_fn(f, prefix):
        if (f.path, prefix) in seen:
            return
        seen.add((f.path, prefix))
        maps = fn_maps(f)
        # which maps are children of which (map, key)
        child_of = {}
        for ml, ins in maps.items():
            for (k, vop, b, t) in ins:
                if vop is None:
                    continue
                vt = f.expand(f.operand_tree(vop))
                for x in walk(vt):
                    if isinstance(x, tuple) and x and x[0] == 'adt' and x[1] == 'serde_json::Value::Object' and len(x) == 3:
                        inner = x[2]
                        if inner[0] == 'var' and isinstance(inner[2], int) and inner[2] in maps:
                            child_of[inner[2]] = (ml, k)

        def emit_map(ml, pre):
            for (k, vop, b, t) in maps.get(ml, []):
                if k is None:
                    continue
                path = pre + (k,)
                kids = [c for c, (pm, pk) in child_of.items() if pm == ml and pk == k]
                vt = f.expand(f.operand_tree(vop)) if vop is not None else ('const', '?')
                extra = deep_trees(f, vt)
                closures = [x[1] for tr in [vt] + extra for x in walk(tr) if isinstance(x, tuple) and x and x[0] in ('closure', 'coroutine_closure')]
                fnrefs = [x[1] for x in walk(vt) if isinstance(x, tuple) and x and x[0] == 'fnref']
                calls = [x[1] for x in walk(vt) if isinstance(x, tuple) and x and x[0] == 'call' and x[1].startswith(crate.name + '::')]
                sub = False
                for c in kids:
                    out.setdefault(path, set()).add('<object>')
                    emit_map(c, path)
                    sub = True
                for cp in closures + fnrefs + calls:
                    g = crate.fn(cp)
                    if g is not None and builds_json(g):
                        out.setdefault(path, set()).add('<object>')
                        visit_fn(g, path)
                        sub = True
                if not sub and vop is not None:
                    if serialize_keys(value_type(f, vop), path):
                        out.setdefault(path, set()).add('<object>')
                        sub = True
                if not sub:
                    ty = value_type(f, vop) if vop is not None else None
                    out.setdefault(path, set()).add('T{%s} %s' % (ty or '?', show(vt)[:400]))
                    leaf_src.setdefault(path, []).append((f, vt, ty))
        roots = [ml for ml in maps if ml not in child_of]
        for r in roots:
            emit_map(r, prefix)
        if not maps:
            # a pure adaptor closure (`.map(|x| x.iter().map(|y| json!({..})))`): descend
            for b in sorted(f.reach):
                for s in f.blocks[b]['s']:
                    if s['k'] == 'assign' and s['rv']['k'] == 'agg' and s['rv'].get('ak') in ('closure', 'coroutine_closure'):
                        g = crate.fn(s['rv']['def'])
                        if g is not None and builds_json(g):
                            visit_fn(g, prefix)
        # closures that build nested arrays of objects without an enclosing key in this function
        return roots

    memo = {}

    def builds_json(g, depth=0):
        if g.path in memo:
            return memo[g.path]
        memo[g.path] = False
        r = any(g.callee(t) in ('serde_json::Map::new', 'serde_json::Map::insert') for b, t in g.calls())
        if not r and depth < 5:
            for b in g.reach:
                for s in g.blocks[b]['s']:
                    if s['k'] == 'assign' and s['rv']['k'] == 'agg' and s['rv'].get('ak') in ('closure', 'coroutine_closure'):
                        h = crate.fn(s['rv']['def'])
                        if h is not None and builds_json(h, depth + 1):
                            r = True
        memo[g.path] = r
        return r

    visit_fn(root_fn, ())
    out['__leaf_src__'] = leaf_src
    return out


def doc_key_tree(text):
    """key paths of the first fenced block that starts with `{`: path -> set of value descriptions"""
    m = re.search(r'```rust,ignore\n(.*?)\n```\n', text, re.S)
    if not m:
        raise ValueError('no fenced schema block')
    body = m.group(1)
    lines = []
    for ln in body.split('\n'):
        # strip // comments outside strings
        o = ''
        instr = False
        i = 0
        while i < len(ln):
            ch = ln[i]
            if ch == '"' and (i == 0 or ln[i - 1] != '\\'):
                instr = not instr
            if not instr and ln.startswith('//', i):
                break
            o += ch
            i += 1
        lines.append(o)
    src = '\n'.join(lines)
    toks = re.findall(r'"(?:[^"\\]|\\.)*"|<[^>\n]*>|[{}\[\]:,|]|[A-Za-z_][\w.\-]*|-?\d+(?:\.\d+)?', src)
    out = {}
    pos = [0]

    def peek():
        return toks[pos[0]] if pos[0] < len(toks) else None

    def nxt():
        t = peek()
        pos[0] += 1
        return t

    def value(path):
        t = peek()
        if t == '{':
            obj(path)
            return '<object>'
        if t == '[':
            nxt()
            while peek() not in (']', None):
                value(path)
                if peek() == ',':
                    nxt()
            nxt()
            return '<array>'
        # scalar alternatives  a | b | c
        vals = [nxt()]
        while peek() == '|':
            nxt()
            if peek() == '{':
                obj(path)
                vals.append('<object>')
            else:
                vals.append(nxt())
        out.setdefault(path, set()).update(vals)
        return vals

    def obj(path):
        assert nxt() == '{'
        if path:
            out.setdefault(path, set()).add('<object>')
        while peek() not in ('}', None):
            k = nxt()
            if k == ',':
                continue
            if not (k.startswith('"') and peek() == ':'):
                # tolerate stray tokens
                continue
            nxt()
            key = k[1:-1]
            p = path + (key,)
            out.setdefault(p, set())
            v = value(p)
            if v == '<array>':
                out[p].add('<array>')
            if peek() == ',':
                nxt()
        nxt()
    obj(())
    return out
