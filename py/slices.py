"""backward slices of reviewed sites.

A reviewed table entry (tables/panic_table.json, tables/loop_table.json) is an argument a person
wrote about *particular code*: the operands of one panic edge and the statements that compute
them, or the body of one loop.  The entry must not outlive that code.  At generation time the
slice of every entry is hashed and frozen with it; at check time the slice is recomputed from the
facts of the current tree and an entry whose slice changed is void (the site is reported again,
with the slice items that are new).

The slice of a site is a *set* of canonical strings:
  * the site's own terminator,
  * every definition (assignment, call result, partial write, call through a &mut alias) of
    every local its operands transitively depend on, within the function,
  * the branch conditions that guard the site (switches in dominators from which the site is
    reachable through some but not all successors; logging-macro switches excluded),
  * for closures / coroutine bodies: the slice of the captured values in the parent function, the
    call chain the closure is handed to, and the full bodies of the sibling closures in that chain.
Locals are replaced by their types, so inserting unrelated statements or renaming a temporary
does not change a slice; changing what an operand is computed from does."""
import hashlib, json, re
from mirq import *
from mirq import _has_deref

DROP_KEYS = {'line', 'mac', 'macs', 'ds', 't', 'o', 'u', 'unwind', 'false', 'res', 'krate', 'end', 'col', 'span'}


class Canon:
    def __init__(self, fn):
        self.fn = fn
        self.used = set()

    def ty(self, l):
        # user-named locals keep their name (two flags of type bool must stay distinguishable; swapping the operands
        # of `a - b` must be visible); compiler temporaries are known by their type only
        nm = self.fn.local_name(l)
        if nm:
            return nm
        t = self.fn.local_ty(l) or '?'
        # closure types print their source position: not part of the meaning
        t = re.sub(r'\{(closure|coroutine|async \w+)@[^}]*\}', r'{\1}', t)
        return t

    def place(self, p):
        self.used.add(p['l'])
        out = '<%s>' % self.ty(p['l'])
        for e in p.get('p') or []:
            if e == '*':
                out = '*' + out
            elif isinstance(e, dict):
                if 'f' in e:
                    out += '.%s' % (e.get('n') if e.get('n') is not None else e['f'])
                elif 'dc' in e:
                    out += ' as %s' % e['dc']
                elif 'i' in e:
                    i = e['i']
                    if isinstance(i, dict) and 'l' in i:
                        self.used.add(i['l'])
                        out += '[<%s>]' % self.ty(i['l'])
                    elif isinstance(i, int):
                        self.used.add(i)
                        out += '[<%s>]' % self.ty(i)
                    else:
                        out += '[%s]' % json.dumps(i, sort_keys=True)
                else:
                    out += '{%s}' % json.dumps(e, sort_keys=True)
            else:
                out += '{%s}' % json.dumps(e, sort_keys=True)
        return out

    def any(self, x):
        if isinstance(x, dict):
            if 'l' in x and 'k' not in x and isinstance(x['l'], int):
                return self.place(x)
            out = {}
            for k in sorted(x):
                if k in DROP_KEYS:
                    continue
                v = x[k]
                if k == 'ts' and isinstance(v, list):
                    out[k] = sorted(str(p[0]) for p in v)
                    continue
                if k in ('fn', 'decl', 'def') and isinstance(v, str):
                    out[k] = re.sub(r'\{(closure|coroutine)#\d+\}', r'{\1}', re.sub(r'\{(closure|coroutine)@[^}]*\}', r'{\1}', v))
                    continue
                out[k] = self.any(v)
            return out
        if isinstance(x, list):
            return [self.any(v) for v in x]
        if isinstance(x, str):
            return re.sub(r'\{(closure|coroutine)#\d+\}', r'{\1}', re.sub(r'\{(closure|coroutine|async \w+)@[^}]*\}', r'{\1}', x))
        return x

    def text(self, x):
        return json.dumps(self.any(x), sort_keys=True)


def _aliases(fn):
    """local -> set of locals it may be written through (tmp = &mut l / &raw mut l / &mut *tmp)"""
    al = {}
    changed = True
    rounds = 0
    while changed and rounds < 6:
        changed = False
        rounds += 1
        for b in fn.reach:
            for s in fn.blocks[b]['s']:
                if s['k'] != 'assign' or s['lhs'].get('p'):
                    continue
                rv = s['rv']
                if rv['k'] in ('ref', 'rawptr') and (rv.get('mut') or rv['k'] == 'rawptr'):
                    src = rv['p']['l']
                    tgt = s['lhs']['l']
                    roots = {src} if not _has_deref_first(rv['p']) else set(al.get(src, ()))
                    if not roots and not _has_deref_first(rv['p']):
                        roots = {src}
                    cur = al.setdefault(tgt, set())
                    if not roots <= cur:
                        cur |= roots
                        changed = True
                elif rv['k'] == 'use':
                    x = rv['x']
                    p = x.get('m') or x.get('c')
                    if p and not p.get('p') and p['l'] in al:
                        cur = al.setdefault(s['lhs']['l'], set())
                        if not al[p['l']] <= cur:
                            cur |= al[p['l']]
                            changed = True
    return al


def _has_deref_first(p):
    pr = p.get('p') or []
    return bool(pr) and pr[0] == '*'


def _alias_writers(fn):
    """local l -> list of call terminators that receive a &mut alias of l as an argument"""
    if getattr(fn, '_alias_writers', None) is not None:
        return fn._alias_writers
    al = _aliases(fn)
    out = {}
    for b in fn.reach:
        t = fn.blocks[b]['t']
        if t['k'] != 'call':
            continue
        for a in t.get('args', []):
            p = a.get('m') or a.get('c')
            if p and not p.get('p') and p['l'] in al:
                for root in al[p['l']]:
                    out.setdefault(root, []).append(t)
    fn._alias_writers = out
    return out


def data_slice(fn, seeds, items, prefix=''):
    """adds the canonical definitions of the locals in `seeds` (transitively) to `items`"""
    writers = _alias_writers(fn)
    seen = set()
    work = list(seeds)
    while work:
        l = work.pop()
        if l in seen:
            continue
        seen.add(l)
        for d in fn.defs.get(l, []):
            c = Canon(fn)
            if d['kind'] == 'arg':
                items.add('%sarg%d:%s' % (prefix, l, c.ty(l)))
                continue
            if d['kind'] == 'assign':
                items.add('%s<%s> = %s' % (prefix, c.ty(l), c.text(d['rv'])))
            elif d['kind'] == 'part':
                st = d.get('st')
                if st is not None:
                    if st['k'] == 'assign':
                        items.add('%s%s = %s' % (prefix, c.place(st['lhs']), c.text(st['rv'])))
                    else:
                        items.add('%s%s' % (prefix, c.text(st)))
                else:
                    items.add('%spart-call %s' % (prefix, c.text(d['term'])))
            else:
                items.add('%s<%s> = call %s' % (prefix, c.ty(l), c.text(d['term'])))
            work.extend(c.used - seen)
        for t in writers.get(l, []):
            c = Canon(fn)
            items.add('%svia-&mut <%s>: %s' % (prefix, c.ty(l), c.text(t)))
            work.extend(c.used - seen)
    return seen


def guards(fn, bb, items, prefix='', within=None):
    used = set()
    chain = fn.dom_chain(bb)
    for d in chain:
        if d == bb or (within is not None and d not in within):
            continue
        t = fn.blocks[d]['t']
        if t['k'] != 'switch' or is_log_term(t):
            continue
        labels = [(str(v), tgt) for v, tgt in t['ts']] + [('else', t['o'])]
        reach = []
        for lab, tgt in labels:
            if tgt == bb or bb in fn.reachable_from(tgt, avoid=(d,)):
                reach.append(lab)
        if len(reach) == len(labels):
            continue
        c = Canon(fn)
        c.text(t['x'])
        cond = re.sub(r'\{(closure|coroutine)#\d+\}', r'{\1}', re.sub(r'\b_\d+\b', '_', show(fn.expand(fn.operand_tree(t['x'])))))
        items.add('%sguard %s in %s' % (prefix, cond[:600], ','.join(sorted(reach))))
        used |= c.used
    return used


def body_digest(fn):
    items = set()
    for b in fn.reach:
        for s in fn.blocks[b]['s']:
            if s['k'] in ('live', 'dead', 'nop') or is_log_term(s):
                continue
            items.add(Canon(fn).text(s))
        if not is_log_term(fn.blocks[b]['t']):
            items.add(Canon(fn).text(fn.blocks[b]['t']))
    return hashlib.sha1('\n'.join(sorted(items)).encode()).hexdigest()[:12]


def _parent(fn, crate):
    m = re.match(r'^(.*)::\{(closure|coroutine)#\d+\}$', fn.qual)
    if not m:
        return None
    return crate.fn(m.group(1))


def closure_context(fn, crate, items, depth=0):
    """where a closure / coroutine body gets its captured values and who drives it"""
    par = _parent(fn, crate)
    if par is None or depth > 3:
        return
    pre = 'parent%d: ' % depth
    for b in sorted(par.reach):
        for s in par.blocks[b]['s']:
            if s['k'] == 'assign' and s['rv']['k'] == 'agg' and s['rv'].get('ak') in ('closure', 'coroutine', 'coroutine_closure') and s['rv'].get('def') == fn.qual:
                c = Canon(par)
                items.add(pre + 'captures ' + c.text(s['rv'].get('xs', [])))
                used = set(c.used)
                used |= guards(par, b, items, pre)
                data_slice(par, used, items, pre)
                # the chain the closure value is handed to
                holder = s['lhs']['l']
                for b2 in sorted(par.reach):
                    t = par.blocks[b2]['t']
                    if t['k'] != 'call':
                        continue
                    for a in t.get('args', []):
                        p = a.get('m') or a.get('c')
                        if p and p['l'] == holder and not p.get('p'):
                            tree = par.expand(par.call_tree(t))
                            txt = re.sub(r'\{(closure|coroutine)#\d+\}', r'{\1}', re.sub(r'\b_\d+\b', '_', show(tree)))
                            items.add(pre + 'driven-by ' + txt[:1500])
                            for x in walk(tree):
                                if isinstance(x, tuple) and x and x[0] == 'closure' and x[1] != fn.qual:
                                    sib = crate.fn(x[1])
                                    if sib is not None:
                                        items.add(pre + 'sibling %s body %s' % (x[1].split('::')[-1], body_digest(sib)))
    closure_context(par, crate, items, depth + 1)


def site_items(fn, crate, term, bb):
    items = set()
    c = Canon(fn)
    items.add('site ' + c.text(term))
    used = set(c.used)
    used |= guards(fn, bb, items)
    data_slice(fn, used, items)
    closure_context(fn, crate, items)
    return items


def guard_sig(fn, b, within=None):
    """the branch decisions under which block b executes (restricted to guards inside `within`), as one short hash"""
    tmp = set()
    guards(fn, b, tmp, within=within)
    return hashlib.sha1('|'.join(sorted(tmp)).encode()).hexdigest()[:8]


def loop_items(fn, crate, blocks):
    """every statement of the loop body, each tagged with the branch decisions (inside the loop) it executes under:
    moving a statement into another branch changes the slice even though the set of statements does not"""
    items = set()
    used = set()
    within = set(blocks)
    for b in blocks:
        sig = guard_sig(fn, b, within)
        for s in fn.blocks[b]['s']:
            if s['k'] in ('live', 'dead', 'nop') or is_log_term(s):
                continue   # log statements cannot change the iteration count (their panic edges are G1's business)
            c = Canon(fn)
            items.add(sig + ' ' + c.text(s))
            used |= c.used
        if is_log_term(fn.blocks[b]['t']):
            continue
        c = Canon(fn)
        items.add(sig + ' ' + c.text(fn.blocks[b]['t']))
        used |= c.used
    data_slice(fn, used, items, 'in: ')
    closure_context(fn, crate, items)
    return items


def digest(items):
    """(digest, sorted short hashes of the items)"""
    hs = sorted(hashlib.sha1(i.encode()).hexdigest()[:10] for i in items)
    return hashlib.sha1(''.join(hs).encode()).hexdigest()[:16], hs


def new_items(items, old_hashes):
    old = set(old_hashes or [])
    return sorted(i for i in items if hashlib.sha1(i.encode()).hexdigest()[:10] not in old)


# ------------------------------------------------------------------ canonical (rename / let-hoisting invariant) trees
COMMUTE = {'Add', 'Mul', 'BitAnd', 'BitOr', 'BitXor', 'Eq', 'Ne', 'AddWithOverflow', 'MulWithOverflow'}
FLIP = {'Gt': 'Lt', 'Ge': 'Le'}


def _clean(s):
    s = re.sub(r'\{(closure|coroutine)#\d+\}', r'{\1}', s)
    s = re.sub(r'\{(closure|coroutine|async \w+)@[^}]*\}', r'{\1}', s)
    return re.sub(r'\b_\d+\b', '_', s)


PROG = None
WORKSPACE = ('breakpad_symbols', 'minidump', 'minidump_common', 'minidump_processor', 'minidump_stackwalk', 'minidump_synth', 'minidump_unwind')


class CTree:
    """canonical form of expression trees of one function: every single-definition local (named or not) is replaced
    by its definition, so renaming a variable, hoisting a sub-expression into a `let` or re-ordering independent
    statements changes nothing; locals with several definitions become `<type>` leaves and are remembered in
    `self.multi` so that their definitions can be added to a slice; arguments are positional; the operands of
    commutative operators are sorted and `a > b` is written `b < a`."""

    def __init__(self, fn, consts=False):
        self.fn = fn
        self.multi = set()
        self.consts = consts   # slices (not keys) carry the evaluated value of workspace integer constants, so that
        # naming a literal (`40` -> `DEFAULT_SCAN_RANGE`) changes nothing and changing a constant's value does

    def leaf_ty(self, l):
        t = self.fn.local_ty(l) or '?'
        return _clean(t)

    def tree(self, t, depth=0):
        fn = self.fn
        if not isinstance(t, tuple) or not t:
            return t
        h = t[0]
        if h == 'var':
            l = t[2]
            if isinstance(l, int):
                if 0 < l <= fn.argc:
                    return ('arg', l)
                e = fn.expand(t) if depth < 40 else t
                if e is not t and e != t:
                    return self.tree(e, depth + 1)
                self.multi.add(l)
                return ('mvar', self.leaf_ty(l))
            return ('mvar', '?')
        if h == 'item' and self.consts and PROG is not None:
            cn = str(t[1]).split('::', 1)[0]
            if cn in WORKSPACE:
                try:
                    v = PROG.crate(cn).consts.get(t[1], {}).get('int')
                except Exception:
                    v = None
                if isinstance(v, int):
                    return ('int', v)
                # a `const` table of string literals reads like the literal array it names
                try:
                    body = PROG.crate(cn).fn(t[1])
                except Exception:
                    body = None
                if body is not None and body.kind == 'const':
                    arrs = [s_['rv'] for b_ in sorted(body.reach) for s_ in body.blocks[b_]['s'] if s_.get('k') == 'assign' and s_['rv'].get('k') == 'agg' and s_['rv'].get('ak') == 'array']
                    if len(arrs) == 1:
                        vals = [body.operand_tree(x) for x in arrs[0]['xs']]
                        if vals and all(isinstance(v2, tuple) and v2[0] == 'str' for v2 in vals):
                            return tuple(['array'] + vals)
            return t
        if h in ('int', 'str', 'item', 'fnref', 'float', 'const', 'arg', 'bytes'):
            return t
        if h == 'field' and len(t) == 3 and isinstance(t[1], tuple) and t[1] and t[1][0] == 'var' and isinstance(t[1][2], int):
            # a field read out of a struct that was built in this function: do not drag the whole constructor (every
            # other field's computation) into the tree; the struct is an opaque typed base here
            sd = fn.single_def(t[1][2])
            if sd is not None and sd['kind'] == 'assign' and sd['rv']['k'] == 'agg' and sd['rv'].get('ak') == 'adt':
                return ('field', ('mvar', self.leaf_ty(t[1][2])), t[2])
        if h == 'call' or h == 'closure':
            return tuple([h, _clean(str(t[1]))] + [self.tree(x, depth) if isinstance(x, tuple) else x for x in t[2:]])
        kids = [self.tree(x, depth) if isinstance(x, tuple) else x for x in t[1:]]
        if h == 'bin' and len(kids) == 3:
            op, a, b = kids
            if self.consts and isinstance(a, tuple) and isinstance(b, tuple) and a[0] == 'int' and b[0] == 'int' and op in ('Add', 'Sub', 'Mul') and isinstance(a[1], int) and isinstance(b[1], int):
                r = a[1] + b[1] if op == 'Add' else a[1] - b[1] if op == 'Sub' else a[1] * b[1]
                if 0 <= r < 2 ** 63:
                    return ('int', r)
            if op in FLIP:
                op, a, b = FLIP[op], b, a
            if op in COMMUTE and show(a) > show(b):
                a, b = b, a
            return ('bin', op, a, b)
        return tuple([h] + kids)

    def text(self, t):
        return _clean(show(self.tree(t)))


def canon_site_key(fn, kind, trees):
    ct = CTree(fn)
    txt = ' ; '.join(ct.text(fn.expand(t)) for t in trees)
    return '%s|%s|%s' % (_clean(fn.qual), kind, hashlib.sha1(txt.encode()).hexdigest()[:14])


def _multi_defs(fn, ct, items, prefix=''):
    """definitions of the locals with several definitions met so far (transitively), as canonical trees"""
    writers = _alias_writers(fn)
    done = set()
    while True:
        todo = ct.multi - done
        if not todo:
            break
        for l in sorted(todo):
            done.add(l)
            ty = ct.leaf_ty(l)
            for d in fn.defs.get(l, []):
                if d['kind'] == 'arg':
                    continue
                if d['kind'] == 'assign':
                    if is_log_term(d['st']) or ty == '()':
                        continue
                    if d['rv']['k'] == 'agg' and d['rv'].get('ak') == 'adt' and len(d['rv'].get('xs', [])) > 3:
                        # a struct built field by field: which struct, not how every field is computed (a reader of one
                        # field does not depend on the others; field-level provenance is the business of backing rules)
                        items.add('%sdef <%s> = (adt %s ..)' % (prefix, ty, _clean(d['rv'].get('adt', '?'))))
                        continue
                    items.add('%sdef <%s> = %s' % (prefix, ty, ct.text(fn.rvalue_tree(d['rv']))))
                elif d['kind'] == 'call':
                    if is_log_term(d['term']):
                        continue
                    items.add('%sdef <%s> = %s' % (prefix, ty, ct.text(fn.call_tree(d['term']))))
                elif d['kind'] == 'part':
                    st = d.get('st')
                    if st is not None and st['k'] == 'assign':
                        items.add('%spart <%s>%s = %s' % (prefix, ty, _clean(show(fn.place_tree(st['lhs'])).split('.', 1)[-1] if '.' in show(fn.place_tree(st['lhs'])) else ''), ct.text(fn.rvalue_tree(st['rv']))))
                    elif d.get('term') is not None:
                        items.add('%spart-call <%s> %s' % (prefix, ty, ct.text(fn.call_tree(d['term']))))
            container = re.match(r'^(&mut )?(std::vec::Vec|std::collections::|std::string::String|std::vec::IntoIter|std::slice::Iter)', ty) is not None
            for t in writers.get(l, []):
                if is_log_term(t):
                    continue
                if container:
                    # which operations change the container, not what values they carry: a site that reads an element
                    # rests on its own guards (or on a backing rule for the container's contents), and must not go stale
                    # whenever some other arm pushes a differently spelled value
                    items.add('%svia-&mut <%s>: %s' % (prefix, ty, _clean(strip_generics(t.get('fn') or '?'))))
                else:
                    items.add('%svia-&mut <%s>: %s' % (prefix, ty, ct.text(fn.call_tree(t))))


def _switch_domain(fn, t):
    """all values the switched operand can take, when known: bool, or the discriminants of the enum it was read from"""
    if t.get('ty') == 'bool':
        return {0, 1}
    x = t['x']
    p = x.get('m') or x.get('c')
    if p is None or p.get('p'):
        return None
    sd = fn.single_def(p['l'])
    if sd is not None and sd['kind'] == 'assign' and sd['rv']['k'] == 'discr' and sd['rv'].get('dv') is not None:
        return set(sd['rv']['dv'])
    return None


def _atoms(fn, tree, out=None):
    """the roots a value is computed from: arguments and locals with several definitions (after inlining every
    single-definition local)"""
    if out is None:
        out = set()
    def walk(t, depth=0):
        if not isinstance(t, tuple) or not t:
            return
        if t[0] == 'var':
            l = t[2]
            if not isinstance(l, int):
                return
            if 0 < l <= fn.argc:
                out.add(('arg', l))
                return
            e = fn.expand(t) if depth < 40 else t
            if e != t:
                walk(e, depth + 1)
            else:
                out.add(('L', l))
            return
        for x in t[1:]:
            if isinstance(x, tuple):
                walk(x, depth)
    walk(tree)
    return out


def _atom_closure(fn, atoms):
    """add the roots of every definition of the multi-definition locals in `atoms` (transitively)"""
    writers = _alias_writers(fn)
    done = set()
    atoms = set(atoms)
    while True:
        todo = [a for a in atoms if a[0] == 'L' and a not in done]
        if not todo:
            return atoms
        for a in todo:
            done.add(a)
            l = a[1]
            for d in fn.defs.get(l, []):
                if d['kind'] == 'assign':
                    _atoms(fn, fn.rvalue_tree(d['rv']), atoms)
                elif d['kind'] == 'call':
                    _atoms(fn, fn.call_tree(d['term']), atoms)
                elif d['kind'] == 'part':
                    st = d.get('st')
                    if st is not None and st['k'] == 'assign':
                        _atoms(fn, fn.rvalue_tree(st['rv']), atoms)
                    elif d.get('term') is not None:
                        _atoms(fn, fn.call_tree(d['term']), atoms)
            for t in writers.get(l, []):
                _atoms(fn, fn.call_tree(t), atoms)
            atoms.discard(None)


def canon_guards(fn, bb, ct, items, prefix='', within=None, relevant=None):
    """the branch decisions under which block bb executes, as `cond in {values}`: the values are concrete whenever the
    switched operand's domain is known, so `if let Some(x) = o {A} else {B}` and `match o { Some(x) => A, None => B }`
    give the same guards"""
    cand = []
    for d in fn.dom_chain(bb):
        if d == bb or (within is not None and d not in within):
            continue
        t = fn.blocks[d]['t']
        if t['k'] != 'switch' or is_log_term(t):
            continue
        explicit = [(v, tgt) for v, tgt in t['ts']]
        else_live = not (fn.blocks[t['o']]['t']['k'] == 'unreachable' and not [x for x in fn.blocks[t['o']]['s'] if x['k'] == 'assign'])

        def reaches(tgt):
            return tgt == bb or bb in fn.reachable_from(tgt, avoid=(d,))
        reach_vals = set(v for v, tgt in explicit if reaches(tgt))
        else_reaches = else_live and reaches(t['o'])
        dom = _switch_domain(fn, t)
        n_out = len(explicit) + (1 if else_live else 0)
        n_reach = len(reach_vals) + (1 if else_reaches else 0)
        if n_reach == n_out:
            continue
        if dom is not None:
            vals = set(reach_vals)
            if else_reaches:
                vals |= (dom - set(v for v, _ in explicit))
            lab = '{' + ','.join(str(v) for v in sorted(vals)) + '}'
        else:
            lab = ','.join(sorted(str(v) for v in reach_vals)) + (',else' if else_reaches else '')
        cand.append((fn.operand_tree(t['x']), lab, d))
    if relevant is None:
        cand = [(c, lab) for c, lab, d in cand]
    else:
        # keep the decisions that share a root (argument, re-assigned local) with the site's operands, transitively: a
        # branch on unrelated data neither computes nor bounds them, and re-spelling it must not make the entry stale
        # decisions inside a loop around the site always stay: they bound how often the site runs (counters, cursors)
        rel = _atom_closure(fn, relevant)
        if getattr(fn, '_loops_cache', None) is None:
            fn._loops_cache = fn.loops()
        around = [body for body in fn._loops_cache.values() if bb in body]
        pend = [(c, lab, any(d in body for body in around), _atom_closure(fn, _atoms(fn, c))) for c, lab, d in cand]
        cand = []
        changed = True
        while changed:
            changed = False
            for x in list(pend):
                if not x[3] or x[3] & rel:
                    rel |= x[3]
                    cand.append((x[0], x[1]))
                    pend.remove(x)
                    changed = True
        # loop decisions on other data: the decision itself stays in the slice, the definitions of the locals it mentions
        # do not (they say how the loop steers, not what the site computes)
        side = CTree(fn, consts=True)
        for c, lab, inloop, at in pend:
            if inloop:
                items.add('%sguard %s in %s' % (prefix, side.text(c)[:700], lab))
    for c, lab in cand:
        items.add('%sguard %s in %s' % (prefix, ct.text(c)[:700], lab))


def effect_summary(fn):
    """name-free summary of a function body: its calls and returns as canonical trees"""
    ct = CTree(fn, consts=True)
    items = set()
    for b in fn.reach:
        t = fn.blocks[b]['t']
        if t['k'] == 'call' and not is_log_term(t):
            items.add('call ' + ct.text(fn.call_tree(t)))
        for s in fn.blocks[b]['s']:
            if s['k'] == 'assign' and s['lhs']['l'] == 0 and not s['lhs'].get('p'):
                items.add('ret ' + ct.text(fn.rvalue_tree(s['rv'])))
    _multi_defs(fn, ct, items)
    return hashlib.sha1('\n'.join(sorted(items)).encode()).hexdigest()[:12]


def canon_closure_context(fn, crate, items, depth=0):
    par = _parent(fn, crate)
    if par is None or depth > 3:
        return
    pre = 'parent%d: ' % depth
    ct = CTree(par, consts=True)
    for b in sorted(par.reach):
        for s in par.blocks[b]['s']:
            if s['k'] == 'assign' and s['rv']['k'] == 'agg' and s['rv'].get('ak') in ('closure', 'coroutine', 'coroutine_closure') and s['rv'].get('def') == fn.qual:
                items.add(pre + 'captures ' + ' , '.join(ct.text(par.operand_tree(x)) for x in s['rv'].get('xs', [])))
                canon_guards(par, b, ct, items, pre)
                holder = s['lhs']['l']
                for b2 in sorted(par.reach):
                    t = par.blocks[b2]['t']
                    if t['k'] != 'call':
                        continue
                    for a in t.get('args', []):
                        p = a.get('m') or a.get('c')
                        if p and p['l'] == holder and not p.get('p'):
                            tree = par.expand(par.call_tree(t))
                            items.add(pre + 'driven-by ' + ct.text(tree)[:1500])
                            for x in walk(tree):
                                if isinstance(x, tuple) and x and x[0] == 'closure' and x[1] != fn.qual:
                                    sib = crate.fn(x[1])
                                    if sib is not None:
                                        items.add(pre + 'sibling body ' + effect_summary(sib))
    _multi_defs(par, ct, items, pre)
    canon_closure_context(par, crate, items, depth + 1)


def canon_site_items(fn, crate, site_trees, kind, bb):
    items = set()
    ct = CTree(fn, consts=True)
    items.add('site %s %s' % (kind, ' ; '.join(ct.text(t) for t in site_trees)))
    rel = set()
    for t in site_trees:
        _atoms(fn, t, rel)
    # a site without operands (panic!(), unreachable!(), an assert on a constant) rests on its guards alone: keep all
    canon_guards(fn, bb, ct, items, relevant=rel or None)
    _multi_defs(fn, ct, items)
    canon_closure_context(fn, crate, items)
    return items


def canon_loop_items(fn, crate, blocks):
    """the loop body as a set of canonical effects, each tagged with the (canonical) branch decisions inside the loop
    it executes under: calls, stores to locals with several definitions, stores through places, branch conditions"""
    items = set()
    ct = CTree(fn, consts=True)
    within = set(blocks)
    for b in blocks:
        tmp = set()
        canon_guards(fn, b, ct, tmp, within=within)
        sig = hashlib.sha1('|'.join(sorted(tmp)).encode()).hexdigest()[:8]
        for s in fn.blocks[b]['s']:
            if s['k'] != 'assign' or is_log_term(s):
                continue
            lhs = s['lhs']
            multi = len([d for d in fn.defs.get(lhs['l'], []) if d['kind'] in ('assign', 'call')]) > 1
            if (fn.local_ty(lhs['l']) or '') == '()' and not lhs.get('p'):
                continue   # unit values of statement-position matches / blocks carry nothing
            if lhs.get('p') or multi or lhs['l'] == 0:
                items.add('%s store <%s>%s = %s' % (sig, ct.leaf_ty(lhs['l']), '.' + '.'.join(str(e.get('n', e.get('f', '?'))) if isinstance(e, dict) else str(e) for e in (lhs.get('p') or [])) if lhs.get('p') else '', ct.text(fn.rvalue_tree(s['rv']))))
                ct.multi.add(lhs['l'])
        t = fn.blocks[b]['t']
        if is_log_term(t):
            continue
        if t['k'] == 'call':
            items.add('%s call %s' % (sig, ct.text(fn.call_tree(t))))
        elif t['k'] == 'switch':
            items.add('%s branch %s' % (sig, ct.text(fn.operand_tree(t['x']))[:500]))
        elif t['k'] in ('return', 'yield'):
            items.add('%s %s' % (sig, t['k']))
    _multi_defs(fn, ct, items, 'in: ')
    canon_closure_context(fn, crate, items)
    return items


def canon_loop_key(fn, exits):
    ct = CTree(fn)
    conds = sorted(ct.text(c) for _, c in exits)
    return '%s|loop|%s' % (_clean(fn.qual), hashlib.sha1(' ; '.join(conds).encode()).hexdigest()[:14])
