"""backward slices of reviewed sites.

A reviewed table entry (tables/panic_table.json, tables/loop_table.json) is an argument a person
wrote about *particular code*: the operands of one panic edge and the statements that compute
them, or the body of one loop.  The entry must not outlive that code.  At generation time the
slice of every entry is hashed and frozen with it; at check time the slice is recomputed from the
facts of the current tree and an entry whose slice changed is void (the site is reported again,
with the slice items that are new).

The slice of a site is a *set* of canonical strings:
  * the site's own terminator,
  * every definition (assignment, call result, partial write, call through a &mut alias) of
    every local its operands transitively depend on, within the function,
  * the branch conditions that guard the site (switches in dominators from which the site is
    reachable through some but not all successors; logging-macro switches excluded),
  * for closures / coroutine bodies: the slice of the captured values in the parent function, the
    call chain the closure is handed to, and the full bodies of the sibling closures in that chain.
Locals are replaced by their types, so inserting unrelated statements or renaming a temporary
does not change a slice; changing what an operand is computed from does."""
import hashlib, json, re
from mirq import *
from mirq import _has_deref

DROP_KEYS = {'line', 'mac', 'macs', 'ds', 't', 'o', 'u', 'unwind', 'false', 'res', 'krate', 'end', 'col', 'span'}


class Canon:
    def __init__(self, fn):
        self.fn = fn
        self.used = set()

    def ty(self, l):
        # user-named locals keep their name (two flags of type bool must stay distinguishable; swapping the operands
        # of `a - b` must be visible); compiler temporaries are known by their type only
        nm = self.fn.local_name(l)
        if nm:
            return nm
        t = self.fn.local_ty(l) or '?'
        # closure types print their source position: not part of the meaning
        t = re.sub(r'\{(closure|coroutine|async \w+)@[^}]*\}', r'{\1}', t)
        return t

    def place(self, p):
        self.used.add(p['l'])
        out = '<%s>' % self.ty(p['l'])
        for e in p.get('p') or []:
            if e == '*':
                out = '*' + out
            elif isinstance(e, dict):
                if 'f' in e:
                    out += '.%s' % (e.get('n') if e.get('n') is not None else e['f'])
                elif 'dc' in e:
                    out += ' as %s' % e['dc']
                elif 'i' in e:
                    i = e['i']
                    if isinstance(i, dict) and 'l' in i:
                        self.used.add(i['l'])
                        out += '[<%s>]' % self.ty(i['l'])
                    elif isinstance(i, int):
                        self.used.add(i)
                        out += '[<%s>]' % self.ty(i)
                    else:
                        out += '[%s]' % json.dumps(i, sort_keys=True)
                else:
                    out += '{%s}' % json.dumps(e, sort_keys=True)
            else:
                out += '{%s}' % json.dumps(e, sort_keys=True)
        return out

    def any(self, x):
        if isinstance(x, dict):
            if 'l' in x and 'k' not in x and isinstance(x['l'], int):
                return self.place(x)
            out = {}
            for k in sorted(x):
                if k in DROP_KEYS:
                    continue
                v = x[k]
                if k == 'ts' and isinstance(v, list):
                    out[k] = sorted(str(p[0]) for p in v)
                    continue
                if k in ('fn', 'decl', 'def') and isinstance(v, str):
                    out[k] = re.sub(r'\{(closure|coroutine)#\d+\}', r'{\1}', re.sub(r'\{(closure|coroutine)@[^}]*\}', r'{\1}', v))
                    continue
                out[k] = self.any(v)
            return out
        if isinstance(x, list):
            return [self.any(v) for v in x]
        if isinstance(x, str):
            return re.sub(r'\{(closure|coroutine)#\d+\}', r'{\1}', re.sub(r'\{(closure|coroutine|async \w+)@[^}]*\}', r'{\1}', x))
        return x

    def text(self, x):
        return json.dumps(self.any(x), sort_keys=True)


def _aliases(fn):
    """local -> set of locals it may be written through (tmp = &mut l / &raw mut l / &mut *tmp)"""
    al = {}
    changed = True
    rounds = 0
    while changed and rounds < 6:
        changed = False
        rounds += 1
        for b in fn.reach:
            for s in fn.blocks[b]['s']:
                if s['k'] != 'assign' or s['lhs'].get('p'):
                    continue
                rv = s['rv']
                if rv['k'] in ('ref', 'rawptr') and (rv.get('mut') or rv['k'] == 'rawptr'):
                    src = rv['p']['l']
                    tgt = s['lhs']['l']
                    roots = {src} if not _has_deref_first(rv['p']) else set(al.get(src, ()))
                    if not roots and not _has_deref_first(rv['p']):
                        roots = {src}
                    cur = al.setdefault(tgt, set())
                    if not roots <= cur:
                        cur |= roots
                        changed = True
                elif rv['k'] == 'use':
                    x = rv['x']
                    p = x.get('m') or x.get('c')
                    if p and not p.get('p') and p['l'] in al:
                        cur = al.setdefault(s['lhs']['l'], set())
                        if not al[p['l']] <= cur:
                            cur |= al[p['l']]
                            changed = True
    return al


def _has_deref_first(p):
    pr = p.get('p') or []
    return bool(pr) and pr[0] == '*'


def _alias_writers(fn):
    """local l -> list of call terminators that receive a &mut alias of l as an argument"""
    if getattr(fn, '_alias_writers', None) is not None:
        return fn._alias_writers
    al = _aliases(fn)
    out = {}
    for b in fn.reach:
        t = fn.blocks[b]['t']
        if t['k'] != 'call':
            continue
        for a in t.get('args', []):
            p = a.get('m') or a.get('c')
            if p and not p.get('p') and p['l'] in al:
                for root in al[p['l']]:
                    out.setdefault(root, []).append(t)
    fn._alias_writers = out
    return out


def data_slice(fn, seeds, items, prefix=''):
    """adds the canonical definitions of the locals in `seeds` (transitively) to `items`"""
    writers = _alias_writers(fn)
    seen = set()
    work = list(seeds)
    while work:
        l = work.pop()
        if l in seen:
            continue
        seen.add(l)
        for d in fn.defs.get(l, []):
            c = Canon(fn)
            if d['kind'] == 'arg':
                items.add('%sarg%d:%s' % (prefix, l, c.ty(l)))
                continue
            if d['kind'] == 'assign':
                items.add('%s<%s> = %s' % (prefix, c.ty(l), c.text(d['rv'])))
            elif d['kind'] == 'part':
                st = d.get('st')
                if st is not None:
                    if st['k'] == 'assign':
                        items.add('%s%s = %s' % (prefix, c.place(st['lhs']), c.text(st['rv'])))
                    else:
                        items.add('%s%s' % (prefix, c.text(st)))
                else:
                    items.add('%spart-call %s' % (prefix, c.text(d['term'])))
            else:
                items.add('%s<%s> = call %s' % (prefix, c.ty(l), c.text(d['term'])))
            work.extend(c.used - seen)
        for t in writers.get(l, []):
            c = Canon(fn)
            items.add('%svia-&mut <%s>: %s' % (prefix, c.ty(l), c.text(t)))
            work.extend(c.used - seen)
    return seen


def guards(fn, bb, items, prefix='', within=None):
    used = set()
    chain = fn.dom_chain(bb)
    for d in chain:
        if d == bb or (within is not None and d not in within):
            continue
        t = fn.blocks[d]['t']
        if t['k'] != 'switch' or is_log_term(t):
            continue
        labels = [(str(v), tgt) for v, tgt in t['ts']] + [('else', t['o'])]
        reach = []
        for lab, tgt in labels:
            if tgt == bb or bb in fn.reachable_from(tgt, avoid=(d,)):
                reach.append(lab)
        if len(reach) == len(labels):
            continue
        c = Canon(fn)
        c.text(t['x'])
        cond = re.sub(r'\{(closure|coroutine)#\d+\}', r'{\1}', re.sub(r'\b_\d+\b', '_', show(fn.expand(fn.operand_tree(t['x'])))))
        items.add('%sguard %s in %s' % (prefix, cond[:600], ','.join(sorted(reach))))
        used |= c.used
    return used


def body_digest(fn):
    items = set()
    for b in fn.reach:
        for s in fn.blocks[b]['s']:
            if s['k'] in ('live', 'dead', 'nop') or is_log_term(s):
                continue
            items.add(Canon(fn).text(s))
        if not is_log_term(fn.blocks[b]['t']):
            items.add(Canon(fn).text(fn.blocks[b]['t']))
    return hashlib.sha1('\n'.join(sorted(items)).encode()).hexdigest()[:12]


def _parent(fn, crate):
    m = re.match(r'^(.*)::\{(closure|coroutine)#\d+\}$', fn.qual)
    if not m:
        return None
    return crate.fn(m.group(1))


def closure_context(fn, crate, items, depth=0):
    """where a closure / coroutine body gets its captured values and who drives it"""
    par = _parent(fn, crate)
    if par is None or depth > 3:
        return
    pre = 'parent%d: ' % depth
    for b in sorted(par.reach):
        for s in par.blocks[b]['s']:
            if s['k'] == 'assign' and s['rv']['k'] == 'agg' and s['rv'].get('ak') in ('closure', 'coroutine', 'coroutine_closure') and s['rv'].get('def') == fn.qual:
                c = Canon(par)
                items.add(pre + 'captures ' + c.text(s['rv'].get('xs', [])))
                used = set(c.used)
                used |= guards(par, b, items, pre)
                data_slice(par, used, items, pre)
                # the chain the closure value is handed to
                holder = s['lhs']['l']
                for b2 in sorted(par.reach):
                    t = par.blocks[b2]['t']
                    if t['k'] != 'call':
                        continue
                    for a in t.get('args', []):
                        p = a.get('m') or a.get('c')
                        if p and p['l'] == holder and not p.get('p'):
                            tree = par.expand(par.call_tree(t))
                            txt = re.sub(r'\{(closure|coroutine)#\d+\}', r'{\1}', re.sub(r'\b_\d+\b', '_', show(tree)))
                            items.add(pre + 'driven-by ' + txt[:1500])
                            for x in walk(tree):
                                if isinstance(x, tuple) and x and x[0] == 'closure' and x[1] != fn.qual:
                                    sib = crate.fn(x[1])
                                    if sib is not None:
                                        items.add(pre + 'sibling %s body %s' % (x[1].split('::')[-1], body_digest(sib)))
    closure_context(par, crate, items, depth + 1)


def site_items(fn, crate, term, bb):
    items = set()
    c = Canon(fn)
    items.add('site ' + c.text(term))
    used = set(c.used)
    used |= guards(fn, bb, items)
    data_slice(fn, used, items)
    closure_context(fn, crate, items)
    return items


def guard_sig(fn, b, within=None):
    """the branch decisions under which block b executes (restricted to guards inside `within`), as one short hash"""
    tmp = set()
    guards(fn, b, tmp, within=within)
    return hashlib.sha1('|'.join(sorted(tmp)).encode()).hexdigest()[:8]


def loop_items(fn, crate, blocks):
    """every statement of the loop body, each tagged with the branch decisions (inside the loop) it executes under:
    moving a statement into another branch changes the slice even though the set of statements does not"""
    items = set()
    used = set()
    within = set(blocks)
    for b in blocks:
        sig = guard_sig(fn, b, within)
        for s in fn.blocks[b]['s']:
            if s['k'] in ('live', 'dead', 'nop') or is_log_term(s):
                continue   # log statements cannot change the iteration count (their panic edges are G1's business)
            c = Canon(fn)
            items.add(sig + ' ' + c.text(s))
            used |= c.used
        if is_log_term(fn.blocks[b]['t']):
            continue
        c = Canon(fn)
        items.add(sig + ' ' + c.text(fn.blocks[b]['t']))
        used |= c.used
    data_slice(fn, used, items, 'in: ')
    closure_context(fn, crate, items)
    return items


def digest(items):
    """(digest, sorted short hashes of the items)"""
    hs = sorted(hashlib.sha1(i.encode()).hexdigest()[:10] for i in items)
    return hashlib.sha1(''.join(hs).encode()).hexdigest()[:16], hs


def new_items(items, old_hashes):
    old = set(old_hashes or [])
    return sorted(i for i in items if hashlib.sha1(i.encode()).hexdigest()[:10] not in old)
