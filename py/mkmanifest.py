"""writes MANIFEST.json from the table below (kept in one place so it stays valid)"""
import json, os
VERIF = os.path.dirname(os.path.dirname(os.path.abspath(__file__)))

CLAIMS = {
    'C05': dict(
        technique='path-sensitive dominance over MIR (every Some-return state carries the cut-off and progress conditions), structural rules on frame construction',
        text='Static analysis of the resolved MIR of the six per-architecture get_caller_frame bodies and of frame construction: '
             'decides for all inputs that a returned caller frame passed the ip>=4096 cut-off and the strict stack-pointer progress test '
             '(leaf exception only on ARM/ARM64/MIPS, only for the frame after the context frame, only with equal sp), that its lookup address is '
             'the return address minus the architecture call adjustment, that resume_address/trust are fixed at construction, that unwinder frames carry '
             'cfi/frame_pointer/scan labels, that a scanned return address is the word just below the new sp, and who may attribute modules. '
             'It does not decide that a frame\'s function covers its address (C08/C11 behaviour).',
        note='Trusted: rustc nightly MIR construction, the mirfacts extractor, structural matching of conditions (no values computed). Renaming an anchored function or moving a check behind a helper returning bool is reported as an undischarged instance.',
        ref='DESIGN.md §3 C05'),
}

CLAIMS['C09'] = dict(
    technique='panic-edge inventory with discharge rules, loop-shape classification, allocation provenance, dominance rules on the buffer-growth protocol; finite-domain abstract interpretation of the streaming loops (stall-graph acyclicity)',
    text='Static analysis over the MIR of sym_file/{mod,parser,types}.rs: every panic edge is discharged (constant, interval, dominating guard, idiom or a reviewed per-site argument), '
         'every loop is iterator-driven over a finite std source, an await loop, or has a reviewed variant whose flag protocol is itself checked, the window buffer is created with the constant '
         'initial capacity and every grow() is dominated by the cap test, and the cap-exceeded edge enters recovery instead of returning an error. Decides totality and the fixed window for all inputs '
         'up to the stated trust in nom/circular; it does not measure memory. Termination of the two streaming loops is decided by a boolean abstraction extracted from MIR on every run (C09.5): over the reachable valuations of the loop\'s bool flags, window-empty and stale bits, iterations that neither read nor consume a byte form no cycle.',
    note='Trusted: rustc MIR, the extractor, nom and circular through the API table, the reviewed tables py/tables/*.json (one argument per site key; entries with a backing rule are void when that rule fails). usize = 64 bit.',
    ref='DESIGN.md §3 C09')
CLAIMS['C20'] = dict(
    technique='panic-edge inventory over the binary, exit/printing discipline by reachability and path-sensitive control dependence, option-table agreement',
    text='Static analysis of minidump-stackwalk: no undischarged panic edge in the binary (the --features unimplemented!() arm is discharged by agreement between the clap value_parser list and the handled arms), '
         'every process::exit has status 1 after a diagnostic, no failure exit is reachable after a printer call, the output writers are handed only to ProcessState::print/print_brief/print_json and print_minidump_dump, '
         'and each printer call is control-dependent on the option that selects it with cli.brief / cli.pretty / the cyborg file wired as documented. This decides the wiring clauses for every input and option set; '
         'byte equality with the library follows from "same call, same writer" and is not compared on values. Raw-dump mode: every fetched stream type is printed and no eagerly evaluated fallback take()s a stream (C20.6). C20.7: every report-shaping Cli field has a read that dominates process_minidump_with_options. C20.8: files are opened for writing only through File::create / create_new (called or as a function value) or an OpenOptions chain that truncates, and --output-file / --cyborg are opened that way, so a destination holds nothing but this run\'s report. C20.7b: feature defaults are only OR-ed with their flags. C20.2b: failure diagnostics reach standard error (known finding for --log-file). C20.9: report destinations are compared with the mapped input and each other before being created (known finding).',
    note='Trusted: clap (value_parser and ArgGroup enforcement), tokio::select!, rustc MIR, the extractor. Renaming the mode variables (human/json/raw_dump) is reported as a missing anchor.',
    ref='DESIGN.md §3 C20')

CLAIMS['C18'] = dict(
    level='proof',
    technique='exhaustive finite table obligations extracted from MIR (string-match arms explored path-sensitively)',
    text='Everything C18 states is a fact about nine hand-written match tables and a dispatcher, all finite. The name->place maps of get_register_always and set_register, the alias maps, '
         'the validity alias groups, REGISTERS and the sp/ip names are extracted from the MIR of each impl and compared name by name (about 2300 obligations: same names, same place for get and set, '
         'plain field read / plain store of `val`, distinct places for distinct canonical names, aliases memoize to a canonical name with the same place, validity honoured through both spellings, '
         'sp/ip accessors read the named place, every dispatcher arm delegates to its own variant\'s impl, get_register guards get_register_always with register_is_valid). All obligations are enumerated and '
         'discharged on every run, which is a proof of the table-level statement given Rust\'s field-assignment semantics; it is exhaustive over names, not sampled. default_memoize_register is an exact-equality position() search returning the table\'s own spelling. The dispatcher-level enumerations are covered too: MinidumpContext::valid_registers is registers() filtered by the per-CPU register_is_valid (never a raw lookup in the validity set, which may hold aliases), the trait-level enumeration walks the plain REGISTERS slice for All only and the filtered walk for every Some(_) (decided per variant of MinidumpContextValidity), and every arm of general_purpose_registers returns its own variant\'s REGISTERS (the Self type of the associated constant is read from MIR) or an equal list.',
    note='Trusted base: rustc nightly MIR construction (string-literal match lowering), the mirfacts extractor, the PathExplorer in py/mirq.py, Rust semantics of field assignment and slice indexing with constant indices. Values are never computed.',
    ref='DESIGN.md §3 C18')
CLAIMS['C03'] = dict(
    technique='panic-edge inventory with discharge rules, loop-shape classification, allocation provenance, dominance rules (walk bound, optional streams)',
    text='Static analysis over every non-derive function of minidump-processor, minidump-unwind and breakpad-symbols (unwinders, CFI/WIN evaluators, symbolizer, text and JSON printers): every panic edge '
         '(overflow/bounds/division asserts and calls to panicking APIs) is discharged by constant folding, type-history intervals, a dominating guard, a known idiom, trusted third-party macro text or a reviewed per-site argument; '
         'every loop is finite-iterator-driven, an await loop or has a reviewed variant; allocation sizes are bounded; only the thread list and system info may abort processing; the walk loop must have a frame bound '
         '(today it has none: recorded known finding). Eight genuine panics found this way were repaired in /repo (fix: commits). Does not decide time/memory budgets as numbers nor panics inside third-party crates.',
    note='Trusted: rustc MIR, the extractor, reviewed tables (py/tables/*.json; entries marked ASSUMPTION rest on the x86 encoding / 32-bit x86 registers), third-party crates through the API table only. usize = 64 bit.',
    ref='DESIGN.md §3 C03')

CLAIMS['C01'] = dict(
    technique='panic-edge inventory with discharge rules, loop-shape classification, allocation-size provenance',
    text='Static analysis over every non-derive function of crates minidump and minidump-common plus print_minidump_dump: each of the ~1100 panic edges (MIR overflow/bounds/division asserts and calls to panicking APIs) '
         'is discharged by constant folding, type-history intervals, a dominating guard on the same expression trees, a known idiom, trusted third-party macro text, or a reviewed per-site argument; every loop is driven by a finite std iterator '
         'or has a reviewed variant; every allocation size is a constant, a len() of existing data or the validated payload of ensure_count_in_bound. This holds for every byte string because it quantifies over code paths. '
         'Four genuine defects found this way (unknown handle info type unwrap, cyclic object-info chain, exception-parameter printing, unimplemented!() context printers) were repaired in /repo. '
         'Not decided: panics inside dependencies, a numeric memory bound. C01.6: the degree of retained memory of every stream reader (copies of file-controlled length under loops whose trip count comes from the file, followed through calls and iterator closures) is at most 2; the one reader of degree 3 (CrashpadInfo) is a recorded known finding.',
    note='Trusted: rustc MIR construction, the extractor, dependencies through the panicking-API table only, derive / third-party macro output, the reviewed tables under py/tables (void when their backing rule fails). usize = 64 bit.',
    ref='DESIGN.md §3 C01')
CLAIMS['C12'] = dict(
    technique='who-may-call over the resolved call graph, dominance / post-dominance on the check-then-fill protocol, guard live ranges against yield points, slot re-entry reachability',
    text='The at-most-once, same-outcome, counter and no-self-deadlock clauses follow from a lock discipline visible in the code on every path: SymbolSupplier::locate_symbols (resolved and dyn) is called only from the closure run under the per-module slot '
         '(plus the documented Http->local delegation); CachedAsyncResult::get takes the lock once, tests is_none and fills through the same guard with no unlock in between; the slot map is reached only through cache_default(module_key) with all four identity fields; '
         'symbols_requested += 1 dominates and symbols_processed += 1 post-dominates the supplier call; no std guard is live across an await; no slot closure can reach its own slot again. These are static facts for all schedules; executor fairness, '
         'the async mutex and CacheMap are trusted; cancellation is excluded by the property. Counter updates are same-statement read-modify-writes under one guard (no value carried across an await).',
    note='Trusted: futures_util::lock::Mutex, cachemap2::CacheMap (insert-only, stable slots), rustc MIR of coroutines before the state transform. dyn calls are over-approximated by method name.',
    ref='DESIGN.md §3 C12')

CLAIMS['C13'] = dict(
    technique='unordered-iteration lint with consumer classification, shared-write classification, who-may-call on ambient nondeterminism sources',
    text='Static order lint: every call in the processing crates that observes HashMap/HashSet iteration order is followed through iterator adaptors to its consumer, which must be order-insensitive '
         '(another hash/BTree collection, a sort before use, any/all/count/min/max) or reviewed; every mutation of Mutex-protected state shared by the concurrently polled per-thread futures must be commutative or keyed injectively; '
         'per-thread results are joined positionally (join_all; no completion-ordered collectors); no clock, RNG, thread identity or address-derived value appears in processing code. Three genuine order dependences found this way '
         '(proc_limits array, CFI alias rules, evil-JSON cert inversion) were repaired in /repo; one (symbol stats keyed by leaf name) is a recorded known finding. Byte identity of reports is not compared.',
    note='Trusted: serde_json::Map is a BTreeMap (preserve_order off), BTree/Vec iteration is deterministic, the executor. One reviewed table entry (CpuContext::valid_registers over a validity set) backed by a who-may-call rule.',
    ref='DESIGN.md §3 C13')
CLAIMS['C16'] = dict(
    technique='dominance (commit only after parse Ok / end of body), who-may-call on file-creating and temp-file-writing APIs, path-sensitive cascade condition',
    text='Cache atomicity as facts about every CFG path, hence every interruption point: commit_cache_file is called only from fetch_symbol_file, only after the Ok edge of parse_async and only with a live temp file; '
         'persist_noclobber happens only after the end-of-body edge of the download loop; files are created only through NamedTempFile::new_in(tmp) (no clobbering / keeping / renaming APIs anywhere in the crate); the temp file is written only by the data callback '
         '(exactly the bytes it was handed; a failed write drops the temp file), by the INFO URL trailer that dominates the persist, and by the raw chunk loop; the local lookup dominates every download and only Err(NotFound) cascades; '
         'the INFO URL line round-trips into SymbolFile.url. RAII deletion of NamedTempFile on drop/cancellation and the atomicity of persist_noclobber are trusted. The temp file is created exactly once before streaming starts and outside the data callback, which may only give the handle up (C16.6). C16.7: the raw download path is not reachable for FileKind::BreakpadSym (known finding). C16.8: in both parse loops Ok(parser.finish()) is reached only on the `fully_consumed` edge, so an accepted (and therefore committed) body has no unparsed tail in front of the INFO URL note.',
    note='Trusted: tempfile (delete on drop, atomic persist_noclobber), reqwest, the file system. That the callback receives exactly the consumed bytes is C10.1.',
    ref='DESIGN.md §3 C16')

CLAIMS['C17'] = dict(
    technique='sanitiser-coverage dataflow on path components plus table extraction of the sanitiser itself; who-may-join',
    text='Structural claim in two parts. Coverage: every component the four lookup functions join with "/" is lookup_leafname(..)? of the module\'s code/debug file, that leaf with a replaced extension, or identifier text (DebugId/CodeId), '
         'and consumers join only FileLookup.cache_rel/server_rel or the code-info lookup result onto cache, symbol directories and server URLs. Adequacy: lookup_leafname is leafname() with the leaves "", "." and ".." rejected (its string tests are extracted from MIR) '
         'and leafname takes the last piece after both separator styles, so no component is empty, `.` or `..` and none contains a separator. The traversal defect this exposed was repaired in /repo. Server URLs (C17.3, after the repair dd0f968): request URLs are built only by http::server_url, which appends server_rel.split(\'/\') through path_segments_mut().extend (each segment percent-encoded, so `http:host`, `%2e%2e`, `a?b` stay literal), refuses names with tab / newline / CR (the URL parser drops those), and nothing else in the crate parses text as URL syntax; every Client::get takes a URL that came out of server_url. Drive prefixes (C17.2, after the repair 65f0aa4): lookup_leafname strips `<letter>:` in a loop that is left only when the leaf has no such prefix.',
    note='Trusted: debugid (hex identifiers), std::path join semantics, rustc MIR. The claim is about the code shape for all module names; no path is ever built or joined at check time.',
    ref='DESIGN.md §3 C17')
CLAIMS['C19'] = dict(
    technique='value-shape dataflow (address ^ (1 << i) over constant ranges), gating dominance, constant folding of the confidence table',
    text='Structural clauses of C19 decided for all inputs: each pushed candidate is address ^ (1 << i) with i the induction variable of the loop over BitRange::range(), whose three ranges are the constants 0..64, 0..48, 48..64, selected by adjusted-address kind and CPU; '
         'each push is control-dependent on candidate == 0 or (memory_info_at_address(candidate) is Some and is_possibly_allowed_for); attempts are gated on 64-bit, non-ARM64, not null-pointer-with-offset, and try_bit_flips returns before the loop when the examined address is accessible; '
         'confidence constants (incl. the NEARBY_REGISTER table, constant-folded) lie in [0,1], combine is 1 - prod(1 - v) and all other arithmetic is a product with such a constant. That memory_info_at_address is right is C08 behaviour, not decided. C19.5: the MemoryOperation permission table and its derivation from the crash reason are extracted arm by arm. C19.6: every try_bit_flips call is handed self.memory_info, the selected bit range and MemoryOperation::from_crash_reason(&info.reason), and inside (also through a local predicate closure) memory_info_at_address / is_possibly_allowed_for are asked of exactly those parameters.',
    note='Trusted: rustc MIR, f32 monotonicity of products and 1 - x on [0,1].',
    ref='DESIGN.md §3 C19')

CLAIMS['C06'] = dict(
    technique='dispatch-table extraction from MIR (path-sensitive over the token match), dominance on evaluation order, panic-edge inventory',
    text='Narrow claim: the structural clauses of the documented STACK CFI semantics, for every rule program. The operator table of eval_cfi_expr is extracted and compared with the documentation (which wrapping operation, lhs/rhs order with rhs popped first, '
         '/ % fail on zero, @ fails unless rhs is a non-zero power of two and computes lhs & !(rhs-1), ^ goes through the walker with ?, .cfa pushes cfa?, .undef fails, result needs exactly one value); the evaluator has no non-wrapping arithmetic and no undischarged panic edge; '
         'the CFA is evaluated first with cfa = None and feeds set_cfa, .cfa and .ra are mandatory, every other rule either sets or clears its register, and walk_frame applies only delta records at or below the address, in address order. '
         'It does not compute results: agreement with a reference interpreter over a program space is behavioural and not decided. C06.7/C06.9: the rule map is written only by an unconditional insert in parse_cfi_exprs and only .cfa/.ra are removed; a register label becomes the map key without one leading `$`, so `$rax:` and `rax:` are one rule. C06.8: the walker callbacks the evaluator runs against answer from the callee context under its validity set. C06.10: rule-map keys are canonical register names (known finding).',
    note='Trusted: rustc MIR, u64::wrapping_* semantics, BTreeMap insertion order semantics for overriding rules.',
    ref='DESIGN.md §3 C06')
CLAIMS['C07'] = dict(
    technique='dispatch-table extraction, register-name alphabet dataflow against the x86 context table, dominance, panic-edge inventory; reaching-definition formula table for the FPO evaluator',
    text='Narrow claim: structural clauses of the STACK WIN semantics. The operator table of eval_win_expr (same rules as C06 on u32 plus `=` and `.undef`), the six predefined constants and their sources, the `@` search-start rule, '
         'the output alphabet (only eip esp ebp ebx esi edi reported), clearing before evaluation and framedata-before-fpo priority are extracted and checked; every register name handed to the FrameWalker interface must be a name the x86 context knows. '
         'The last rule exposes a genuine defect (names are cleared with a `$` prefix, so nothing is cleared and callee registers are forwarded); it is a recorded known finding because the obvious repair changes two existing CLI snapshots. '
         'Two overflow panics in this code were repaired in /repo. Numeric results are not computed. FPO formula table (C07.6): for every path to every set_caller_register call in walk_with_stack_win_fpo the reaching definitions are substituted into the value and compared, as linear address forms, with the documented $eip/$esp/$ebp/%ebx formulae incl. the leftover-return-address skip; the branch conditions must be the documented decisions. C07.7: the grand-callee facts the FPO skip and .cbParams rest on (CfiStackWalker.has_grand_callee = grand_callee_frame.is_some(), grand_callee_parameter_size = its parameter_size or 0, accessors return the fields) are pinned field by field. C07.8: literals are parsed with i64 precision in both evaluators. `=`: once both operands are popped, the next token is reached only through the remove or the insert (no shortcut that neither reads the right-hand side nor assigns). C07.6 also bounds what each FPO path demands: a `?` on a callee register or stack read may sit only on the paths whose documented formula uses that input (esp always; eip on context frames; ebp only when the record passes it through; the saved-ebp slot only when the record allocates a base pointer).',
    note='Trusted: rustc MIR, u32::wrapping_* semantics. Table entries marked ASSUMPTION (32-bit callee registers) apply to the FPO arithmetic.',
    ref='DESIGN.md §3 C07')

CLAIMS['C04'] = dict(
    technique='call ordering by reachability and guard dominance, constant labels, MIR-level sibling diff, register-name table cross-check; reaching-definition formula table for the FPO technique',
    text='Narrow claim: necessary structural conditions only. Decided for every input: technique priority cfi > frame pointer > scan with each later technique guarded by frame.is_none() and no way back; technique labels; '
         'arm64.rs and arm64_old.rs are the same MIR modulo the context type; every register name the unwinders use exists in its context\'s tables and every name inserted into or tested against a validity set is the canonical (memoized) spelling; '
         'scan windows (40/160 words, 15 x 16 bytes on amd64 Windows, 1024 bytes on MIPS) equal the documented values. Two alias-spelling defects found by the last rule were repaired in /repo. '
         'That the right frames come out of a given stack is behavioural and NOT decided: a fault inside a technique\'s arithmetic is invisible here. The x86 FPO technique is checked as a formula table (shared with C07.6): reaching definitions along every path to every set_caller_register call, compared as linear address forms with the documented formulae, and the two decisions compared with the documented ones. ARM64 pointer-authentication mask: all ones below the next power of two above max(2^47-1, end of the highest module) (C04.8). C04.9: the CfiStackWalker handed to the symbol file is built field by field from the callee frame. C04.10: a MIPS walk stays in one ABI - the 32/64-bit dispatch predicate is `flags contain CONTEXT_MIPS64 => n64`, and each scan hands the caller frame context flags that classify it like its callee (a genuine mips64 defect found by this rule was repaired in /repo). C04.11: the amd64 frame-pointer probe does not abort on a candidate-specific read. C04.12: the iOS-only ARM frame-pointer technique follows r7 (known finding). C04.13: the OS preconditions of the frame-pointer techniques, decided by resolving every decision on system_info.os for each variant of enum Os in turn (discriminant switches, PartialEq against a variant, and the boolean flags `matches!` lowers to): the ARM technique reads registers and stack for Os::Ios only; the amd64 technique probes 15 further 16-byte slots (240 bytes of slack) for Os::Windows only and uses the plain layout for every other OS. C04.14: CALLEE_SAVED_REGS of every architecture equals the platform ABI\'s callee-saved set (System V i386 / x86-64, AAPCS32 / AAPCS64, MIPS o32 / n64) without duplicates, alias spellings resolved through the C18 tables.',
    note='Trusted: rustc MIR, the C18 tables (reused). The twin comparison is order-sensitive over statements and terminators with unnamed locals anonymised; reordering independent statements in only one twin is reported.',
    ref='DESIGN.md §3 C04')
CLAIMS['C08'] = dict(
    technique='who-may-call, constructor guard dominance, path-sensitive skeleton of the two range-map builders, payload typing',
    text='Narrow claim: range maps are built only through the two safe builders, every Range::new sits in a constructor that rejects empty and overflowing ranges, both builders sort first and on no feasible path push an entry '
         'unless last.end < range.start was established (conflicting overlaps skipped, equal neighbours merged), payloads are unique indices or self-describing records, the unloaded-module list is sorted and filtered with contains, '
         'and modules with size 0 or overflowing base + size never enter a list. The data-structure invariant for every arrangement of ranges (lookup soundness and completeness) is not decided. The STACK WIN pre-filter drops or shortens records only under the symmetric Range::intersects test (C08.7, path-sensitive). C08.2 requires the inclusive end `checked_add(base, size - 1)?` for regions and records (an entry may end at 2^64); C08.8 the exclusive end of Linux maps lines (known finding); C08.9 a list reader never fails on one entry\'s size.',
    note='Trusted: range-map crate (RangeMap::get / try_from_iter), slice::sort_by_key. Path feasibility pruning uses purity of the comparisons and saturating_add(e,k) >= e.',
    ref='DESIGN.md §3 C08')
CLAIMS['C10'] = dict(
    technique='consume/callback pairing by dominance, return-shape dataflow, transition-table equality of the sync and async parse loops; finite-domain abstract interpretation of the streaming loops (staleness bit)',
    text='Narrow claim: in SymbolFile::parse and parse_async every buf.consume(n) is dominated by callback(&buf.data()[..n]) with nothing touching the buffer in between and no other way for bytes to leave the window, so the bytes handed to the callback are exactly the consumed prefix; '
         'parse_more returns 0 or the length of the input trimmed after its last newline; the two loops have identical transition tables (every buffer / flag / return effect with its guard conditions), so HTTP chunking feeds the same state machine as a Read; the cache tee is a pure writer. '
         'Equality of parse outcomes across chunk schedules is behavioural and not decided. The same boolean abstraction decides (C10.5) that fully_consumed is never tested for the end-of-input decision while bytes have arrived since it was last computed, for every chunking. Liveness analysis shows the remaining-input slice is the only local carried round parse_more\'s line loop (C10.6): no per-call state that a chunk boundary would reset. C10.8: every field tokeniser of the record parsers is evaluated on a line feed and must stop there. C10.9: recovery on a zero-length read only when the buffer is full (known finding). C10.11: parse_more reports a non-zero count only from inside its per-line loop, so every consumed line is seen by the line state machine however the input was chunked. C10.10: the capacity ladder INITIAL * K^i, folded from the with_capacity constant, the grow() step and the refusal test `new_cap > MAX` read from both loops, must reach at least 2 x 80 KiB, because a line is only guaranteed to fit in half the window.',
    note='Trusted: circular::Buffer (data / consume semantics), rustc MIR of the coroutine before the state transform.',
    ref='DESIGN.md §3 C10')
CLAIMS['C11'] = dict(
    technique='sort-before-search dominance, derived-Ord field order, key projection shape, guard dominance on base subtraction; path-sensitive found-implies-reported rule',
    text='Narrow claim: the searches of symbolication run on data sorted by the very key they search (the sort dominates the store; Inlinee orders by (depth, address), PublicSymbol by address), the inlinee candidate is re-checked for depth and coverage, '
         'the module base is never subtracted from a smaller address, reported bases are the looked-up record\'s address plus the module base, the PUBLIC fallback is a reverse scan for address <= addr, and inline frames are reversed exactly once after symbolication. '
         'That the right record is returned for every record set is not decided. Found implies reported (C11.5): path-sensitively, not-found outcomes of get_outermost_sourceloc are reached only with the lookups consulted and empty, the inline call site does not depend on the line lookup, and in fill_symbol the reporting calls post-dominate the found edges. PUBLIC cut-off: the fallback is used exactly when no previous FUNC starts at or after it (C11.6, path-sensitive). C11.8: empty INLINE ranges never reach the inlinee table.',
    note='Trusted: slice::binary_search_by_key, RangeMap::get, rustc MIR.',
    ref='DESIGN.md §3 C11')

CLAIMS['C02'] = dict(
    technique='endianness provenance dataflow on every scroll read, LE/BE twin comparison of byte-order branches, derive pairing from the impl table, insert discipline of the directory loop; who-may-call on text decoders',
    text='Narrow claim: only the byte-order and layout-pairing clauses. Every scroll read that takes an Endian context (329 call sites in minidump and minidump-common) receives an endianness data-flow-derived from a parameter or field, '
         'and Endian constants occur only in the signature probe of Minidump::read; every branch on the byte order has a Little and a Big arm that are LE/BE twins; every format.rs type read through scroll derives Pread and SizeWith from one field list '
         '(the five hand-written readers are a reviewed list; of these, CV_INFO_ELF must take the build id as the unmodified rest of the record, C02.11); duplicate directory entries are stored by an unconditional insert in file order, so the last one is served. Field offsets/padding against the serializer, identifier derivation and memory contents relate values to values and are NOT decided. Text decoding: only the BOM-agnostic, replacement-free encoding_rs decoders, with the UTF-16 encoding selected by the byte order (arms read from discriminant facts). The directory loop records entries only and the cached system info is read through the finished map (C02.4b). C02.6: memory regions carry base / size / bytes straight from their descriptor (Memory64 slices consecutive). C02.7: the CPU_INFORMATION union (24 undecoded bytes) is only ever consumed as the receiver of pread_with(_, 0, endian), never byte-wise. C02.8/C02.9: the debug-id and code-id derivation tables (read_debug_id, MinidumpModule::code_identifier) are extracted arm by arm: Pdb20/Pdb70/Elf forms, the Elf all-zero test over the whole build id, GUID read at offset 0 with the dump\'s byte order, format templates from the compiled constants. C02.10: the CPU table of the system info and the context-layout table of MinidumpContext::read cover the same architectures.',
    note='Trusted: scroll and its derives, rustc MIR and impl table.',
    ref='DESIGN.md §3 C02')
CLAIMS['C15'] = dict(
    technique='document/code key-tree agreement (JSON key tree reconstructed from the MIR of json! expansions vs the pseudo-JSON of json-schema.md), value provenance, dominance',
    text='Narrow claim: structure, not values. The tree of object keys print_json can emit (reconstructed from the MIR of every json! expansion, map["k"] = .. and insert mutation, and serde-derived struct reachable from it) equals the key tree of json-schema.md in both directions '
         '(one reviewed documentation gap: proc_limits); every key documented <hexstring> is built by json_hex, an Address (serialised through its Display impl) or a hex format; every documented enumeration value can be produced; '
         'set_print_context() dominates all formatting; thread_count / frame_count / frame / module_offset / function_offset / the crashing_thread copy / modules are computed from the data they duplicate (between its clone and its insertion the crashing_thread copy is touched only by the inserts of `registers` and `threads_index`: no call that shortens, reorders or replaces parts of it; the `registers` it receives are json_registers of the first frame of self.threads[requesting_thread], the thread that was copied); bytes reach the writer only through serde_json. '
         'Validity and escaping are serde_json\'s; schema conformance of values for hostile states is not decided. set_print_context stores this state\'s pointer width into the thread-local unconditionally and is its only writer (C15.3b). Every JSON array is a map over the whole collection it reports: no truncating / filtering adapter (C15.6).',
    note='Trusted: serde_json (valid UTF-8 JSON, escaping, BTreeMap-backed Map), the json! macro expansion shape as seen in MIR, rustc.',
    ref='DESIGN.md §3 C15')

CLAIMS['C14'] = dict(
    technique='dataflow-shape rules on MIR (what each ProcessState field is computed from) with path-sensitive branch facts: selector, skip, presence and width gating',
    text='Narrow claim: the structural clauses only. ProcessState is built in exactly one place; threads = collect(map(enumerate(iter(thread_list.threads)), closure)) with no filtering or reordering adapter and no later reorder / shrink, the walk pairs '
         'state.threads.iter_mut() with the thread list positionally; every CallStack the closure returns carries the id of its own item and thread_names.get_name(id); requesting_thread is written only as Some(<enumerate index>) on paths that established '
         'exception-thread-id.or(breakpad requesting id) == Some(id) and passed the dump-writer-thread early return, and on those paths the walk context is exception_context.or(thread_context), on the others the thread\'s own context; '
         'get_crash_address reads exception_information[1] only for Windows access-violation / in-page errors with number_parameters >= 2 and truncates to 32 bits exactly when pointer_width is Bits32; ExceptionInfo is fed from get_crash_reason / get_crash_address(os, cpu); '
         'process id comes from misc info else Linux status, create time from misc info, time from the header; modules / unloaded modules / system info / handles are the streams\' values; per-frame unloaded offsets are frame.instruction - base_of_image over modules_at_address(frame.instruction) for frames without a module. '
         'The value-level mapping exception code -> crash reason is NOT decided. C14.7: the Linux status pid has no made-up default (known finding). Every thread that is not the dump writer reaches the requesting-thread decision: the per-thread closure has no other exit before it. The OS / exception-code case split of get_crash_address is decided per enum variant (which variants of Os and of ExceptionCodeWindows reach the read of exception_information[1]), independent of how the split is spelled. C14.9: the severity / facility / error masks of from_windows_error_with_facility partition the 32-bit code and the facility field is shifted by the position of its mask (an internal-consistency fact of the decomposition; the value-level mapping itself stays undecided).',
    note='Trusted: enumerate/map/collect/zip/join_all preserve positions; MinidumpThread::context and MinidumpException::context decode the right bytes (field-level reading is C02\'s claim). A behaviour-preserving rewrite of these few functions into a different dataflow shape would need the rule updated.',
    ref='DESIGN.md §3 C14')

NOT_YET = {}
NA = {}


def main():
    props = [json.loads(l)['id'] for l in open(os.path.join(VERIF, 'properties.jsonl'))]
    checks = []
    na = []
    for p in props:
        if p in CLAIMS:
            c = CLAIMS[p]
            checks.append({
                'property_id': p,
                'quick_cmd': './check %s' % p,
                'thorough_cmd': './check %s --tier thorough' % p,
                'evidence_file': 'evidence/%s.json' % p,
                'replay_cmd_template': './check %s --explain {path}' % p,
                'engine': 'mirfacts+rules',
                'level_claimed': {'category': c.get('level', 'other'), 'text': c['text'], 'design_ref': c['ref']},
                'level_note': c['note'],
                'technique': c['technique'],
            })
        elif p in NA:
            na.append({'property_id': p, 'reason': NA[p]})
        else:
            na.append({'property_id': p, 'reason': NOT_YET.get(p, 'static check designed (DESIGN.md §3) but not built yet; not claimed until its check runs clean on the unchanged tree')})
    m = {
        'version': 1,
        'setup_cmd': './setup.sh',
        'hooks': {
            'guard': 'rust_minidump_verif',
            'enable': 'none needed: the analysis reads MIR of the unmodified sources (cargo +nightly check with the mirfacts wrapper)',
            'baseline_off_cmd': 'cd /repo && cargo test --workspace --no-fail-fast --offline',
            'source_commits': [],
            'add_only': True,
        },
        'engines': [
            {'name': 'mirfacts', 'path': 'engines/mirfacts', 'serves_properties': sorted(CLAIMS), 'kind_free_text': 'rustc_private driver (nightly) dumping mir_built with resolved callees as JSON facts'},
            {'name': 'rules', 'path': 'py', 'serves_properties': sorted(CLAIMS), 'kind_free_text': 'python rule engine: CFG, dominators, expression trees, path-sensitive exploration, tables'},
        ],
        'checks': checks,
        'not_applicable': na,
        'notes': 'Technique family: static analysis only. Every check re-extracts facts from /repo\'s working tree (cached by content hash) and reports file:line, function, rule and instance key.',
    }
    with open(os.path.join(VERIF, 'MANIFEST.json'), 'w') as fh:
        json.dump(m, fh, indent=1)
        fh.write('\n')


if __name__ == '__main__':
    main()
