//! Helpers shared by the confirming tests for property C10.
use breakpad_symbols::{SymbolError, SymbolFile};
use std::io::Read;

/// A reader that hands out the input according to a chunk schedule: the i-th
/// read returns at most `sizes[i % sizes.len()]` bytes (and never more than the
/// caller's buffer has room for). It returns 0 only at the real end of input
/// or when the caller's buffer is empty, as `Read` requires.
pub struct ChunkedReader<'a> {
    pub data: &'a [u8],
    pub sizes: Vec<usize>,
    pub next: usize,
}

impl<'a> ChunkedReader<'a> {
    pub fn new(data: &'a [u8], sizes: Vec<usize>) -> Self {
        assert!(!sizes.is_empty() && sizes.iter().all(|&s| s > 0));
        ChunkedReader { data, sizes, next: 0 }
    }
}

impl Read for ChunkedReader<'_> {
    fn read(&mut self, buf: &mut [u8]) -> std::io::Result<usize> {
        if buf.is_empty() || self.data.is_empty() {
            return Ok(0);
        }
        let want = self.sizes[self.next % self.sizes.len()];
        self.next += 1;
        let n = want.min(buf.len()).min(self.data.len());
        buf[..n].copy_from_slice(&self.data[..n]);
        self.data = &self.data[n..];
        Ok(n)
    }
}

pub type Outcome = (Result<SymbolFile, SymbolError>, Vec<u8>);

/// Parse with the given chunk schedule, collecting the callback's bytes.
pub fn parse_chunked(data: &[u8], sizes: Vec<usize>) -> Outcome {
    let mut seen = Vec::new();
    let res = SymbolFile::parse(ChunkedReader::new(data, sizes), |b| seen.extend_from_slice(b));
    (res, seen)
}

/// Parse the whole buffer at once (the reader always fills the buffer).
pub fn parse_whole(data: &[u8]) -> Outcome {
    let mut seen = Vec::new();
    let res = SymbolFile::parse(data, |b| seen.extend_from_slice(b));
    (res, seen)
}

pub fn describe(r: &Result<SymbolFile, SymbolError>) -> String {
    match r {
        Ok(f) => format!(
            "Ok(module_id={:?}, debug_file={:?}, files={}, publics={}, functions={}, cfi={})",
            f.module_id,
            f.debug_file,
            f.files.len(),
            f.publics.len(),
            f.functions.ranges_values().count(),
            f.cfi_stack_info.ranges_values().count()
        ),
        Err(e) => format!("Err({e})"),
    }
}

/// Same outcome: both errors, or both the same table.
pub fn same_outcome(a: &Result<SymbolFile, SymbolError>, b: &Result<SymbolFile, SymbolError>) -> bool {
    match (a, b) {
        (Ok(x), Ok(y)) => x == y,
        (Err(_), Err(_)) => true,
        _ => false,
    }
}

/// Serve `data` once over HTTP/1.1 on a loopback socket, writing it in pieces
/// of `piece` bytes with a pause after each (so that the client sees them as
/// separate body chunks), then parse the response with `SymbolFile::parse_async`.
pub async fn parse_over_http(data: &[u8], pieces: Vec<usize>, pause_ms: u64) -> Outcome {
    use tokio::io::{AsyncReadExt, AsyncWriteExt};
    let listener = tokio::net::TcpListener::bind("127.0.0.1:0").await.unwrap();
    let addr = listener.local_addr().unwrap();
    let body = data.to_vec();
    let server = tokio::spawn(async move {
        let (mut sock, _) = listener.accept().await.unwrap();
        sock.set_nodelay(true).unwrap();
        // read the request head
        let mut req = Vec::new();
        let mut b = [0u8; 1024];
        while !req.windows(4).any(|w| w == b"\r\n\r\n") {
            let n = sock.read(&mut b).await.unwrap();
            if n == 0 {
                break;
            }
            req.extend_from_slice(&b[..n]);
        }
        let head = format!(
            "HTTP/1.1 200 OK\r\nContent-Type: text/plain\r\nContent-Length: {}\r\nConnection: close\r\n\r\n",
            body.len()
        );
        sock.write_all(head.as_bytes()).await.unwrap();
        sock.flush().await.unwrap();
        tokio::time::sleep(std::time::Duration::from_millis(pause_ms)).await;
        let mut rest = &body[..];
        let mut i = 0;
        while !rest.is_empty() {
            let n = pieces[i % pieces.len()].min(rest.len());
            i += 1;
            if sock.write_all(&rest[..n]).await.is_err() {
                return;
            }
            let _ = sock.flush().await;
            rest = &rest[n..];
            tokio::time::sleep(std::time::Duration::from_millis(pause_ms)).await;
        }
        let _ = sock.shutdown().await;
    });
    let client = reqwest::Client::builder().no_proxy().build().unwrap();
    let resp = client
        .get(format!("http://{addr}/x.sym"))
        .send()
        .await
        .unwrap();
    let mut seen = Vec::new();
    let res = SymbolFile::parse_async(resp, |b| seen.extend_from_slice(b)).await;
    server.abort();
    (res, seen)
}
