//! One test per confirmed violation of property C10 (plus the async twin of each).
//! Every test asserts what the property demands and FAILS on the unmodified code.
use audit_c10_demo::*;

/// A MODULE record whose `os`/`cpu` field is followed directly by a newline.
const MODULE_SPLIT_OVER_TWO_LINES: &[u8] = b"MODULE Linux x86_64\nx 0123ABCD libfoo.so\nFILE 1 foo.c\n";

fn padded_file_line(id: usize, total_len: usize) -> Vec<u8> {
    let mut v = format!("FILE {id} ").into_bytes();
    while v.len() < total_len - 1 {
        v.push(b'a');
    }
    v.push(b'\n');
    v
}

/// MODULE + three FILE records (81000, 5000 and 81919 bytes, all below 80 KiB)
/// + a last record that lacks its newline (a download cut short).
fn truncated_last_line_input() -> Vec<u8> {
    let mut data = b"MODULE Linux x86 abcd1234 foo\n".to_vec();
    data.extend(padded_file_line(0, 81000));
    data.extend(padded_file_line(1, 5000));
    data.extend(padded_file_line(2, 81919));
    data.extend(b"FILE 99 zz");
    data
}

/// Finding 1: `non_space` (used for the os and cpu fields of MODULE) also eats
/// `\n`, so a MODULE record runs on into the next line - but only if that next
/// line happens to be in the buffer already. Every single split point and the
/// 1-byte trickle must give the same outcome as the whole buffer.
#[test]
fn module_record_runs_into_next_line_depending_on_chunk_boundary() {
    let data = MODULE_SPLIT_OVER_TWO_LINES;
    let (whole, whole_seen) = parse_whole(data);
    if whole.is_ok() {
        assert_eq!(whole_seen, data);
    }
    let mut schedules: Vec<Vec<usize>> = (1..data.len()).map(|s| vec![s, 1 << 20]).collect();
    schedules.push(vec![1]);
    for sizes in schedules {
        let (chunked, seen) = parse_chunked(data, sizes.clone());
        assert!(data.starts_with(&seen));
        assert!(
            same_outcome(&whole, &chunked),
            "chunk schedule {sizes:?} changes the outcome:\n  whole buffer: {}\n  chunked:      {}",
            describe(&whole),
            describe(&chunked)
        );
    }
}

/// Finding 1 through the async entry point (an HTTP download that delivers the
/// first line in its own packet).
#[tokio::test(flavor = "multi_thread")]
async fn module_record_runs_into_next_line_depending_on_chunk_boundary_async() {
    let data = MODULE_SPLIT_OVER_TWO_LINES;
    let first_line = data.iter().position(|&b| b == b'\n').unwrap() + 1;
    let (one_packet, _) = parse_over_http(data, vec![1 << 20], 10).await;
    let (two_packets, _) = parse_over_http(data, vec![first_line, 1 << 20], 300).await;
    assert!(
        same_outcome(&one_packet, &two_packets),
        "delivery changes the outcome:\n  one packet:  {}\n  two packets: {}",
        describe(&one_packet),
        describe(&two_packets)
    );
}

/// Finding 2: at end of input with an unterminated last line the code tries to
/// grow the buffer; if the buffer already has its maximum size (which depends
/// on how the chunks fell relative to the long lines) it enters "panic
/// recovery", discards the partial line and reports success - otherwise it
/// reports "unexpected EOF". Same bytes, different outcome.
#[test]
fn truncated_last_line_is_an_error_or_a_success_depending_on_chunking() {
    let data = truncated_last_line_input();
    assert!(data.split(|&b| b == b'\n').all(|l| l.len() + 1 < 80 * 1024));
    let (whole, _) = parse_whole(&data);
    for sizes in [vec![4096usize], vec![10 * 1024], vec![40 * 1024], vec![100, 1 << 20]] {
        let (chunked, seen) = parse_chunked(&data, sizes.clone());
        assert!(data.starts_with(&seen));
        if chunked.is_ok() {
            assert_eq!(seen, data);
        }
        assert!(
            same_outcome(&whole, &chunked),
            "chunk schedule {sizes:?} changes the outcome:\n  whole buffer: {}\n  chunked:      {}",
            describe(&whole),
            describe(&chunked)
        );
    }
}

/// Finding 2 through the async entry point (`parse_async` has its own copy of
/// the read loop): the same bytes downloaded in 4 KiB packets and parsed from
/// memory must give the same outcome.
#[tokio::test(flavor = "multi_thread")]
async fn truncated_last_line_is_an_error_or_a_success_depending_on_chunking_async() {
    let data = truncated_last_line_input();
    let (whole, _) = parse_whole(&data);
    let (downloaded, seen) = parse_over_http(&data, vec![4096], 3).await;
    assert!(data.starts_with(&seen));
    assert!(
        same_outcome(&whole, &downloaded),
        "download in 4 KiB packets changes the outcome:\n  whole buffer: {}\n  downloaded:   {}",
        describe(&whole),
        describe(&downloaded)
    );
}
