//! C01 on 32-bit targets: `read_string_utf16` computes `offset + size` in `usize` without
//! checking for overflow. With a 32-bit `usize` a length prefix close to 2^32 overflows
//! (debug: "attempt to add with overflow"; release: wraps, passes the bounds check and
//! then slices `bytes[offset..offset + size]` with start > end).
//!
//! Only meaningful where `usize` is 32 bits wide, e.g.
//! `cargo +nightly miri test --offline --target i686-unknown-linux-gnu --test utf16_len_32bit`.
#![cfg(target_pointer_width = "32")]

use audit_c01_demo::Builder;
use minidump::{Minidump, MinidumpThreadNames};

#[test]
fn utf16_length_prefix_overflows_usize_on_32bit() {
    let mut b = Builder::new(false, 1);
    // a "MINIDUMP_STRING" whose byte length is 2^32 - 2
    let mut s = Vec::new();
    s.extend_from_slice(&b.u32(0xffff_fffe));
    s.extend_from_slice(&[b'a', 0, b'b', 0, 0, 0]);
    let name_rva = b.append(&s);
    // MINIDUMP_THREAD_NAME_LIST with one entry
    let mut tn = Vec::new();
    tn.extend_from_slice(&b.u32(1));
    tn.extend_from_slice(&b.u32(7)); // thread_id
    tn.extend_from_slice(&b.u64(name_rva as u64)); // thread_name_rva
    b.stream(24, &tn);
    let bytes = b.finish();

    let r = std::panic::catch_unwind(|| {
        let dump = Minidump::read(&bytes[..]).unwrap();
        // The unreadable name is supposed to be dropped, the stream read fine.
        let names = dump.get_stream::<MinidumpThreadNames>();
        assert!(names.is_ok());
        assert!(names.unwrap().get_name(7).is_none());
    });
    assert!(r.is_ok(), "reading a thread name with a huge length prefix panicked");
}

/// Same class, in minidump-common: `MINIDUMP_UTF8_STRING` reads `length as usize + 1` bytes.
#[test]
fn utf8_string_length_plus_one_overflows_usize_on_32bit() {
    use minidump_common::format::MINIDUMP_UTF8_STRING;
    use scroll::Pread;
    let bytes = [0xffu8, 0xff, 0xff, 0xff, b'a', 0];
    let r = std::panic::catch_unwind(|| bytes.pread_with::<MINIDUMP_UTF8_STRING>(0, scroll::LE).is_err());
    assert_eq!(r.ok(), Some(true), "expected an error, got a panic");
}
