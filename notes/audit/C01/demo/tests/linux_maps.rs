//! C01: requesting the LinuxMaps stream must never panic, whatever its text says.

use audit_c01_demo::Builder;
use minidump::{Minidump, MinidumpLinuxMaps};

const LINUX_MAPS: u32 = 0x4767_0009;

fn dump_with_maps(maps: &[u8]) -> Vec<u8> {
    let mut b = Builder::new(false, 1);
    b.stream(LINUX_MAPS, maps);
    b.finish()
}

/// Request (and query) the stream; `Err(msg)` if that panicked.
fn request_maps(bytes: &[u8]) -> Result<(), String> {
    std::panic::catch_unwind(|| {
        let dump = Minidump::read(bytes).expect("the container itself is well formed");
        // Ok(..) or Err(..) are both fine, a panic is not.
        if let Ok(maps) = dump.get_stream::<MinidumpLinuxMaps>() {
            let _ = maps.memory_info_at_address(0x1000_0000);
            let _ = maps.print(&mut std::io::sink());
        }
    })
    .map_err(|e| {
        e.downcast_ref::<String>()
            .cloned()
            .or_else(|| e.downcast_ref::<&str>().map(|s| s.to_string()))
            .unwrap_or_else(|| "<panic>".into())
    })
}

/// A mapping whose path starts with "/SYSV" but is not "/SYSV" + 8 ASCII hex digits:
/// too short (also what a truncated dump ends with), or with non-ASCII text at byte 13.
#[test]
fn linux_maps_malformed_sysv_path_panics() {
    for maps in [
        "10000000-20000000 r--p 00000000 00:00 0 /SYSV12\n",
        "10000000-20000000 r--p 00000000 00:00 0 /SYSV0000abc",
        "10000000-20000000 r--p 00000000 00:00 0 /SYSV0000000\u{e9} (deleted)\n",
    ] {
        let bytes = dump_with_maps(maps.as_bytes());
        let r = request_maps(&bytes);
        assert!(
            r.is_ok(),
            "get_stream::<MinidumpLinuxMaps>() panicked on {maps:?}: {r:?}"
        );
    }
}

/// "[stack:<tid>" whose last character is multi-byte (and that has no closing bracket).
#[test]
fn linux_maps_thread_stack_name_non_ascii_panics() {
    let bytes = dump_with_maps("10000000-20000000 rw-p 00000000 00:00 0 [stack:12é\n".as_bytes());
    let r = request_maps(&bytes);
    assert!(r.is_ok(), "get_stream::<MinidumpLinuxMaps>() panicked: {r:?}");
}

/// An smaps-style "Key: value kB" attribute line whose value times 1024 exceeds u64.
#[test]
fn linux_maps_smaps_attribute_overflow_panics() {
    let bytes = dump_with_maps(
        b"10000000-20000000 r-xp 00000000 00:00 0 /bin/app\nRss: 18446744073709551615 kB\n",
    );
    let r = request_maps(&bytes);
    assert!(r.is_ok(), "get_stream::<MinidumpLinuxMaps>() panicked: {r:?}");
}
