//! C01: memory use while reading a minidump must stay at most quadratic in the file size.
//!
//! The Crashpad info stream nests three levels of "count + RVAs" lists (module links ->
//! per-module annotation list -> string), every RVA may point at the same bytes, and every
//! level copies what it points to. k links x m list entries x one L-byte string = k*m*L bytes
//! of heap for a file of 12k + 4m + L bytes: cubic.

use audit_c01_demo::Builder;
use minidump::{Minidump, MinidumpCrashpadInfo};
use std::alloc::{GlobalAlloc, Layout, System};
use std::sync::atomic::{AtomicUsize, Ordering::SeqCst};

static LIVE: AtomicUsize = AtomicUsize::new(0);
static PEAK: AtomicUsize = AtomicUsize::new(0);

struct Counting;
unsafe impl GlobalAlloc for Counting {
    unsafe fn alloc(&self, l: Layout) -> *mut u8 {
        let live = LIVE.fetch_add(l.size(), SeqCst) + l.size();
        PEAK.fetch_max(live, SeqCst);
        System.alloc(l)
    }
    unsafe fn dealloc(&self, p: *mut u8, l: Layout) {
        LIVE.fetch_sub(l.size(), SeqCst);
        System.dealloc(p, l)
    }
    unsafe fn realloc(&self, p: *mut u8, l: Layout, new: usize) -> *mut u8 {
        if new >= l.size() {
            let live = LIVE.fetch_add(new - l.size(), SeqCst) + (new - l.size());
            PEAK.fetch_max(live, SeqCst);
        } else {
            LIVE.fetch_sub(l.size() - new, SeqCst);
        }
        System.realloc(p, l, new)
    }
}
#[global_allocator]
static ALLOC: Counting = Counting;

const CRASHPAD_INFO: u32 = 0x4350_0001;

/// A dump whose Crashpad stream has `s/12` module links, all to one module record whose
/// `list_annotations` has `s/4` entries, all to one `s`-byte string. File size is about 3*s.
fn nested_crashpad_dump(s: usize) -> Vec<u8> {
    let links = s / 12;
    let entries = s / 4;
    let mut b = Builder::new(false, 1);

    // the string: u32 length, bytes, NUL
    let mut string = Vec::new();
    string.extend_from_slice(&b.u32(s as u32));
    string.extend(std::iter::repeat(b'a').take(s));
    string.push(0);
    let string_rva = b.append(&string);

    // MinidumpRVAList: count, rvas
    let mut list = Vec::new();
    list.extend_from_slice(&b.u32(entries as u32));
    for _ in 0..entries {
        list.extend_from_slice(&b.u32(string_rva));
    }
    let list_rva = b.append(&list);

    // MINIDUMP_MODULE_CRASHPAD_INFO
    let mut module = Vec::new();
    module.extend_from_slice(&b.u32(1)); // version
    module.extend_from_slice(&b.u32(list.len() as u32)); // list_annotations
    module.extend_from_slice(&b.u32(list_rva));
    module.extend_from_slice(&b.u32(0)); // simple_annotations (empty)
    module.extend_from_slice(&b.u32(0));
    module.extend_from_slice(&b.u32(0)); // annotation_objects (empty)
    module.extend_from_slice(&b.u32(0));
    let module_rva = b.append(&module);

    // MinidumpModuleCrashpadInfoList: count, links
    let mut module_list = Vec::new();
    module_list.extend_from_slice(&b.u32(links as u32));
    for i in 0..links {
        module_list.extend_from_slice(&b.u32(i as u32)); // minidump_module_list_index
        module_list.extend_from_slice(&b.u32(module.len() as u32));
        module_list.extend_from_slice(&b.u32(module_rva));
    }
    let module_list_rva = b.append(&module_list);

    // MINIDUMP_CRASHPAD_INFO
    let mut info = Vec::new();
    info.extend_from_slice(&b.u32(1)); // version
    info.extend_from_slice(&[0u8; 32]); // report_id, client_id
    info.extend_from_slice(&b.u32(0)); // simple_annotations (empty)
    info.extend_from_slice(&b.u32(0));
    info.extend_from_slice(&b.u32(module_list.len() as u32)); // module_list
    info.extend_from_slice(&b.u32(module_list_rva));
    b.stream(CRASHPAD_INFO, &info);
    b.finish()
}

/// Peak number of heap bytes that were live, on top of the input itself, while reading.
fn peak_heap_while_reading(bytes: &[u8]) -> usize {
    let before = LIVE.load(SeqCst);
    PEAK.store(before, SeqCst);
    {
        let dump = Minidump::read(bytes).expect("well formed container");
        let info = dump
            .get_stream::<MinidumpCrashpadInfo>()
            .expect("every list in this stream is backed by the file");
        assert!(!info.module_list.is_empty());
    }
    PEAK.load(SeqCst) - before
}

#[test]
fn crashpad_nested_lists_use_cubic_memory() {
    let small = nested_crashpad_dump(1024);
    let large = nested_crashpad_dump(2048);
    // (the two files differ by a factor of two in size)
    assert!(large.len() <= 2 * small.len() && large.len() > 2 * small.len() - 256);

    let peak_small = peak_heap_while_reading(&small);
    let peak_large = peak_heap_while_reading(&large);
    println!(
        "file {} bytes -> peak heap {} bytes; file {} bytes -> peak heap {} bytes",
        small.len(),
        peak_small,
        large.len(),
        peak_large
    );

    // Quadratic memory: doubling the input multiplies memory by at most four (allow 5).
    assert!(
        peak_large <= 5 * peak_small,
        "doubling the file from {} to {} bytes multiplied peak heap by {:.1} ({} -> {} bytes): cubic",
        small.len(),
        large.len(),
        peak_large as f64 / peak_small as f64,
        peak_small,
        peak_large
    );
    // ... and a small file stays within (its size)^2.
    assert!(
        peak_large <= large.len() * large.len(),
        "a {} byte file needed {} bytes of heap",
        large.len(),
        peak_large
    );
}
