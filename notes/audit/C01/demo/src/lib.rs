//! Helpers for the C01 audit: a tiny byte-level minidump assembler and a routine that
//! requests / queries / prints everything the `minidump` crate supports.

use minidump::*;
use std::io::Write;

/// Byte-level minidump assembler. The directory lives right after the header, blobs follow.
pub struct Builder {
    pub big_endian: bool,
    num_streams: usize,
    dirs: Vec<(u32, u32, u32)>,
    body: Vec<u8>,
}

impl Builder {
    pub fn new(big_endian: bool, num_streams: usize) -> Self {
        Builder {
            big_endian,
            num_streams,
            dirs: Vec::new(),
            body: Vec::new(),
        }
    }
    fn body_start(&self) -> usize {
        32 + 12 * self.num_streams
    }
    /// RVA the next appended blob will get.
    pub fn next_rva(&self) -> u32 {
        (self.body_start() + self.body.len()) as u32
    }
    /// Append a blob, return its RVA.
    pub fn append(&mut self, bytes: &[u8]) -> u32 {
        let rva = self.next_rva();
        self.body.extend_from_slice(bytes);
        rva
    }
    /// Append a blob and register it as a stream.
    pub fn stream(&mut self, ty: u32, bytes: &[u8]) -> u32 {
        let rva = self.append(bytes);
        self.dirs.push((ty, bytes.len() as u32, rva));
        rva
    }
    /// Register a directory entry with explicit location.
    pub fn dir(&mut self, ty: u32, size: u32, rva: u32) {
        self.dirs.push((ty, size, rva));
    }
    pub fn u16(&self, v: u16) -> [u8; 2] {
        if self.big_endian {
            v.to_be_bytes()
        } else {
            v.to_le_bytes()
        }
    }
    pub fn u32(&self, v: u32) -> [u8; 4] {
        if self.big_endian {
            v.to_be_bytes()
        } else {
            v.to_le_bytes()
        }
    }
    pub fn u64(&self, v: u64) -> [u8; 8] {
        if self.big_endian {
            v.to_be_bytes()
        } else {
            v.to_le_bytes()
        }
    }
    pub fn finish(self) -> Vec<u8> {
        assert_eq!(self.dirs.len(), self.num_streams);
        let mut out = Vec::new();
        out.extend_from_slice(&self.u32(0x504d444d)); // MDMP
        out.extend_from_slice(&self.u32(0xa793)); // version
        out.extend_from_slice(&self.u32(self.num_streams as u32));
        out.extend_from_slice(&self.u32(32)); // directory rva
        out.extend_from_slice(&self.u32(0)); // checksum
        out.extend_from_slice(&self.u32(0)); // time
        out.extend_from_slice(&self.u64(0)); // flags
        for (ty, size, rva) in &self.dirs {
            out.extend_from_slice(&self.u32(*ty));
            out.extend_from_slice(&self.u32(*size));
            out.extend_from_slice(&self.u32(*rva));
        }
        out.extend_from_slice(&self.body);
        out
    }
}

/// A MINIDUMP_SYSTEM_INFO stream body (56 bytes) for the given architecture / platform.
pub fn system_info(b: &Builder, arch: u16, platform: u32) -> Vec<u8> {
    let mut s = Vec::new();
    s.extend_from_slice(&b.u16(arch)); // processor_architecture
    s.extend_from_slice(&b.u16(6)); // processor_level
    s.extend_from_slice(&b.u16(0x0102)); // processor_revision
    s.push(1); // number_of_processors
    s.push(1); // product_type
    s.extend_from_slice(&b.u32(1)); // major
    s.extend_from_slice(&b.u32(2)); // minor
    s.extend_from_slice(&b.u32(3)); // build
    s.extend_from_slice(&b.u32(platform)); // platform_id
    s.extend_from_slice(&b.u32(0)); // csd_version_rva
    s.extend_from_slice(&b.u16(0)); // suite_mask
    s.extend_from_slice(&b.u16(0)); // reserved2
    s.extend_from_slice(&[0u8; 24]); // cpu info
    assert_eq!(s.len(), 56);
    s
}

/// Open `bytes` as a minidump, request every supported stream, query what was parsed and
/// print it. Returns `Err` only if opening failed; everything else is "must not panic".
pub fn exercise(bytes: &[u8]) -> Result<(), Error> {
    let mut out = std::io::sink();
    exercise_to(bytes, &mut out)
}

pub fn exercise_to<W: Write>(bytes: &[u8], out: &mut W) -> Result<(), Error> {
    let dump = Minidump::read(bytes)?;
    let _ = dump.print(out);
    for _ in dump.all_streams() {}
    for _ in dump.unknown_streams() {}
    for _ in dump.unimplemented_streams() {}

    let system_info = dump.get_stream::<MinidumpSystemInfo>().ok();
    let misc_info = dump.get_stream::<MinidumpMiscInfo>().ok();
    let memory_list = dump.get_stream::<MinidumpMemoryList<'_>>().ok();
    let memory64_list = dump.get_stream::<MinidumpMemory64List<'_>>().ok();
    let unified_memory = dump.get_memory();

    let probe_addrs: [u64; 9] = [
        0,
        1,
        0x1000,
        0x7fff_ffff,
        0x8000_0000,
        0xffff_ffff,
        0x1_0000_0000,
        u64::MAX - 1,
        u64::MAX,
    ];

    if let Some(si) = &system_info {
        let _ = si.print(out);
        let _ = si.os_parts();
        let _ = si.csd_version();
        let _ = si.cpu_info();
    }
    if let Some(mi) = &misc_info {
        let _ = mi.print(out);
        let _ = mi.process_create_time();
    }
    if let Some(ml) = &memory_list {
        let _ = ml.print(out, false);
        let _ = ml.print(out, true);
        for a in probe_addrs {
            let _ = ml.memory_at_address(a);
        }
        for m in ml.iter() {
            let _ = m.memory_range();
            let _ = m.get_memory_at_address::<u64>(m.base_address);
            let _ = m.get_memory_at_address::<u64>(m.base_address.wrapping_add(m.size).wrapping_sub(1));
            let _ = m.get_memory_at_address::<u32>(u64::MAX);
        }
        for _ in ml.by_addr() {}
    }
    if let Some(ml) = &memory64_list {
        let _ = ml.print(out, false);
        let _ = ml.print(out, true);
        for a in probe_addrs {
            let _ = ml.memory_at_address(a);
        }
        for m in ml.iter() {
            let _ = m.memory_range();
            let _ = m.get_memory_at_address::<u64>(m.base_address);
            let _ = m.get_memory_at_address::<u32>(u64::MAX);
        }
        for _ in ml.by_addr() {}
    }
    if let Some(um) = &unified_memory {
        let _ = um.print(out, true);
        for a in probe_addrs {
            let _ = um.memory_at_address(a);
        }
        for m in um.iter() {
            let _ = m.memory_range();
            let _ = m.bytes();
            let _ = m.base_address();
            let _ = m.size();
        }
        for _ in um.by_addr() {}
    }
    if let Ok(tl) = dump.get_stream::<MinidumpThreadList<'_>>() {
        let _ = tl.print(out, unified_memory.as_ref(), system_info.as_ref(), misc_info.as_ref(), false);
        let _ = tl.print(out, None, None, None, false);
        let _ = tl.print(out, unified_memory.as_ref(), system_info.as_ref(), misc_info.as_ref(), true);
        let dummy = UnifiedMemoryList::default();
        for t in &tl.threads {
            let _ = tl.get_thread(t.raw.thread_id);
            let _ = t.stack_memory(unified_memory.as_ref().unwrap_or(&dummy));
            if let Some(si) = &system_info {
                let _ = t.last_error(si.cpu, unified_memory.as_ref().unwrap_or(&dummy));
                if let Some(ctx) = t.context(si, misc_info.as_ref()) {
                    exercise_context(&ctx, out);
                }
            }
        }
    }
    if let Ok(ml) = dump.get_stream::<MinidumpModuleList>() {
        let _ = ml.print(out);
        let _ = ml.main_module();
        for a in probe_addrs {
            let _ = ml.module_at_address(a);
        }
        for m in ml.iter() {
            let _ = m.code_identifier();
            let _ = m.debug_identifier();
            let _ = m.debug_file();
            let _ = m.version();
            let _ = m.code_file();
        }
        for _ in ml.by_addr() {}
    }
    if let Ok(ml) = dump.get_stream::<MinidumpUnloadedModuleList>() {
        let _ = ml.print(out);
        for a in probe_addrs {
            for _ in ml.modules_at_address(a) {}
        }
        for m in ml.iter() {
            let _ = m.code_identifier();
            let _ = m.debug_identifier();
        }
        for _ in ml.by_addr() {}
    }
    if let Ok(h) = dump.get_stream::<MinidumpHandleDataStream>() {
        let _ = h.print(out);
        for _ in h.iter() {}
    }
    if let Ok(mi) = dump.get_stream::<MinidumpMemoryInfoList<'_>>() {
        let _ = mi.print(out);
        for a in probe_addrs {
            let _ = mi.memory_info_at_address(a);
        }
        for m in mi.iter() {
            let _ = m.memory_range();
            let _ = (m.is_readable(), m.is_writable(), m.is_executable());
        }
        for _ in mi.by_addr() {}
    }
    let maps = dump.get_stream::<MinidumpLinuxMaps<'_>>().ok();
    if let Some(maps) = &maps {
        let _ = maps.print(out);
        for a in probe_addrs {
            let _ = maps.memory_info_at_address(a);
        }
        for m in maps.iter() {
            let _ = m.memory_range();
        }
        for _ in maps.by_addr() {}
        let _ = maps.memory_map_count();
    }
    if let Some(u) = UnifiedMemoryInfoList::new(dump.get_stream::<MinidumpMemoryInfoList<'_>>().ok(), maps) {
        let _ = u.print(out);
        for a in probe_addrs {
            let _ = u.memory_info_at_address(a);
        }
        for i in u.iter() {
            let _ = i.memory_range();
            let _ = i.print(out);
        }
        for _ in u.by_addr() {}
    }
    if let Ok(ex) = dump.get_stream::<MinidumpException>() {
        let _ = ex.print(out, system_info.as_ref(), misc_info.as_ref());
        let _ = ex.print(out, None, None);
        let _ = ex.get_crashing_thread_id();
        if let Some(si) = &system_info {
            let r = ex.get_crash_reason(si.os, si.cpu);
            let _ = write!(out, "{r}");
            let _ = ex.get_crash_address(si.os, si.cpu);
            if let Some(ctx) = ex.context(si, misc_info.as_ref()) {
                exercise_context(&ctx, out);
            }
        }
        use minidump::system_info::{Cpu, Os};
        for os in [Os::Windows, Os::MacOs, Os::Ios, Os::Linux, Os::Solaris, Os::Android, Os::Ps3, Os::NaCl, Os::Unknown(77)] {
            for cpu in [Cpu::X86, Cpu::X86_64, Cpu::Ppc, Cpu::Ppc64, Cpu::Sparc, Cpu::Arm, Cpu::Arm64, Cpu::Mips, Cpu::Mips64, Cpu::Unknown(9)] {
                let r = ex.get_crash_reason(os, cpu);
                let _ = write!(out, "{r} {r:?}");
                let _ = ex.get_crash_address(os, cpu);
            }
        }
    }
    if let Ok(a) = dump.get_stream::<MinidumpAssertion>() {
        let _ = a.print(out);
        let _ = (a.expression(), a.function(), a.file());
    }
    if let Ok(tn) = dump.get_stream::<MinidumpThreadNames>() {
        let _ = tn.print(out);
        let _ = tn.get_name(0);
    }
    if let Ok(ti) = dump.get_stream::<MinidumpThreadInfoList>() {
        let _ = ti.print(out);
        for t in &ti.thread_infos {
            let _ = ti.get_thread_info(t.raw.thread_id);
        }
    }
    if let Ok(bi) = dump.get_stream::<MinidumpBreakpadInfo>() {
        let _ = bi.print(out);
    }
    if let Ok(ci) = dump.get_stream::<MinidumpCrashpadInfo>() {
        let _ = ci.print(out);
    }
    if let Ok(mi) = dump.get_stream::<MinidumpMacCrashInfo>() {
        let _ = mi.print(out);
    }
    if let Ok(mb) = dump.get_stream::<MinidumpMacBootargs>() {
        let _ = mb.print(out);
    }
    if let Ok(s) = dump.get_stream::<MinidumpLinuxLsbRelease<'_>>() {
        for (k, v) in s.iter() {
            let _ = (k.to_string_lossy(), v.to_string_lossy());
        }
        let _ = s.raw_bytes();
    }
    if let Ok(s) = dump.get_stream::<MinidumpLinuxEnviron<'_>>() {
        for (k, v) in s.iter() {
            let _ = (k.to_string_lossy(), v.to_string_lossy());
        }
    }
    if let Ok(s) = dump.get_stream::<MinidumpLinuxCpuInfo<'_>>() {
        for (k, v) in s.iter() {
            let _ = (k.to_string_lossy(), v.to_string_lossy());
        }
    }
    if let Ok(s) = dump.get_stream::<MinidumpLinuxProcStatus<'_>>() {
        for (k, v) in s.iter() {
            let _ = (k.to_string_lossy(), v.to_string_lossy());
        }
    }
    if let Ok(s) = dump.get_stream::<MinidumpLinuxProcLimits<'_>>() {
        for l in s.iter() {
            let _ = l.to_string_lossy();
        }
    }
    if let Ok(s) = dump.get_stream::<MinidumpSoftErrors<'_>>() {
        let _ = s.as_ref().len();
    }
    Ok(())
}

fn exercise_context<W: Write>(ctx: &MinidumpContext, out: &mut W) {
    let _ = ctx.print(out);
    let _ = ctx.get_instruction_pointer();
    let _ = ctx.get_stack_pointer();
    let _ = ctx.register_size();
    for (name, _v) in ctx.registers() {
        let _ = ctx.format_register(name);
        let _ = ctx.get_register(name);
    }
    for _ in ctx.valid_registers() {}
}
