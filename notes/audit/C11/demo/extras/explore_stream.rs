//! Exploratory: chunked readers must give the same SymbolFile as a slice reader.
use breakpad_symbols::SymbolFile;
use std::io::Read;

struct Chunky<'a> { data: &'a [u8], pos: usize, sizes: Vec<usize>, i: usize }
impl<'a> Read for Chunky<'a> {
    fn read(&mut self, buf: &mut [u8]) -> std::io::Result<usize> {
        let want = self.sizes[self.i % self.sizes.len()];
        self.i += 1;
        let n = want.min(buf.len()).min(self.data.len() - self.pos);
        buf[..n].copy_from_slice(&self.data[self.pos..self.pos + n]);
        self.pos += n;
        Ok(n)
    }
}

fn build(eol: &str, long: usize) -> String {
    let mut s = String::new();
    s += &format!("MODULE Linux x86_64 000000000000000000000000000000000 mod{eol}");
    s += &format!("FILE 0 a.c{eol}");
    for i in 0..600u64 {
        let a = 0x1000 + i * 0x100;
        if i % 7 == 0 { s += &format!("INLINE_ORIGIN {} org{}{eol}", i, i); }
        if i % 5 == 0 { s += &format!("PUBLIC {:x} 0 pub{}{eol}", a + 0x80, i); }
        let name = if i == 300 { "n".repeat(long) } else { format!("f{}", i) };
        s += &format!("FUNC {:x} 40 0 {}{eol}", a, name);
        if i % 3 == 0 { s += &format!("INLINE_ORIGIN {} org{}{eol}", 1000 + i, i); }
        s += &format!("INLINE 0 {} 0 {} {:x} 8 {:x} 8{eol}", i, i - i % 7, a + 8, a + 0x20);
        s += &format!("INLINE 1 {} 0 {} {:x} 4{eol}", i, 1000 + i - i % 3, a + 8);
        for k in 0..8u64 { s += &format!("{:x} 8 {} 0{eol}", a + k * 8, k + 1); }
        if i % 4 == 0 {
            s += &format!("STACK CFI INIT {:x} 40 .cfa: $rsp 8 + .ra: .cfa 8 - ^{eol}", a);
            s += &format!("STACK CFI {:x} .cfa: $rsp 16 +{eol}", a + 4);
        }
        if i % 6 == 0 {
            s += &format!("STACK WIN 4 {:x} 40 0 0 {:x} 0 0 0 1 $eip 4 + ^ ={eol}", a, i);
        }
    }
    s
}

#[test]
fn explore_streaming() {
    for eol in ["\n", "\r\n", "\r\r\n"] {
        for long in [5usize, 6000, 30000, 70000] {
            let text = build(eol, long);
            let base = SymbolFile::from_bytes(text.as_bytes()).unwrap();
            assert_eq!(base.functions.ranges_values().count(), 600);
            for sizes in [vec![1usize], vec![7, 13, 4096], vec![10240], vec![10239, 1], vec![5000, 3, 9000], vec![100000]] {
                let r = Chunky { data: text.as_bytes(), pos: 0, sizes: sizes.clone(), i: 0 };
                let got = SymbolFile::parse(r, |_| ()).unwrap_or_else(|e| panic!("{:?} {:?} {} {:?}", eol, long, e, sizes));
                assert!(got == base, "mismatch eol {:?} long {} sizes {:?}", eol, long, sizes);
            }
        }
    }
}
